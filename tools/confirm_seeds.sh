#!/bin/bash
# Maintainer tool: for every kept seeded change that has no suite confirmation yet, apply it in a
# scratch worktree of its own (/tmp/wtc/s<slot>, at /repo's HEAD), run the repository's whole
# test-suite there, record the result in meta.json.   usage: confirm_seeds.sh <slot> <nslots> [name-pattern]
slot=${1:-0}; nslots=${2:-1}; pat=${3:-}
wt=/tmp/wtc/s$slot
[ -d $wt ] || git -C /repo worktree add -q --detach $wt HEAD
i=0
for d in $(ls -d /verif/seeded/*/ | sort -r); do
  name=$(basename $d)
  grep -q '"suite_confirmed":' $d/meta.json && continue
  [ -n "$pat" ] && [[ "$name" != $pat ]] && continue
  i=$((i+1)); [ $((i % nslots)) -eq $slot ] || continue
  cd $wt && git checkout -q -- . && git clean -qfd src && git apply $d/patch.diff || { echo "$name: patch does not apply to HEAD"; continue; }
  out=$(PYTHONPATH=$wt/src /venv/bin/python -m pytest -q -rf -p no:cacheprovider --timeout=2400 -n ${NPROC:-6} src/grid/tests 2>&1 | grep -E "^FAILED|passed|failed" | tail -4 | tr "\n" " ")
  git checkout -q -- . ; git clean -qfd src
  grep -q '"suite_confirmed":' $d/meta.json && continue
  /venv/bin/python - "$d/meta.json" "$out" <<'PY'
import json, sys
p, out = sys.argv[1], sys.argv[2]
m = json.load(open(p)); m["suite_confirmed"] = out.strip(); json.dump(m, open(p, "w"), indent=1)
PY
  echo "$name: $out"
done
