#!/bin/bash
# Maintainer tool: for every kept seeded change that has no suite confirmation yet, apply it in its
# scratch worktree, run the repository's whole test-suite there, record the result in meta.json.
for d in /verif/seeded/*/; do
  name=$(basename $d); id=${name%%-*}; wt=/tmp/wt/$id; case "$name" in *-2A-*|*-2B-*) wt=/tmp/wt2/$id;; *-3A-*|*-3B-*) wt=/tmp/wt3/$id;; esac
  grep -q '"suite_confirmed"' $d/meta.json && continue
  [ -d $wt ] || { echo "$name: no worktree"; continue; }
  cd $wt && git checkout -q -- . && git apply $d/patch.diff || { echo "$name: patch does not apply"; continue; }
  out=$(PYTHONPATH=$wt/src /venv/bin/python -m pytest -q -rf -p no:cacheprovider --timeout=900 -n ${NPROC:-8} src/grid/tests 2>&1 | grep -E "^FAILED|passed|failed" | tail -4 | tr "\n" " ")
  git checkout -q -- .
  /venv/bin/python - "$d/meta.json" "$out" <<'PY'
import json, sys
p, out = sys.argv[1], sys.argv[2]
m = json.load(open(p)); m["suite_confirmed"] = out.strip(); json.dump(m, open(p, "w"), indent=1)
PY
  echo "$name: $out"
done
