#!/bin/bash
# Maintainer tool: re-run the checks named in each kept seed's meta.json (detected_by) against the seed applied to a
# scratch worktree at /repo's HEAD.  usage: revalidate_seeds.sh <property> ...   (one worktree per property: /tmp/wtv/<id>)
# Output: gen/revalidate/<seed>.txt (one line: seed, status, checks tried)
mkdir -p /verif/gen/revalidate
for id in "$@"; do
  wt=/tmp/wtv/$id
  [ -d $wt ] || git -C /repo worktree add -q --detach $wt HEAD
  git -C $wt checkout -q --detach $(git -C /repo rev-parse HEAD) 2>/dev/null
  for d in /verif/seeded/$id-*/; do
    name=$(basename $d)
    cd $wt && git checkout -q -- . && git clean -qfd src
    if ! git apply $d/patch.diff 2>/dev/null; then
      # later fix: commits moved the context: retry with fuzz
      if ! patch -p1 -F3 --no-backup-if-mismatch -s < $d/patch.diff; then
        git checkout -q -- . ; git clean -qfd src; find . -name "*.rej" | xargs -r rm
        echo "$name NOAPPLY" > /verif/gen/revalidate/$name.txt; continue
      fi
    fi
    checks=$(/venv/bin/python - "$d/meta.json" "$id" <<'PY'
import json, re, sys
m = json.load(open(sys.argv[1])); own = sys.argv[2]
ids = re.findall(r"\bC\d\d\b", m.get("detected_by", ""))
out = []
for i in ids + [own]:
    if i not in out: out.append(i)
print(" ".join(out))
PY
)
    status=MISSED; tried=""
    for c in $checks; do
      tried="$tried $c"
      n=$(cd /verif && VERIF_REPO=$wt VERIF_SELFTEST= ./check $c --tier quick 2>&1 | grep -c "^VIOLATION")
      if [ "$n" -gt 0 ]; then status="DETECTED:$c:$n"; break; fi
    done
    cd $wt && git checkout -q -- . && git clean -qfd src
    echo "$name $status tried:$tried" > /verif/gen/revalidate/$name.txt
    cat /verif/gen/revalidate/$name.txt
  done
done
