#!/usr/bin/env python3
"""Regenerate the generated appendix of DESIGN.md (between the markers) from the committed state:
known_findings.json, seeded/*/meta.json, evidence/*.json, MANIFEST.json."""
import glob, json, os, re
ROOT = os.path.dirname(os.path.dirname(os.path.abspath(__file__)))
out = []
man = json.load(open(f"{ROOT}/MANIFEST.json"))
out.append("### I.1 Checks as registered\n")
out.append("| id | level | last recorded run (tier, states, cases, wall s) | technique |\n|---|---|---|---|")
for c in man["checks"]:
    pid = c["property_id"]
    ev = {}
    p = f"{ROOT}/evidence/{pid}.json"
    if os.path.exists(p):
        ev = json.load(open(p))
    cov = ev.get("coverage", {})
    run = f"{ev.get('tier','-')}, {cov.get('states','-')}, {cov.get('evaluations','-')}, {ev.get('wall_s','-')}"
    out.append(f"| {pid} | {c['level_claimed']['category']} | {run} | {c.get('technique','')[:160]} |")
na = man.get("not_applicable", [])
if na:
    out.append("\nNot claimed: " + "; ".join(f"{x['property_id']} ({x['reason']})" for x in na))
kf = json.load(open(f"{ROOT}/known_findings.json"))["findings"]
out.append("\n### I.2 Defects repaired in /repo (`fix:` commits; a fixed entry suppresses nothing)\n")
out.append("| property | commit | what failed |\n|---|---|---|")
for f in kf:
    if f["status"] == "fixed":
        out.append(f"| {f['property']} | {f.get('commit','')} | {f['what']} |")
out.append("\n### I.3 Known findings (genuine defects recorded, not repaired)\n")
out.append("| property | key | what fails |\n|---|---|---|")
for f in kf:
    if f["status"] == "known":
        out.append(f"| {f['property']} | `{f['key']}` | {f['what'][:420]} |")
out.append("\n### I.4 Seeded changes (written by fresh sub-agents from the property text only) and the checks that catch them\n")
out.append("| seed | needs, to manifest | detected by | first attempt |\n|---|---|---|---|")
for d in sorted(glob.glob(f"{ROOT}/seeded/*/meta.json")):
    m = json.load(open(d))
    name = os.path.basename(os.path.dirname(d))
    first = "MISSED - " + m["initially_missed"] if m.get("initially_missed") else "detected"
    out.append(f"| {name} | {m['needs_to_manifest'][:260]} | {m['detected_by'][:300]} | {first[:360]} |")
text = "\n".join(out) + "\n"
p = f"{ROOT}/DESIGN.md"
s = open(p).read()
b, e = "<!-- GENERATED-TABLES-BEGIN -->", "<!-- GENERATED-TABLES-END -->"
if b in s:
    s = s[:s.index(b) + len(b)] + "\n" + text + s[s.index(e):]
else:
    s += f"\n## Appendix I — generated tables (tools/mkdesign_tables.py)\n\n{b}\n{text}{e}\n"
open(p, "w").write(s)
print("DESIGN.md tables regenerated:", len(kf), "findings,", len(glob.glob(f"{ROOT}/seeded/*/meta.json")), "seeds")
