#!/usr/bin/env python3
"""Maintainer tool: copy a confirmed seeded change from /tmp/wt/<id>/_seed/<X> to /verif/seeded/<name>/.
usage: keep_seed.py Cxx X slug "needs..." "detected_by..." [--initially-missed "what was strengthened"]"""
import json, os, shutil, sys
pid, x, slug, needs, detected = sys.argv[1:6]
missed = sys.argv[7] if len(sys.argv) > 7 and sys.argv[6] == "--initially-missed" else None
root = os.environ.get("WT_ROOT", "/tmp/wt")
tag = os.environ.get("SEED_TAG", "") + x
src = f"{root}/{pid}/_seed/{x}"
dst = f"/verif/seeded/{pid}-{tag}-{slug}"
os.makedirs(dst, exist_ok=True)
for f in ("patch.diff", "demo.py", "notes.md"):
    if os.path.exists(os.path.join(src, f)):
        shutil.copy(os.path.join(src, f), os.path.join(dst, f))
logs = {}
for f in os.listdir(src):
    if f.startswith("check_") and f.endswith(".log"):
        lines = open(os.path.join(src, f)).read().splitlines()
        logs[f] = [l[:300] for l in lines if l.startswith("VIOLATION")][:5] + [l for l in lines if l.startswith("[C")]
meta = {
    "property": pid,
    "source": "written by a fresh sub-agent that saw only the property record and a scratch worktree",
    "needs_to_manifest": needs,
    "ran": [f"git apply patch.diff in scratch worktree {root}/{pid}",
            "demo.py: exit 1 with the change, exit 0 without (confirmed by tools/try_seed.sh)",
            f"VERIF_REPO={root}/{pid} ./check {pid} --tier quick with the change applied"],
    "detected_by": detected,
    "check_output_with_change": logs,
    "existing_test_suite_with_change": "598 passed, 1 skipped (reported by the sub-agent; re-confirmed by tools/confirm_seeds.sh where suite_confirmed is set)",
}
if missed:
    meta["initially_missed"] = missed
json.dump(meta, open(os.path.join(dst, "meta.json"), "w"), indent=1)
print("kept", dst)
