#!/usr/bin/env python3
"""Regenerate /verif/MANIFEST.json from the table below (single place to edit)."""
import json
import os

ROOT = os.path.dirname(os.path.dirname(os.path.abspath(__file__)))
BASE = ("cd /repo && env -u GRID_VERIF /venv/bin/python -m pytest -ra -q -p no:cacheprovider --timeout=900 "
        "--continue-on-collection-errors -n 8")

MC = "model_checking"
EX = "exploration"

# id -> (level, technique, text, note, design_ref)
CHECKS = {
    "C12": (MC, "TLC exhaustive model check of Angular.tla (tables extracted from /repo) + trace validation of recorded lookups",
            "TLC checks on every request -1..max+2 of all four methods (degree and size, ~1.15e5 requests, 1.2e6 states) that the "
            "code's algorithm (range check, direct hit, bisect_left in table order) equals the declarative 'smallest supported not below', "
            "that the result is a matching pair of both tables and has a data file; every lookup recorded from the implementation "
            "(constructor, converter, atomic-grid routes) is judged by the same TLC run against the specification.",
            "Trusted: TLC, the table/directory extraction (vf/extract.py), the recording harness. bisect_left is transcribed in the spec; "
            "the implementation is bound to it only through the recorded observations (all requests in the thorough tier).",
            "DESIGN.md section 5 C12"),
    "C10": (MC, "TLC exhaustive model check of the grid/neighbour-tree state machine (LocalGridSys.tla) + TLC trace validation of "
                "behaviours replayed on 13 concrete grid classes",
            "TLC checks for ALL histories of Query/SetPoints/SetWeights/GetItem over small constants that a query answers for the "
            "current points and weights (QueryCorrect, TreeFresh, InfIsWholeGrid, ItemCorrect), refutes the as-shipped variant (tree kept "
            "on reassignment) and reaches the witness states; TLC then enumerates every behaviour of length 3 (42 875) of the same machine; "
            "they and seeded longer random behaviours are replayed on Grid 1-3D, OneDGrid, LocalGrid, AngularGrid, AtomGrid, MolGrid, "
            "Tensor1DGrids, UniformGrid and PeriodicGrid objects with integer-valued points, every step is logged and the recorded traces "
            "are judged event by event by TLC against the specification (LocalGridTrace.tla).",
            "Trusted: TLC, the recording driver (vf/props/c10.py), exactness of cKDTree for radii not attained by a lattice distance. "
            "Selections that select nothing and infinite radii on PeriodicGrid (C11) are outside this check.",
            "DESIGN.md section 5 C10"),
    "C19": (MC, "TLC exhaustive model check of the cache/aliasing state machine (CacheSys.tla) and the remembered-scale machine "
                "(ScaleSys.tla) + TLC trace validation of behaviours replayed on the real caches",
            "TLC checks for ALL histories (2 methods x 2 degrees x <=3 live objects, 2.3e5 states) of constructions with cache on/off, "
            "in-place edits of returned arrays, drops, atomic-grid construction, shell extraction and the r=0 regeneration path that a "
            "freshly built grid always carries the shipped data, that no caller action reaches a cached array and that no user-visible array "
            "aliases the cache; the as-shipped aliasing variant is refuted in 3 steps.  TLC enumerates every behaviour of length 3; they and "
            "seeded longer ones (all four methods, Coulomb parameter table) are replayed on the library, after each step contents are compared "
            "with the shipped files loaded independently and memory sharing with cached arrays is measured; the recorded traces are judged by "
            "TLC (CacheTrace.tla).  Call sequences on the three b-inferring transforms are judged by ScaleTrace.tla (set-once scale, results a "
            "function of (operation, x, b)).",
            "Trusted: TLC, the measuring harness (np.shares_memory, allclose against independently loaded .npz/.json), one bit of content "
            "per buffer (ok/dirty) as abstraction.",
            "DESIGN.md section 5 C19"),
    "C20": (MC, "TLC enumeration and model check of the program space op x aliasing x read-only x callback mode (CallFrame.tla) + "
                "execution of every program with byte-wise snapshots, judged by TLC",
            "The operation table (63 public operations with their array/list/dict/object/callback slots) generates Tables_api.tla; TLC "
            "enumerates every program (operation, shared slot pair, read-only mask, callback-return mode fresh|arg|cached), checks the frame "
            "property on the design model, completeness of the enumeration, and refutes the as-shipped variant (ODE solvers write the "
            "callback's array, Poisson solvers write ode_params).  Every program is executed against the library with snapshots of all "
            "caller-owned buffers (including arrays inside passed grid objects and every array a callback returned), write-protection per "
            "mask, and comparison of the result with the un-aliased baseline; TLC judges the recorded outcomes (CallFrameTrace.tla).",
            "Trusted: TLC, the snapshotting harness, the operation table (operations not listed in vf/api_table.py are not checked). "
            "Programs run in resource-limited child processes; a hang or memory blow-up on an aliased input is reported as a violation.",
            "DESIGN.md section 5 C20, Appendix F"),
    "C13": (MC, "TLC bounded models of layout/index maps, weight schemes, molecule box, closest point, cube line chunking and "
                "polynomial calculus (Cubic.tla, MC_Cubic*.tla) + replay of TLC-emitted cases; TLC judges integer observables, harness "
                "judges reals against spec-derived rationals and expression trees",
            "TLC decides, for all shapes in {2..5}^2 u {2..5}^3 and all indices, that the stride loop and both index maps are inverse "
            "bijections in lexicographic order (last index fastest) and that a transcription of the NumPy constructions reproduces the "
            "point, tuple and product laws; the weight-sum bound for the rational schemes (shapes <= 12); enclosure of from_molecule's box "
            "arithmetic on 3.4e4 rational templates; rint/floor nearest-node rules on axis-parallel grids incl. negative steps; "
            "reader o writer = identity for all data lengths <= 130; the symbolic derivative of the test polynomials.  All enumerated cases "
            "are replayed into Tensor1DGrids/UniformGrid (index maps, integer points, weights, boxes with rotate on/off, closest_point, "
            "cube files in both unit conventions, cubic/linear/log interpolation with partial derivatives).",
            "Trusted: TLC, expr_eval, float comparison tolerances calibrated in vf/props/c13.py (measured errors <= 1e-15 relative vs "
            "thresholds >= 1e-12).  Not covered: method='nearest', closest_point on rotated axes, points outside the grid, save().",
            "DESIGN.md section 5 C13"),
    "C14": (MC, "TLC decides Horton orders and row-index arithmetic, checks the solid-harmonic formula and judges recorded order listings "
                "and exact Cartesian moments (Moments.tla); harness compares radial/pure values with spec-derived trees",
            "TLC checks for orders 0..8, all four moment types and Cartesian dimensions 1-3 that the loop nest enumerates the declarative "
            "row set in Horton order and that the closed-form row indices are bijections; that the explicit regular solid harmonics are "
            "harmonic, homogeneous and follow the documented sign convention (l <= 6); the dipole identity exactly.  The listings returned "
            "by generate_orders_horton_order and Grid.moments(return_orders=True) and the Cartesian moments of (half-)integer point sets for "
            "1-3 centres are judged exactly by TLC; radial, pure and pure-radial moments (l <= 6) and dipole_moment_of_molecule are "
            "compared with 50-digit evaluations of the emitted trees.",
            "Trusted: TLC, expr_eval/mpmath; tolerance 1e-10*scale (measured 1.7e-15*scale).",
            "DESIGN.md section 5 C14"),
    "C01": (MC, "TLA+ catalogue of rule definitions (OneD.tla); TLC proves rational exactness and the coefficient-domain Chebyshev "
                "identities that fix the series truncation indices; spec-emitted definition trees and orthonormal-family obligations "
                "replayed into all 26 constructors; TLC audit of recorded observables",
            "TLC decides exactness of the rational rules (n <= 25) and, in the Chebyshev coefficient domain, Q_n[T_m] = 2/(1-m^2) for "
            "Clenshaw-Curtis / Fejer-1 / Fejer-2 / sine-rectangle / Gauss-Chebyshev rules with the specification's summation index sets "
            "(n <= 128), tightness of the last series term, orthogonality of the test families, well-formedness of the catalogue.  Every "
            "emitted case (26 classes, n = 2..100, 127, 128, 255, 256 in the thorough tier, parameter lattices) is built with the real "
            "constructor and compared element-wise with the evaluated definitions (weights of substitution and Trefethen rules derived by the "
            "symbolic derivative) and discharged against exactness obligations on orthonormalised Legendre / Chebyshev / Laguerre families "
            "(absolute tolerance 1e-9; sound code <= 9e-14, FejerSecond >= 3.9e-3).  Sizes, order and domain are audited by TLC.",
            "Trusted: TLC, expr_eval/mpmath, the discrete cosine-sum lemma (cross-checked numerically), the functional form of the strip map.",
            "DESIGN.md section 5 C01, Appendix G"),
}

NOT_YET = {}


def main():
    props = [json.loads(l) for l in open(os.path.join(ROOT, "properties.jsonl"))]
    na_path = os.path.join(ROOT, "tools", "not_applicable.json")
    na = json.load(open(na_path)) if os.path.exists(na_path) else {}
    checks = []
    for p in props:
        pid = p["id"]
        if pid not in CHECKS:
            continue
        level, tech, text, note, ref = CHECKS[pid]
        checks.append({
            "property_id": pid,
            "quick_cmd": f"./check {pid} --tier quick",
            "thorough_cmd": f"./check {pid} --tier thorough",
            "evidence_file": f"/verif/evidence/{pid}.json",
            "replay_cmd_template": f"./check {pid} --replay {{path}}",
            "engine": "tlc+replay",
            "level_claimed": {"category": level, "text": text, "design_ref": ref},
            "level_note": note,
            "technique": tech,
        })
    man = {
        "version": 1,
        "setup_cmd": "./check --setup",
        "hooks": {
            "guard": "GRID_VERIF",
            "enable": "no source patch: checks import grid from /repo/src (editable install) and wrap it from outside "
                      "(vf/record.py) when GRID_VERIF=1; the guard is never read by theochem/grid itself",
            "baseline_off_cmd": BASE,
            "source_commits": [],
            "add_only": True,
        },
        "engines": [{
            "name": "tlc+replay", "path": "/verif/check",
            "serves_properties": [c["property_id"] for c in checks],
            "kind_free_text": "TLA+ specifications under /verif/spec checked by TLC 1.8; constants extracted from /repo at check time; "
                              "TLC-emitted cases replayed into the implementation and recorded observations validated by TLC",
        }],
        "checks": checks,
        "notes": "See DESIGN.md. Exit 0 = held (KNOWN-FINDING lines for listed findings), 1 = VIOLATION, 2 = machinery failure.",
        "not_applicable": [{"property_id": p["id"], "reason": na.get(p["id"], "check not built yet in this round (see DESIGN.md section 9 for the order of work)")}
                           for p in props if p["id"] not in CHECKS],
    }
    with open(os.path.join(ROOT, "MANIFEST.json"), "w") as f:
        json.dump(man, f, indent=1)
    print("MANIFEST.json:", len(checks), "checks,", len(man["not_applicable"]), "not applicable")


if __name__ == "__main__":
    main()
