#!/usr/bin/env python3
"""Regenerate /verif/MANIFEST.json from the table below (single place to edit)."""
import json
import os

ROOT = os.path.dirname(os.path.dirname(os.path.abspath(__file__)))
BASE = ("cd /repo && env -u GRID_VERIF /venv/bin/python -m pytest -ra -q -p no:cacheprovider --timeout=900 "
        "--continue-on-collection-errors -n 8")

MC = "model_checking"
EX = "exploration"

# id -> (level, technique, text, note, design_ref)
CHECKS = {
    "C12": (MC, "TLC exhaustive model check of Angular.tla (tables extracted from /repo) + trace validation of recorded lookups",
            "TLC checks on every request -1..max+2 of all four methods (degree and size, ~1.15e5 requests, 1.2e6 states) that the "
            "code's algorithm (range check, direct hit, bisect_left in table order) equals the declarative 'smallest supported not below', "
            "that the result is a matching pair of both tables and has a data file; every lookup recorded from the implementation "
            "(constructor, converter, atomic-grid routes) is judged by the same TLC run against the specification.",
            "Trusted: TLC, the table/directory extraction (vf/extract.py), the recording harness. bisect_left is transcribed in the spec; "
            "the implementation is bound to it only through the recorded observations (all requests in the thorough tier).",
            "DESIGN.md section 5 C12"),
    "C10": (MC, "TLC exhaustive model check of the grid/neighbour-tree state machine (LocalGridSys.tla) + TLC trace validation of "
                "behaviours replayed on 13 concrete grid classes",
            "TLC checks for ALL histories of Query/SetPoints/SetWeights/GetItem over small constants that a query answers for the "
            "current points and weights (QueryCorrect, TreeFresh, InfIsWholeGrid, ItemCorrect), refutes the as-shipped variant (tree kept "
            "on reassignment) and reaches the witness states; TLC then enumerates every behaviour of length 3 (42 875) of the same machine; "
            "they and seeded longer random behaviours are replayed on Grid 1-3D, OneDGrid, LocalGrid, AngularGrid, AtomGrid, MolGrid, "
            "Tensor1DGrids, UniformGrid and PeriodicGrid objects with integer-valued points, every step is logged and the recorded traces "
            "are judged event by event by TLC against the specification (LocalGridTrace.tla).",
            "Trusted: TLC, the recording driver (vf/props/c10.py), exactness of cKDTree for radii not attained by a lattice distance. "
            "Selections that select nothing and infinite radii on PeriodicGrid (C11) are outside this check.",
            "DESIGN.md section 5 C10"),
    "C19": (MC, "TLC exhaustive model check of the cache/aliasing state machine (CacheSys.tla) and the remembered-scale machine "
                "(ScaleSys.tla) + TLC trace validation of behaviours replayed on the real caches",
            "TLC checks for ALL histories (2 methods x 2 degrees x <=3 live objects, 2.3e5 states) of constructions with cache on/off, "
            "in-place edits of returned arrays, drops, atomic-grid construction, shell extraction and the r=0 regeneration path that a "
            "freshly built grid always carries the shipped data, that no caller action reaches a cached array and that no user-visible array "
            "aliases the cache; the as-shipped aliasing variant is refuted in 3 steps.  TLC enumerates every behaviour of length 3; they and "
            "seeded longer ones (all four methods, Coulomb parameter table) are replayed on the library, after each step contents are compared "
            "with the shipped files loaded independently and memory sharing with cached arrays is measured; the recorded traces are judged by "
            "TLC (CacheTrace.tla).  Call sequences on the three b-inferring transforms are judged by ScaleTrace.tla (set-once scale, results a "
            "function of (operation, x, b)).",
            "Trusted: TLC, the measuring harness (np.shares_memory, allclose against independently loaded .npz/.json), one bit of content "
            "per buffer (ok/dirty) as abstraction.",
            "DESIGN.md section 5 C19"),
    "C20": (MC, "TLC enumeration and model check of the program space op x aliasing x read-only x callback mode (CallFrame.tla) + "
                "execution of every program with byte-wise snapshots, judged by TLC",
            "The operation table (63 public operations with their array/list/dict/object/callback slots) generates Tables_api.tla; TLC "
            "enumerates every program (operation, shared slot pair, read-only mask, callback-return mode fresh|arg|cached), checks the frame "
            "property on the design model, completeness of the enumeration, and refutes the as-shipped variant (ODE solvers write the "
            "callback's array, Poisson solvers write ode_params).  Every program is executed against the library with snapshots of all "
            "caller-owned buffers (including arrays inside passed grid objects and every array a callback returned), write-protection per "
            "mask, and comparison of the result with the un-aliased baseline; TLC judges the recorded outcomes (CallFrameTrace.tla).",
            "Trusted: TLC, the snapshotting harness, the operation table (operations not listed in vf/api_table.py are not checked). "
            "Programs run in resource-limited child processes; a hang or memory blow-up on an aliased input is reported as a violation.",
            "DESIGN.md section 5 C20, Appendix F"),
    "C13": (MC, "TLC bounded models of layout/index maps, weight schemes, molecule box, closest point, cube line chunking and "
                "polynomial calculus (Cubic.tla, MC_Cubic*.tla) + replay of TLC-emitted cases; TLC judges integer observables, harness "
                "judges reals against spec-derived rationals and expression trees",
            "TLC decides, for all shapes in {2..5}^2 u {2..5}^3 and all indices, that the stride loop and both index maps are inverse "
            "bijections in lexicographic order (last index fastest) and that a transcription of the NumPy constructions reproduces the "
            "point, tuple and product laws; the weight-sum bound for the rational schemes (shapes <= 12); enclosure of from_molecule's box "
            "arithmetic on 3.4e4 rational templates; rint/floor nearest-node rules on axis-parallel grids incl. negative steps; "
            "reader o writer = identity for all data lengths <= 130; the symbolic derivative of the test polynomials.  All enumerated cases "
            "are replayed into Tensor1DGrids/UniformGrid (index maps, integer points, weights, boxes with rotate on/off, closest_point, "
            "cube files in both unit conventions, cubic/linear/log interpolation with partial derivatives).",
            "Trusted: TLC, expr_eval, float comparison tolerances calibrated in vf/props/c13.py (measured errors <= 1e-15 relative vs "
            "thresholds >= 1e-12).  Not covered: method='nearest', closest_point on rotated axes, points outside the grid, save().",
            "DESIGN.md section 5 C13"),
    "C14": (MC, "TLC decides Horton orders and row-index arithmetic, checks the solid-harmonic formula and judges recorded order listings "
                "and exact Cartesian moments (Moments.tla); harness compares radial/pure values with spec-derived trees",
            "TLC checks for orders 0..8, all four moment types and Cartesian dimensions 1-3 that the loop nest enumerates the declarative "
            "row set in Horton order and that the closed-form row indices are bijections; that the explicit regular solid harmonics are "
            "harmonic, homogeneous and follow the documented sign convention (l <= 6); the dipole identity exactly.  The listings returned "
            "by generate_orders_horton_order and Grid.moments(return_orders=True) and the Cartesian moments of (half-)integer point sets for "
            "1-3 centres are judged exactly by TLC; radial, pure and pure-radial moments (l <= 6) and dipole_moment_of_molecule are "
            "compared with 50-digit evaluations of the emitted trees.",
            "Trusted: TLC, expr_eval/mpmath; tolerance 1e-10*scale (measured 1.7e-15*scale).",
            "DESIGN.md section 5 C14"),
    "C01": (MC, "TLA+ catalogue of rule definitions (OneD.tla); TLC proves rational exactness and the coefficient-domain Chebyshev "
                "identities that fix the series truncation indices; spec-emitted definition trees and orthonormal-family obligations "
                "replayed into all 26 constructors; TLC audit of recorded observables",
            "TLC decides exactness of the rational rules (n <= 25) and, in the Chebyshev coefficient domain, Q_n[T_m] = 2/(1-m^2) for "
            "Clenshaw-Curtis / Fejer-1 / Fejer-2 / sine-rectangle / Gauss-Chebyshev rules with the specification's summation index sets "
            "(n <= 128), tightness of the last series term, orthogonality of the test families, well-formedness of the catalogue.  Every "
            "emitted case (26 classes, n = 2..100, 127, 128, 255, 256 in the thorough tier, parameter lattices) is built with the real "
            "constructor and compared element-wise with the evaluated definitions (weights of substitution and Trefethen rules derived by the "
            "symbolic derivative) and discharged against exactness obligations on orthonormalised Legendre / Chebyshev / Laguerre families "
            "(absolute tolerance 1e-9; sound code <= 9e-14, FejerSecond >= 3.9e-3).  Sizes, order and domain are audited by TLC.",
            "Trusted: TLC, expr_eval/mpmath, the discrete cosine-sum lemma (cross-checked numerically), the functional form of the strip map.",
            "DESIGN.md section 5 C01, Appendix G"),
    "C06": (MC, "TLA+ chunk-algorithm model vs ownership definition with TLC-judged integer observations of three routes; lemma chain and "
                "exact rational identities in TLC; spec-emitted straight-line Expr program as oracle (Fraction / extended precision) for six routes",
            "TLC checks the chunked evaluation (NumPy slice semantics, shifted/clipped segment table) against 'every point gets the weight of "
            "its owner exactly once' for all M <= 6 atoms, N <= 14 points and all 54 257 monotone index tables, judges the same tables observed "
            "through __call__, generate_weights and compute_weights, and proves the cell-function lemma chain (clip, |a| <= 9/20, nu-map, "
            "switch symmetry) and sum-to-one / bounds / nucleus values / relabelling exactly on collinear rational geometries that fit 32 bits. "
            "6300 TLC-emitted rational geometries (orders 1-3, M <= 4, radii override) are replayed through six routes against the spec's "
            "program in Fractions; 8000 random 3-D geometries (1-9 atoms, any Z incl. undefined radii, nuclei/far points) are checked for "
            "bounds, sum, nucleus values, route agreement, rigid motions and permutations; Hirshfeld share identity on random tables.",
            "Trusted: TLC, expr evaluators (cross-checked against mpmath). Bounds/sum for arbitrary real geometries are harness-checked against "
            "the spec program, not decided by TLC. Not covered: coincident atoms, non-integer orders.",
            "DESIGN.md section 5 C06"),
    "C05": (MC, "TLA+ index-loop / sector / preset model over tables generated from the npz files; TLC judges degrees, sizes and indices of "
                "emitted configurations and of every (preset, element) build; harness checks each shell against TLC-emitted rational factors",
            "TLC checks the index-table loop against prefix sums for all size sequences, the sector algorithm against its declarative "
            "definition incl. ties, and for all 17 presets x all tabulated elements (tables read from the npz files at check time) that the "
            "branch taken matches the table kind, counts fit, and no shell is coarser than tabulated; it judges (degrees, sizes, indices | "
            "ValueError) of 4560 emitted configurations and of every preset build.  Per shell the harness checks radii, weights w_i r_i^2 W, "
            "orthogonality via Gram matrices, seed reproducibility, translation, get_shell_grid and factorised monomial integrals.",
            "Trusted: TLC, table extraction. The rotation matrix is opaque: only orthogonality, reproducibility and dependence on (seed, shell).",
            "DESIGN.md section 5 C05"),
    "C07": (MC, "TLA+ fan-out normalisation emitted and replayed (convenience constructor vs by-hand construction, bit for bit); store-flag "
                "observer histories model-checked and replayed; TLC-judged index tables; end-to-end obligations from the preset tables",
            "TLC enumerates the option space of from_size / from_preset / from_pruned (rgrid one|list|dict|None, preset str|list|dict, radius "
            "float|list, int or per-atom sector lists, rotate, store, Becke or callable weights) into lists of atomic constructions, checks "
            "totality, and model-checks all observer histories of length <= 4 under both store settings.  Every combination is built through "
            "the convenience constructor and by hand and compared bitwise (points, weights, atweights, aim_weights, indices, atomic grids); "
            "integer observables are judged by TLC.  End-to-end: 17 presets x 12 molecule templates x 10 exponent patterns with rgrid=None "
            "(84 constructible pairs, worst charge error 2.5e-3 against the 1 % bound).",
            "Trusted: TLC. The end-to-end charge clause is exploration-level and evaluated with rgrid=None only (presets that prescribe a radial "
            "size reject the default grid by design).",
            "DESIGN.md section 5 C07"),
    "C08": (MC, "TLC exact identities on a rational (Pythagorean) angle lattice from the defining formula (Harmonics.tla) + spec-derived Expr "
                "trees (derivatives by the symbolic D) replayed in 50-digit arithmetic",
            "TLC proves on a 53-angle lattice, from the defining formula of Y_lm, the addition theorem, parity, pole values, derivative-route "
            "agreement (l <= 6), exact orthonormality (l <= 4), the Horton row order (l <= 80) and Cart(Sph(p)) = p, and emits trees for Y, both "
            "angular derivatives and the solid harmonics for l <= 12.  The three harmonic generators, solid_harmonics and convert_cart_to_sph "
            "are compared with the trees at lattice angles shifted by 2 pi k, random, near-pole, pole and reflected angles; for 12 < l <= 80 "
            "both implementations, the addition theorem and a calibrated independent evaluator (vf/ylm.py) are compared.",
            "Trusted: TLC, expr_eval/mpmath. Tolerance 1e-9 in units of sqrt((2l+1)/2pi) (measured <= 2.8e-13).",
            "DESIGN.md section 5 C08"),
    "C02": (EX, "TLC catalogue laws and obligation accounting (AngularCatalogue.tla); complete numeric discharge of every (file, l, m) "
                "obligation with an evaluator calibrated against Harmonics.tla on every run",
            "The catalogue of shipped grids is extracted from /repo; TLC checks catalogue consistency and owns the obligation set "
            "{(method, degree, l, m)} and, in a second run, judges the accounting (every required obligation discharged, attributes, counts, "
            "unit norm).  The harness builds every AngularGrid and evaluates sum_i w_i Y_lm(p_i) for all l <= degree (thorough: all 450 grids, "
            "9.1e6 obligations, exhaustive; quick: 165 grids incl. all Lebedev and Ahrens-Beylkin).",
            "TLC does not decide the floating-point clause. Tolerance 1e-8 (sound files <= 3.3e-12, defective files >= 5.4e-5).",
            "DESIGN.md section 5 C02"),
    "C09": (EX, "TLC band-limit laws over all degree sequences (BandLimit.tla), TLC-judged integer observables (basis size, retained prefix), "
                "seeded numeric discharge of the statement's obligations",
            "TLC checks admissible-subset-of-retained, exactness of products and prefix laws for every sequence of supported degrees <= 50 of "
            "all four methods and judges the number of splines and the retained prefix per shell recorded from the library.  On 60 (quick) / "
            "1500 (thorough) seeded configurations (methods, degree patterns, r = 0 nodes, centres, rotation seeds) band-limited functions are "
            "built with the calibrated evaluator and every clause of the statement is discharged (angular integrals, spline knots, interpolant "
            "at grid and arbitrary points, spherical/Cartesian/radial derivatives incl. finite differences of the interpolant, spherical "
            "average, molecular interpolation).",
            "TLC does not decide the numeric clauses. Tolerance 1e-9*max|f| (measured <= 1.5e-13), 1e-6 for finite differences (<= 5e-10).",
            "DESIGN.md section 5 C09"),
    "C17": (MC, "TLA+ differential algebra {erf, Gaussian} over Q[r, 1/r] checked by TLC (potential derived on a rational lattice, documented "
                "formulas judged) + spec-emitted expression trees replayed at 50 digits + TLC-judged parameter lookups",
            "TLC derives, for symbolic r and 8 rational exponents, the potential of the documented s- and p-type densities from the radial "
            "Poisson equation in the algebra with D erf = 2E, D E = -2 alpha r E, proves uniqueness, regularity at 0, total charge and the "
            "unnormalised multiples, accepts the code's s-type formula and refutes the code's p-type formula.  coulomb_gaussian_s/p and "
            "coulomb_potential are compared with the emitted trees for alpha in 1e-3..1e4 and ~100 radii incl. 0, both sides of the small-r "
            "switch and 1e8; every load_atomic_gaussian_params lookup is judged by TLC.",
            "Trusted: TLC, expr_eval/mpmath (trees validated against 40-digit quadrature of the Coulomb integral). rtol 1e-12.",
            "DESIGN.md section 5 C17, Appendix E.1"),
    "C15": (EX, "TLC: Bell-polynomial / Faa di Bruno polynomial identities and complete enumeration of a manufactured problem lattice with "
                "spec-computed right-hand sides and exact rational oracles (Ode.tla); replay through all transform classes",
            "TLC proves the Bell recurrences equal the partition definition and the closed forms hard-coded in ode.py, Faa di Bruno and the "
            "coefficient transformation as exact polynomial identities, and soundness of 1824 manufactured problems (orders 1-3, polynomial "
            "solutions and coefficients, initial/boundary data) with 117 admissible transform instances.  The solvers (DOP853, RK45, Radau, "
            "solve_bvp) are run directly and through the assigned transformations and compared with the exact polynomials and derivatives.",
            "Solver accuracy is an exploration-level claim: acceptance 1e-6 (direct, worst 1.9e-9) and 1e-4 (through transforms, worst 8.5e-8).",
            "DESIGN.md section 5 C15"),
    "C16": (EX, "TLC-derived channel potentials in the {erf, Gaussian} Laurent algebra and an enumerated, admissibility-checked configuration "
                "space (Poisson.tla); replay of the BVP / IVP / robust / Laplacian solvers against spec-emitted trees",
            "TLC derives the potentials of pure-l Gaussian channel densities (l <= 2) from the radial channel equation, checks harmonicity, "
            "linearity and regularity, and enumerates 600 cases of 10 kinds inside the resolution envelope.  Each case is solved with "
            "solve_poisson_bvp / ivp / robust or interpolate_laplacian and compared with the oracle at 30 points per atom; linearity and the "
            "exact-cancellation case of the robust solver are checked to 2e-5 and 1e-10.",
            "Exploration level: most clauses have ~1.5 orders of magnitude between the solvers' own accuracy and the acceptance threshold "
            "(only linearity and robust-exact have > 3); every tested defect moves results by >= 1e-1.",
            "DESIGN.md section 5 C16"),
    "C11": (MC, "TLA+/TLC exhaustive check of the image-enumeration algorithm against the declarative image set on integer lattices "
                "(Periodic.tla) + TLC-decoded cases replayed into PeriodicGrid with the observed multisets judged by TLC",
            "TLC checks, for 1.1e6 configurations (quick 5.5e4) in 1-3 dimensions with 0..dim integer lattice vectors of any sign, skew and "
            "handedness, wrapped or not, points outside the cell, radii with 2r^2 odd plus 0 and inf, that the algorithm of periodicgrid.py in "
            "exact rational arithmetic (pseudo-inverse reciprocal vectors, plane spacings, ceil/floor ranges decided by squaring, ball query per "
            "displaced centre, stored position p - delta) yields exactly the declarative set {(i, t)} - complete, sound, each once - and that "
            "zero lattice vectors reduce to the plain grid.  A seeded sample of configurations (3.5e3 quick, 5.2e4 thorough) is decoded by TLC, "
            "run through PeriodicGrid(...).get_localgrid, and the observed (index, position, weight) lists are judged by TLC; constructor "
            "attributes are compared with TLC-emitted exact values.",
            "Trusted: TLC, integer lattices only; r = 0 with lattice vectors is judged one-sidedly (rounding in the SVD can miss an image lying "
            "exactly on the centre).",
            "DESIGN.md section 5 C11"),
    "C18": (MC, "TLA+/TLC step-by-step model of the three integration routes (odometer product, chunked generators in lock-step, vectorised "
                "partial application) against the nested-sum definition for every chunk size (NGrid.tla); all TLC-listed cases replayed on "
                "MultiDomainGrid with integer data and judged by TLC",
            "TLC checks for 1-3 (thorough 4) domains, grid sizes 1-3 (4), mixed 1D/3D points, repeated-grid mode and every chunk size "
            "1..total+1 that all routes equal the nested sum, separable integrands give the product of single integrals, the weight and value "
            "chunks stay aligned, nothing is dropped, and size/points/weights enumerate the product set in odometer order.  Every configuration "
            "is replayed (12 492 integrate calls quick, 2.2e5 thorough) with the integrand given as a TLC-emitted lookup table; integer results "
            "are judged by TLC.",
            "Trusted: TLC; integer data only (accuracy of chunked float summation is not claimed).",
            "DESIGN.md section 5 C18"),
    "C03": (MC, "TLA+ spec of forward and inverse maps only (RTransform.tla), all derivatives derived by the symbolic D; TLC decides "
                "inverse/derivative identities, monotonicity and end points exactly on a rational lattice with checked 32-bit arithmetic; "
                "spec-derived trees replayed into all eight methods of every class",
            "For the 12 transform classes the specification writes only F and G (plus domain, codomain, admissibility); TLC checks "
            "G(F(x)) = x, the inverse-function identities up to third order between D^n(G) and D^n(F), monotonic direction and reference end "
            "points exactly on the rational classes and exponent instances (1.6e3 states quick, 3.8e4 thorough; products that would overflow "
            "are reported undecided, never wrong) and emits all derived trees.  The harness re-checks every identity with unbounded integers / "
            "50 digits and compares transform, inverse, deriv, deriv2, deriv3 and the three inverse derivatives, domain and codomain of every "
            "class and of InverseRTransform at lattice and seeded float parameters (non-integer k, m), with trim on/off, array / NumPy-scalar / "
            "Python-float input (1.3e5 observations quick, 4.1e6 thorough).",
            "Trusted: TLC, expr_eval/mpmath; float comparisons are harness-judged with a running-error bound per tree (largest error/tolerance "
            "ratio on sound code 3.3e-4).",
            "DESIGN.md section 5 C03, Appendix H"),
    "C04": (MC, "TLC computes the exact transformed grids of rational rules under rational transforms (Transform1D in RTransform.tla) and "
                "decides non-negativity, containment, ordered image domain, exactness transport and round trip; exact grids and trees "
                "replayed into transform_1d_grid for 19 rule classes x all transforms",
            "TLC evaluates Transform1D (nodes F(x_i), weights w_i |D(F)(x_i)|, ordered image of the domain with the trim rule, inferred "
            "scale b) exactly for trapezoid / midpoint / Simpson / UniformInteger under the rational transforms and checks the consequences of "
            "the statement incl. the decreasing map and exactness transport through LinearFinite.  The harness reproduces TLC's grids through "
            "the library, replays 19 library rule classes x all transform instances x seeded float parameters (points, weights, domain, sum "
            "rule, positivity, InverseRTransform round trip) and discharges 16 848 Gauss-Legendre exactness obligations on [a, b].",
            "Trusted: TLC, expr_eval; non-rational rules use the library's own nodes and weights (their correctness is C01).",
            "DESIGN.md section 5 C04"),
}

NOT_YET = {}


# second layers added in the audit phase (DESIGN.md 12.6): appended to the level text
AUDIT = {
    "C01": "Audit layer (OneD.tla 7b, OneDAudit.tla): n = 1, seed-drawn n / alpha / step / rho from pools stated in the model, call forms "
           "(omitted / positional / NumPy integer / 0-d arguments, rebuilt after the first result was overwritten), every exactness obligation "
           "repeated through OneDGrid.integrate, catalogue audit (every OneDGrid subclass of grid.onedgrid is in Rules) and default audit.",
    "C03": "Audit layer (RTransformAudit.tla): inverse-of-inverse involution, the wrapper's own end points, parameters with rmin < 0 and "
           "scales 1e-3 / 1e3, non-integer exponents 1/2..21/2, points 2^-20 from the ends, argument forms (0-d, int64, longdouble, descending "
           "with duplicates, empty, one array handed to every method), and the state machine of the inferred scale b (BStart/BCall: set by "
           "the first call, frozen afterwards) replayed on the three b-inferring classes.",
    "C04": "Audit layer (Transform1DExt.tla): hand-made rules (negative / zero weights, unsorted, duplicate and single nodes, integer and "
           "extended-precision arrays), sub-intervals sharing one end with the map, seven spec integrands incl. sign-changing ones pulled back "
           "symbolically, chains outer o LinearFinite judged against the composed tree, and the two-call machine for the inferred scale.",
    "C05": "Audit layer (AtomGridX.tla, 2006 cases in six families): unsorted / descending / duplicate radii and r = 0 inside, grids scaled by "
           "2^k, NumPy-integer degree / size sequences, sizes next to degrees, boundary degrees and sizes of all methods, centre forms, rotation "
           "seeds up to 2^32-N-1 as <<sign, hi, lo>>, method spellings; AtomGrid.integrate / integrate_angular_coordinates judged against "
           "4 pi x SphereMonomial x radial sum with TLC rationals; the product law on every preset grid.",
    "C07": "Audit layer (MolGrid.tla Part 1x / 2 / 3): eight-atom molecule, HBr / FeO / LiF, rigidly moved and atom-reversed copies, dicts with "
           "superfluous keys, from_pruned with both / neither sector kinds, the plain constructor with per-atom grids and seeds, array and "
           "callable weights through every constructor, input representations (int16 / uint8 atomic numbers, Fortran / strided coordinates), "
           "arguments unmodified, same call twice, a second store subject, seed-drawn end-to-end exponent patterns and single-centre sums.",
    "C10": "Audit layer: centre and radius in the forms a caller may hold them (list / tuple / integer array / 0-d, single precision, "
           "tiny radii for R = 0, 1e300 for the radius beyond everything), in-place edit + re-assignment of the points array (SPI), an "
           "alternative point set far outside the old bounding box (P4 in the model).",
    "C12": "Audit layer: NumPy-integer requests, size requests with an ignored degree, method spellings, cache flag, routes preset "
           "(from_preset on sector-midpoint radial grids, all methods) and mol (MolGrid.from_size).",
    "C13": "Audit layer (MC_Cubic*.tla extended): NumPy-integer indices, large non-cubic shapes with sampled indices (stride > 32767), grids "
           "divided by 2^k, integer-array origins / axes, unsorted nodes, tensor products of the library's own 1D rules, weights through "
           "from_cube / from_molecule incl. defaults, closest_point outside the box (clamping), cube data forms (3D, Fortran, strided, float32, "
           "integer, no atoms, wide coordinates), interpolation call forms, negative steps / descending nodes, non-diagonal axes.",
    "C14": "Audit layer (MomentsX.tla): per-case orders up to 12, 1-6 centres with duplicates and dtype / layout forms, star / one-point / "
           "empty / duplicate-point geometries, zero / negative / fractional weights, scaling by 2^shift under CartScaleLaw, function value "
           "dtypes (float16..longdouble, ints, bool), listing and call forms, a session machine (call, in-place edit / assignment / scribble, "
           "call again), dipoles for 1-6 atoms with Z up to 82.",
    "C17": "Audit layer (CoulombForms*.tla): alpha over 1e-10..1e10 and the shipped exponents, alpha / r / flag forms (every NumPy scalar type, "
           "lists, 0-d, 2-d, strided, read-only, empty), r up to 1e300 and infinity, far-field clause r V / Q = 1, documented-constant ratio "
           "clause, continuity across the switch, same objects twice, 1000 centre / coefficient configurations (p set omitted / None / empty, "
           "aliased argument arrays, N = 0..1500), cold lookups of the parameter table.",
    "C19": "Audit layer (CacheReq.tla, ScaleMulti*.tla, CoulombSys/Gen/Trace.tla): non-tabulated degree and size requests, NumPy integers, "
           "spellings, shells with r_sq on/off and rotation, Use (integrate / get_localgrid) on returned grids, everything built through "
           "degrees / sizes / from_pruned / from_preset / MolGrid.from_size; two transform objects with wrappers, unsorted / typed arrays, "
           "caller scribbling and the refused all-zero grid; all 3216 behaviours of length 4 of the Coulomb table machine.",
    "C20": "Audit layer: the floating type of the array arguments (single / extended precision) is a fifth program component "
           "(conversions that copy for one input type alias for another); operations added for every seeded change that was missed.",
}


def main():
    props = [json.loads(l) for l in open(os.path.join(ROOT, "properties.jsonl"))]
    na_path = os.path.join(ROOT, "tools", "not_applicable.json")
    na = json.load(open(na_path)) if os.path.exists(na_path) else {}
    checks = []
    for p in props:
        pid = p["id"]
        if pid not in CHECKS:
            continue
        level, tech, text, note, ref = CHECKS[pid]
        if pid in AUDIT:
            text = text + "  " + AUDIT[pid]
        checks.append({
            "property_id": pid,
            "quick_cmd": f"./check {pid} --tier quick",
            "thorough_cmd": f"./check {pid} --tier thorough",
            "evidence_file": f"/verif/evidence/{pid}.json",
            "replay_cmd_template": f"./check {pid} --replay {{path}}",
            "engine": "tlc+replay",
            "level_claimed": {"category": level, "text": text, "design_ref": ref},
            "level_note": note,
            "technique": tech,
        })
    man = {
        "version": 1,
        "setup_cmd": "./check --setup",
        "hooks": {
            "guard": "GRID_VERIF",
            "enable": "no source patch: checks import grid from /repo/src (editable install) and wrap it from outside "
                      "(vf/record.py) when GRID_VERIF=1; the guard is never read by theochem/grid itself",
            "baseline_off_cmd": BASE,
            "source_commits": [],
            "add_only": True,
        },
        "engines": [{
            "name": "tlc+replay", "path": "/verif/check",
            "serves_properties": [c["property_id"] for c in checks],
            "kind_free_text": "TLA+ specifications under /verif/spec checked by TLC 1.8; constants extracted from /repo at check time; "
                              "TLC-emitted cases replayed into the implementation and recorded observations validated by TLC",
        }],
        "checks": checks,
        "notes": "See DESIGN.md. Exit 0 = held (KNOWN-FINDING lines for listed findings), 1 = VIOLATION, 2 = machinery failure.",
        "not_applicable": [{"property_id": p["id"], "reason": na.get(p["id"], "check not built yet in this round (see DESIGN.md section 9 for the order of work)")}
                           for p in props if p["id"] not in CHECKS],
    }
    with open(os.path.join(ROOT, "MANIFEST.json"), "w") as f:
        json.dump(man, f, indent=1)
    print("MANIFEST.json:", len(checks), "checks,", len(man["not_applicable"]), "not applicable")


if __name__ == "__main__":
    main()
