#!/bin/bash
# tools/try_seed.sh <Cxx> <A|B> [tier]  - maintainer tool: try a seeded change from /tmp/wt/<Cxx>/_seed/<X>
# against the check of that property, in the scratch worktree (never /repo).
id=$1; x=$2; tier=${3:-quick}; wt=${WT_ROOT:-/tmp/wt}/$id; sd=$wt/_seed/$x
cd $wt || exit 2
git checkout -q -- . ; git apply $sd/patch.diff || { echo "patch does not apply"; exit 2; }
PYTHONPATH=$wt/src /venv/bin/python $sd/demo.py > $sd/demo_with.log 2>&1; echo "demo with change: exit $?"
( cd /verif && VERIF_REPO=$wt VERIF_SELFTEST= ./check $id --tier $tier > $sd/check_$tier.log 2>&1; echo "check $id $tier with change: exit $?" )
grep -c "^VIOLATION" $sd/check_$tier.log; grep "^VIOLATION" $sd/check_$tier.log | head -3 | cut -c1-260
git checkout -q -- .
PYTHONPATH=$wt/src /venv/bin/python $sd/demo.py > $sd/demo_without.log 2>&1; echo "demo without change: exit $?"
