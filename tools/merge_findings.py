#!/usr/bin/env python3
"""Merge known_findings.d/<id>.json into known_findings.json (maintainer tool; not used by checks).
usage: merge_findings.py Cxx [--drop 'key-pattern' ...] [--fixed 'property|key|commit|what' ...]"""
import fnmatch, json, os, sys
ROOT = os.path.dirname(os.path.dirname(os.path.abspath(__file__)))
main = json.load(open(os.path.join(ROOT, "known_findings.json")))
args = sys.argv[1:]
pid = args[0]
drops = [args[i + 1] for i, a in enumerate(args) if a == "--drop"]
fixed = [args[i + 1] for i, a in enumerate(args) if a == "--fixed"]
path = os.path.join(ROOT, "known_findings.d", pid + ".json")
if os.path.exists(path):
    for f in json.load(open(path))["findings"]:
        if any(fnmatch.fnmatchcase(f["key"], d) for d in drops):
            print("dropped", f["key"]); continue
        if not any(g["property"] == f["property"] and g["key"] == f["key"] for g in main["findings"]):
            f["line"] = f"known: property={f['property']} {f['what'][:120]}"
            main["findings"].append(f); print("added", f["key"])
    os.remove(path)
for fx in fixed:
    p, key, commit, what = fx.split("|", 3)
    main["findings"].append({"property": p, "key": key, "status": "fixed", "commit": commit, "what": what,
                             "line": f"fixed: property={p} {commit} {what}"})
    print("fixed", key)
json.dump(main, open(os.path.join(ROOT, "known_findings.json"), "w"), indent=1)
