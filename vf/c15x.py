"""C15, extension along the quantifier's dimensions (specification: spec/OdeX.tla, run MC_OdeX.cfg).

The specification emits (gen/<scratch>/odex.json)
  * 315 manufactured problems whose solution and coefficients are EXPRESSION TREES (exp, sin, log,
    reciprocal, x exp(x/2), two polynomials; coefficient pools with declared signs), the right-hand side
    built by the specification's symbolic derivative; five intervals, three of them with integer end
    points on the boundary of the transformation's domain; boundary-condition patterns including second
    derivatives, all conditions at one end and permuted order; per solve two transformations out of the
    extended catalogue (inverses of the half-line classes, double inverses, trim_inf=False, user-defined
    polynomial transformations) and the CALL FORMS (types of y0 / x_span / constants / containers,
    no_derivatives, bd_cond form, initial guess, mesh, IVP method);
  * 16 exact helper cases (polynomial g, polynomial coefficient functions, rational points).

This module only executes what the specification assigns and applies its judgement clauses:
  accuracy      returned values vs the 50-digit values of the specification's jet trees
  shape         (K, N), or (N,) for a transformed solve with no_derivatives=True
  conditions    the prescribed initial / boundary conditions are met by the returned callable (tight)
  evalform      the callable gives the same numbers for reversed / repeated / single points, a Python or
                numpy scalar, a 0-d array and a list of points (what a scipy interpolant accepts), for
                float32 points, and again after a second solve
  args          no argument object is modified by the call

Acceptance and calibration: see CALIBRATION in vf/props/c15.py.
"""
from __future__ import annotations

import json
import time
import warnings
from fractions import Fraction
from functools import lru_cache

import numpy as np

from . import tlc
from .expr_eval import evaluate
from .np_eval import np_eval

# ---- acceptance (relative to max|y^(k)| over the sample points), calibrated in c15.py's docstring -----------
ACCEPT = {
    "ivp:tight": {"direct": 1e-4, "transformed": 1e-4},   # DOP853 / RK45 / Radau / class:RK45 at rtol = atol = 1e-10
    "bvp:tight": {"direct": 1e-4, "transformed": 1e-3},   # tol = 1e-8
    "ivp:extra": {"direct": 1e-4, "transformed": 1e-3},   # RK23 / BDF / LSODA at rtol = atol = 1e-10
    "ivp:default": {"direct": 5e-3, "transformed": 5e-3}, # every optional argument omitted (rtol 1e-8, atol 1e-6)
}
ACCEPT_F32_SPAN = 2e-2   # interval given as a float32 array AND a transformation: grid.rtransform maps the end points in float32
IVP_TOL = {}             # rtol = atol per method, default 1e-10


def accept_for(jtype, acc, how, spanform):
    a = ACCEPT[f"{jtype}:{acc}"][how]
    if jtype == "ivp" and how == "transformed" and spanform == "ndarray-float32":
        a = max(a, ACCEPT_F32_SPAN)
    return a


# prescribed conditions met by the returned callable:
#   IVP (one-step methods, whose dense output reproduces the step's end points): |returned - prescribed| <=
#       IC_FACTOR * eps * (max|y^(k)| + cond(M) * max|data|), M the specification's Bell matrix at the initial
#       point (the data are mapped by M^-1 and back by M); BDF / LSODA interpolate differently: accuracy clause only
#   BVP: scipy accepts a solution only if every boundary residual is below tol (= 1e-8, absolute); the residual is
#       formed in the variable the condition is stated in (for a transformed derivative condition the returned
#       x-jet is mapped back with M^-1: rounding 64 eps cond(M) max|jet|):  BC_FACTOR * (tol + rounding)
IC_FACTOR = 1e3
BC_FACTOR = 3.0
BVP_TOL = 1e-8
IC_METHODS = ("DOP853", "RK45", "Radau", "RK23", "class:RK45", "default")
EPS = 2.220446049250313e-16
# the sample points are dyadic, i.e. the same numbers in float32; a transformation of grid.rtransform then works in
# float32 (measured: up to 2.3e-6 of the scale); scipy's own interpolants (direct solve) lose up to 1.1e-7 (LSODA)
ACCEPT_F32 = {"direct": 1e-4, "transformed": 3e-3}
ACCEPT_SAME = 1e-12                                     # same numbers for another form of the same points
EXTRA_METHODS = ("RK23", "BDF", "LSODA")


def fr(q):
    return Fraction(int(q[0]), int(q[1]))


# ---- the user's own transformation -------------------------------------------------------------------------
def make_poly_transform(coefs, lo, hi):
    """A user-defined subclass of BaseTransform: r = g(x) for a polynomial g that is strictly monotone on
    [lo, hi] (the specification admits it only there).  Its domain is exactly [lo, hi]."""
    from grid.rtransform import BaseTransform
    P = np.polynomial.Polynomial([float(c) for c in coefs])
    ders = [P, P.deriv(1), P.deriv(2), P.deriv(3)]

    class PolyTransform(BaseTransform):
        def __init__(self):
            self._domain = (lo, hi)
            e = (float(P(lo)), float(P(hi)))
            self._codomain = (min(e), max(e))
            self._sign = 1.0 if e[1] > e[0] else -1.0

        def transform(self, x):
            return ders[0](np.asarray(x, dtype=float))

        def deriv(self, x):
            return ders[1](np.asarray(x, dtype=float)) + 0.0 * np.asarray(x, dtype=float)

        def deriv2(self, x):
            return ders[2](np.asarray(x, dtype=float)) + 0.0 * np.asarray(x, dtype=float)

        def deriv3(self, x):
            return ders[3](np.asarray(x, dtype=float)) + 0.0 * np.asarray(x, dtype=float)

        def inverse(self, r):
            r = np.asarray(r, dtype=float)
            lo_, hi_ = float(lo) - 0.05, float(hi) + 0.05
            e0, e1 = float(P(lo)), float(P(hi))
            x = np.clip(lo + (r - e0) * (hi - lo) / (e1 - e0), lo_, hi_)      # secant through the end points
            for _ in range(8):                                                  # Newton, kept inside the bracket
                x = np.clip(x - (ders[0](x) - r) / ders[1](x), lo_, hi_)
            if np.all(np.abs(ders[0](x) - r) <= 1e-13 * (1.0 + np.abs(r))):
                return x
            a = np.full(r.shape, lo_)                                           # fall back: bisection + Newton
            b = np.full(r.shape, hi_)
            for _ in range(30):
                m = 0.5 * (a + b)
                up = (ders[0](m) - r) * self._sign < 0
                a = np.where(up, m, a)
                b = np.where(up, b, m)
            x = 0.5 * (a + b)
            for _ in range(4):
                x = x - (ders[0](x) - r) / ders[1](x)
            return x

    return PolyTransform()


def build_transform(entry, x0, x1):
    import grid.rtransform as rt
    if entry["cls"] == "Poly":
        return make_poly_transform([fr(q) for q in entry["p"]], min(x0, x1), max(x0, x1))
    cls = getattr(rt, entry["cls"])
    ps = [float(fr(q)) for q in entry["p"]]
    if entry["cls"] in ("KnowlesRTransform", "HandyRTransform", "HandyModRTransform"):
        ps[2] = int(ps[2])
    kw = {"trim_inf": False} if entry["kw"] == "trim_inf=False" else {}
    t = cls(*ps, **kw)
    if entry["inv"]:
        t = rt.InverseRTransform(t)
    if entry["inv2"]:
        t = rt.InverseRTransform(t)
    return t


def tf_name(entry):
    if entry is None:
        return "direct"
    ps = ",".join(str(fr(q)) for q in entry["p"])
    s = f"{entry['cls']}({ps}{',' + entry['kw'] if entry['kw'] != 'none' else ''})"
    if entry["inv"]:
        s = f"Inverse({s})"
    if entry["inv2"]:
        s = f"Inverse({s})"
    return s


# ---- the specification's trees as the user's callables -------------------------------------------------------
def const_value(tree):
    assert tree["op"] == "c"
    return Fraction(int(tree["n"]), int(tree["d"]))


def typed_constant(v: Fraction, ctype: str):
    integral = v.denominator == 1
    if ctype == "int-or-float":
        return int(v) if integral else float(v)
    if ctype == "float":
        return float(v)
    if ctype == "np.float64":
        return np.float64(float(v))
    if ctype == "np.float32":
        return np.float32(float(v))          # the pool's constants are dyadic: exact
    if ctype == "np.int64-or-float64":
        return np.int64(int(v)) if integral else np.float64(float(v))
    raise tlc.MachineryError(f"unknown constant type {ctype}")


def tree_callable(tree, natural=False):
    def f(x):
        v = np_eval(tree, {"x": x})
        if natural:
            return v                                   # a Python float when the tree is a constant
        return np.zeros(np.shape(x), dtype=float) + v
    return f


@lru_cache(maxsize=None)
def _exact_cached(pid, blob):
    p = json.loads(blob)
    pts = [fr(q) for q in p["pts"]]
    rows = []
    for t in p["jet"]:
        rows.append([float(evaluate(t, {"x": x}, "mp")) for x in pts])
    return np.array(rows, dtype=float)


def exact_values(p):
    """(K, N) float64 values of y, y', .. at the specification's rational points (50-digit evaluation)"""
    return _exact_cached(p["id"], json.dumps({"pts": p["pts"], "jet": p["jet"]}, sort_keys=True))


def bell_matrix(trees, g, n):
    env = {"g1": g[0], "g2": g[1], "g3": g[2]}
    return np.array([[evaluate(trees[i][j], env, "float") for j in range(n)] for i in range(n)], dtype=float)


def _same(a, b):
    a, b = np.asarray(a), np.asarray(b)
    return a.dtype == b.dtype and a.shape == b.shape and np.array_equal(a, b)


def _unchanged(before, after):
    if isinstance(before, np.ndarray):
        return isinstance(after, np.ndarray) and _same(before, after)
    if isinstance(before, (list, tuple)):
        return type(before) is type(after) and len(before) == len(after) and all(
            _unchanged(x, y) for x, y in zip(before, after))
    if callable(before):
        return before is after
    return type(before) is type(after) and before == after


def _snapshot(v):
    if isinstance(v, np.ndarray):
        return v.copy()
    if isinstance(v, list):
        return [_snapshot(x) for x in v]
    if isinstance(v, tuple):
        return tuple(_snapshot(x) for x in v)
    return v


# ---- one solve -------------------------------------------------------------------------------------------------
_X = {}


def set_data(data, trees):
    """registry read by the (forked) workers: jobs only carry indices"""
    _X.update(data=data, trees=trees, byid={p["id"]: p for p in data["probs"]})


def resolve(job):
    p = _X["byid"][job["pid"]]
    s = p["slots"][job["si"]]
    return p, s, (None if job["ti"] == 0 else s["tfs"][job["ti"] - 1])


def solve_x(job, keep=None):
    """Run one assigned solve and all clauses.  Returns dict(err, msg, t, sub=[(clause, text)], cal={...})."""
    import scipy.integrate as si
    from grid.ode import solve_ode_bvp, solve_ode_ivp
    p, s, tfe = resolve(job)
    trees = _X["trees"]
    K = p["ord"]
    x0, x1 = float(fr(p["x0"])), float(fr(p["x1"]))
    pts = np.array([float(fr(q)) for q in p["pts"]])
    exact = exact_values(p)                                             # (K, N)
    scale = np.maximum(np.max(np.abs(exact), axis=1), 1e-300)
    how = "direct" if tfe is None else "transformed"
    out = {"err": None, "msg": None, "t": 0.0, "sub": [], "cal": {}}
    t0 = time.time()

    def sub(clause, text):
        out["sub"].append((clause, text))

    try:
        tf = None if tfe is None else build_transform(tfe, x0, x1)
        # coefficients and right-hand side in the assigned forms
        coeffs = []
        for c in p["a"]:
            if c["kind"] == "const":
                coeffs.append(typed_constant(const_value(c["t"]), s["ctype"]))
            else:
                coeffs.append(tree_callable(c["t"]))
        if s["cont"] == "ndarray":
            coeffs = np.array(coeffs)
        fx = tree_callable(p["f"], natural=(s["fxform"] == "natural"))
        nd = bool(s["nd"])
        with warnings.catch_warnings():
            warnings.simplefilter("ignore")
            if s["type"] == "ivp":
                fwd = s["dir"] == "fwd"
                ta, tb = (x0, x1) if fwd else (x1, x0)
                col = 0 if fwd else -1
                data = [float(v) for v in exact[:, col]]
                form = s["y0form"]
                y0 = data if form == "list-float" else np.array(
                    data, dtype={"ndarray-float64": np.float64, "ndarray-float32": np.float32,
                                 "ndarray-longdouble": np.longdouble}[form])
                if form == "ndarray-float32" and not np.array_equal(np.asarray(y0, dtype=float), np.array(data)):
                    raise tlc.MachineryError("float32 initial data assigned to data that are not representable")
                sf = s["spanform"]
                if sf == "tuple-float":
                    span = (ta, tb)
                elif sf == "list-float":
                    span = [ta, tb]
                elif sf == "ndarray-float64":
                    span = np.array([ta, tb])
                elif sf == "ndarray-float32":
                    span = np.array([ta, tb], dtype=np.float32)
                elif sf == "tuple-int":
                    span = (int(ta), int(tb))
                elif sf == "tuple-npint64":
                    span = (np.int64(ta), np.int64(tb))
                elif sf == "ndarray-int":
                    span = np.array([int(ta), int(tb)])
                else:
                    raise tlc.MachineryError(f"unknown span form {sf}")
                if float(span[0]) != ta or float(span[1]) != tb:
                    raise tlc.MachineryError("interval form does not represent the interval")
                kw = {"transform": tf, "no_derivatives": nd}
                m = s["method"]
                if m == "default":
                    kw = {"transform": tf} if not nd else kw
                elif m.startswith("class:"):
                    kw.update(method=getattr(si, m.split(":")[1]), rtol=1e-10, atol=1e-10)
                else:
                    kw.update(method=m, rtol=IVP_TOL.get(m, 1e-10), atol=IVP_TOL.get(m, 1e-10))
                args = {"x_span": span, "coeffs": coeffs, "y0": y0}
                snap = {k: _snapshot(v) for k, v in args.items()}
                sol = solve_ode_ivp(span, fx, coeffs, y0, **kw)
                cond = [(col, k, data[k]) for k in range(K)]             # (column of pts, derivative, value wrt x)
                cond_r = None
                cond_m = 0.0
                if tf is not None and K > 1:
                    g = [float(np.asarray(d(np.array([ta]))).ravel()[0]) for d in (tf.deriv, tf.deriv2, tf.deriv3)]
                    cond_m = float(np.linalg.cond(bell_matrix(trees, g, K - 1)))
            else:
                mform = s["mesh"]
                if mform == "uniform21":
                    mesh = np.linspace(x0, x1, 21)
                elif mform == "uniform5":
                    mesh = np.linspace(x0, x1, 5)
                elif mform == "two":
                    mesh = np.array([x0, x1])
                elif mform == "graded15":
                    mesh = x0 + (x1 - x0) * np.linspace(0.0, 1.0, 15) ** 2
                else:
                    raise tlc.MachineryError(f"unknown mesh {mform}")
                increasing = True
                if tf is not None:
                    r = tf.transform(np.array([x0, x1]))
                    increasing = bool(r[0] < r[1])
                    if not increasing:
                        mesh = mesh[::-1].copy()
                pat = p["bvp"][s["pattern"] - 1]
                bcs, cond, cond_r = [], [], []
                for side, der in pat:
                    colb = 0 if side == 0 else -1
                    xe = x0 if side == 0 else x1
                    value = float(exact[der, colb])
                    cond.append((colb, der, value))
                    if tf is not None and der > 0:
                        # documented: derivative conditions refer to the NEW variable r = g(x); the
                        # specification's Bell matrix maps the jets
                        g = [float(np.asarray(d(np.array([xe]))).ravel()[0]) for d in (tf.deriv, tf.deriv2, tf.deriv3)]
                        mm = bell_matrix(trees, g, K - 1)
                        rj = np.linalg.solve(mm, exact[1:, colb])
                        value = float(rj[der - 1])
                        cond_r.append((colb, der, value, mm, float(np.max(np.abs(rj)))))
                    else:
                        cond_r.append(None)
                    sd = side if increasing else 1 - side
                    bf = s["bcform"]
                    bcs.append((sd, der, value) if bf == "tuples" else [sd, der, value] if bf == "lists"
                               else [np.int64(sd), np.int64(der), np.float64(value)])
                kw = {"transform": tf, "tol": 1e-8, "max_nodes": 50000, "no_derivatives": nd}
                if s["guess"] == "zeros":
                    kw["initial_guess_y"] = np.zeros((K, mesh.size))
                else:
                    np.random.seed(1000 + p["id"])       # the library draws the guess from numpy's global generator
                args = {"x": mesh, "coeffs": coeffs, "bd_cond": bcs, "initial_guess_y": kw.get("initial_guess_y")}
                snap = {k: _snapshot(v) for k, v in args.items()}
                sol = solve_ode_bvp(mesh, fx, coeffs, bcs, **kw)
            got_raw = sol(pts)
        for k, v in args.items():
            if v is not None and not _unchanged(snap[k], v):
                sub(f"args:{k}-modified", f"the argument `{k}` was changed by the call: before {snap[k]!r}, after {v!r}")
        got = np.asarray(got_raw, dtype=float)
        only_y = tf is not None and nd
        want_shape = (pts.size,) if only_y else (K, pts.size)
        if got.shape != want_shape:
            out["msg"] = (f"returned shape {got.shape}, expected {want_shape} "
                          f"(order {K}, {pts.size} points, no_derivatives={nd}, {how})")
            out["t"] = time.time() - t0
            return out
        g2 = got[None, :] if only_y else got
        ex = exact[:1] if only_y else exact
        sc = scale[:1] if only_y else scale
        err = np.max(np.abs(g2 - ex), axis=1) / sc
        out["err"] = [float(e) if np.isfinite(e) else float("inf") for e in err]
        # ---- the prescribed conditions, as prescribed ------------------------------------------------------
        worst_c = 0.0
        for i, (colb, der, value) in enumerate(cond):
            if only_y and der > 0:
                continue
            where = "x0" if colb == 0 else "x1"
            if s["type"] == "ivp":
                if s["method"] not in IC_METHODS or s["spanform"] == "ndarray-float32":
                    continue        # float32 interval: grid.rtransform maps the end points in float32 (1e-7 relative)
                dmax = max([abs(v) for v in data[1:]] + [0.0])
                dev = abs(float(g2[der, colb]) - value)
                ratio = dev / (EPS * (sc[der] + cond_m * dmax))
                limit = IC_FACTOR
                what = (f"initial condition d^{der}y/dx^{der}({where}) = {value!r}, returned callable gives {float(g2[der, colb])!r} "
                        f"(difference {dev:.3g} = {ratio:.3g} x the rounding bound eps (|y^({der})| + cond(M) |data|), cond(M) = {cond_m:.3g}; "
                        f"accepted {limit:g} x)")
            elif cond_r[i] is not None:
                _, _, rv, mm, rscale = cond_r[i]
                rj = np.linalg.solve(mm, g2[1:, colb])                      # returned x-jet -> derivatives wrt r
                dev = abs(float(rj[der - 1]) - rv)
                ratio = dev / (BVP_TOL + 64 * EPS * float(np.linalg.cond(mm)) * rscale)
                limit = BC_FACTOR
                what = (f"boundary condition d^{der}y/dr^{der}({where}) = {rv!r} (new variable), returned callable gives "
                        f"{float(rj[der - 1])!r} (difference {dev:.3g}; the solver's tolerance for boundary residuals is {BVP_TOL:g})")
            else:
                dev = abs(float(g2[der, colb]) - value)
                ratio = dev / (BVP_TOL + 64 * EPS * sc[der])
                limit = BC_FACTOR
                what = (f"boundary condition d^{der}y/dx^{der}({where}) = {value!r}, returned callable gives {float(g2[der, colb])!r} "
                        f"(difference {dev:.3g}; the solver's tolerance for boundary residuals is {BVP_TOL:g})")
            worst_c = max(worst_c, ratio)
            if not ratio <= limit:
                sub(f"condition:{where}:{der}", f"prescribed {what}")
        out["cal"]["cond-ratio"] = worst_c
        # ---- other forms of the same points ----------------------------------------------------------------
        j = min(3, pts.size - 1)

        def evalform(name, arg, expect, tol=ACCEPT_SAME):
            try:
                with warnings.catch_warnings():
                    warnings.simplefilter("ignore")
                    v = np.asarray(sol(arg), dtype=float)
            except Exception as e:  # noqa: BLE001
                sub(f"evalform:{name}:raises:{type(e).__name__}",
                    f"the returned callable cannot be evaluated at {name} points ({how}, no_derivatives={nd}): "
                    f"{type(e).__name__}: {str(e)[:160]}")
                return
            expect = np.asarray(expect, dtype=float)
            if v.shape != expect.shape:
                sub(f"evalform:{name}:shape", f"the returned callable at {name} points ({how}, no_derivatives={nd}) gives shape "
                                              f"{v.shape}; the same points as an array give {expect.shape}")
                return
            if only_y:
                dd = np.abs(v - expect) / sc[0]
            elif expect.ndim == 2:
                dd = np.abs(v - expect) / sc[:, None]
            else:
                dd = np.abs(v - expect) / sc
            d = float(np.max(dd)) if dd.size else 0.0
            out["cal"][f"form:{name}"] = max(out["cal"].get(f"form:{name}", 0.0), d)
            if not d <= tol:
                sub(f"evalform:{name}:value", f"the returned callable at {name} points ({how}, no_derivatives={nd}) deviates by "
                                              f"{d:.3g} of the scale from its values at the same points as a float64 array")
        evalform("reversed", pts[::-1].copy(), got[..., ::-1])
        evalform("repeated", np.array([pts[j], pts[j], pts[0], pts[j]]), got[..., [j, j, 0, j]])
        evalform("single", np.array([pts[j]]), got[..., [j]])
        evalform("python-float", float(pts[j]), got[..., j])
        evalform("numpy-float64", np.float64(pts[j]), got[..., j])
        evalform("0-d-array", np.array(pts[j]), got[..., j])
        evalform("list", [float(v) for v in pts], got)
        evalform("float32", pts.astype(np.float32), got, tol=ACCEPT_F32[how])      # dyadic points: exact in float32
        if keep is not None:
            keep["sol"], keep["got"] = sol, got
    except tlc.MachineryError:
        raise
    except Exception as e:  # noqa: BLE001 - every failure of the library is a finding, not a crash
        out["msg"] = f"{type(e).__name__}: {e}"[:300]
    out["t"] = time.time() - t0
    return out


def solve_pair(job):
    """One job = the assigned solve; for some jobs a second, different solve is made afterwards and the first
    callable must still give the same numbers (no state shared between returned callables)."""
    keep = {}
    out = solve_x(job, keep)
    if "sol" in keep and job.get("again") is not None:
        o2 = solve_x(job["again"])
        try:
            pts = np.array([float(fr(q)) for q in resolve(job)[0]["pts"]])
            with warnings.catch_warnings():
                warnings.simplefilter("ignore")
                again = np.asarray(keep["sol"](pts), dtype=float)
            if again.shape != keep["got"].shape or not np.array_equal(again, keep["got"]):
                out["sub"].append(("evalform:after-another-solve",
                                   "the returned callable gives different numbers after another solve was made"))
        except Exception as e:  # noqa: BLE001
            out["sub"].append(("evalform:after-another-solve:raises", f"{type(e).__name__}: {e}"[:200]))
        out["t"] += o2["t"]
    return out


# ---- jobs --------------------------------------------------------------------------------------------------------
def acc_class(slot):
    if slot["type"] == "ivp" and slot["method"] in EXTRA_METHODS:
        return "extra"
    if slot["type"] == "ivp" and slot["method"] == "default":
        return "default"
    return "tight"


def make_jobs(data):
    jobs = []
    for p in data["probs"]:
        for si_, s in enumerate(p["slots"]):
            for ti, tfe in enumerate([None, s["tfs"][0], s["tfs"][1]]):
                if s["type"] == "ivp":
                    solve = f"ivp:{s['method']}:{s['dir']}"
                else:
                    solve = "bvp:" + ",".join(f"{a}{b}" for a, b in p["bvp"][s["pattern"] - 1])
                jobs.append({"x": True, "pid": p["id"], "si": si_, "ti": ti, "solve": solve, "acc": acc_class(s),
                             "type": s["type"], "method": s["method"], "iv": p["iv"], "ord": p["ord"],
                             "key": ("x", p["id"], si_, ti)})
    # the "other solve" of the no-shared-state clause: for every third transformed BVP job the next transformed
    # BVP job of ANOTHER problem (both go through _transform_solution_to_original_domain)
    tb = [j for j in jobs if j["type"] == "bvp" and j["ti"] > 0]
    for i, j in enumerate(tb):
        if i % 3 == 0:
            o = next((c for c in tb[i + 1:] + tb[:i] if c["pid"] != j["pid"]), None)
            if o is not None:
                j["again"] = {k: o[k] for k in ("pid", "si", "ti", "acc")}
    return jobs


def features(job):
    """tags of the dimensions a job exercises (the quick tier draws a minimum number of jobs per tag)"""
    p, s, tfe = resolve(job)
    how = "t" if tfe is not None else "d"
    tags = {f"iv:{p['iv']}:{how}", f"ord:{p['ord']}:{job['type']}:{how}", f"fam:{p['yfam']}", f"acc:{job['acc']}:{how}"}
    consts = [c for c in p["a"] if c["kind"] == "const"]
    if consts:
        tags.add(f"ctype:{s['ctype']}")
    if s["cont"] != "list":
        tags.add("coeffs:ndarray")
    if p["f"]["op"] == "c" and s["fxform"] == "natural":
        tags.add("f:python-scalar")
    if s["nd"]:
        tags.add(f"nd:{job['type']}:{how}")
    if tfe is not None:
        tags.add("tf:" + ("inv2:" if tfe["inv2"] else "inv:" if tfe["inv"] else "") + tfe["cls"] + ("" if tfe["kw"] == "none" else ":kw"))
    if job["type"] == "ivp":
        tags.add(f"method:{s['method']}")
        tags.add(f"span:{s['spanform']}:{how}")
        if p["ord"] >= 2:
            tags.add(f"y0:{s['y0form']}:{how}")
            if tfe is not None and s["y0form"] == "ndarray-float32" and s["method"] in IC_METHODS \
                    and s["spanform"] != "ndarray-float32" and not s["nd"]:
                tags.add("y0:float32-under-the-initial-condition-clause")
    else:
        pat = p["bvp"][s["pattern"] - 1]
        if any(d == 2 for _, d in pat):
            tags.add(f"bvp:second-derivative:{how}")
        if len({a for a, _ in pat}) == 1 and p["ord"] > 1:
            tags.add(f"bvp:one-sided:{how}")
        tags.add(f"bvp:mesh:{s['mesh']}")
        tags.add(f"bvp:guess:{s['guess']}")
        tags.add(f"bvp:bcform:{s['bcform']}")
        if job.get("again"):
            tags.add("bvp:second-solve")
    return tags


THOROUGH_FRACTION = {"RK23": 0.34, "Radau": 0.5}      # of the assigned solves with these (slow) methods, seeded


def select_thorough(jobs, rng):
    return [j for j in jobs if j["type"] == "bvp" or rng.random() < THOROUGH_FRACTION.get(j["method"], 1.0)]


def sample_quick(jobs, rng, n=170, per_tag=3):
    """Seeded sample of the assigned solves in which every dimension (tag of `features`) occurs at least
    `per_tag` times (as far as it occurs at all); at most 4 / 5 / 5 solves with RK23 / Radau / BDF (slow at 1e-10)."""
    jobs = list(jobs)
    rng.shuffle(jobs)
    count, out, chosen, slow = {}, [], set(), {}
    cap = {"RK23": 4, "Radau": 5, "BDF": 5}

    def is_slow(j):
        return j["type"] == "ivp" and j["method"] in cap
    tagged = [(j, features(j)) for j in jobs]
    for j, tags in tagged:
        if len(out) >= n:
            break
        if any(count.get(t, 0) < per_tag for t in tags):
            if is_slow(j):
                if slow.get(j["method"], 0) >= cap[j["method"]]:
                    continue
                slow[j["method"]] = slow.get(j["method"], 0) + 1
            out.append(j)
            chosen.add(j["key"])
            for t in tags:
                count[t] = count.get(t, 0) + 1
    for j, _ in tagged:
        if len(out) >= n:
            break
        if j["key"] not in chosen and not is_slow(j):
            out.append(j)
    return out


# ---- exact helper cases ----------------------------------------------------------------------------------------
def helper_cases(rep, data, polyfun, coef_arg):
    """grid.ode's helper functions with a user-defined polynomial transformation and polynomial coefficient
    functions, against the exact rationals of the specification (CoefTransformP, BellMatrix, ExplicitRhs)."""
    from grid import ode
    worst = 0.0
    for c in data["coef"]:
        K = c["ord"]
        G = make_poly_transform(c["g"], -10.0, 10.0)
        coeffs = [coef_arg(a) for a in c["a"]]
        xs = np.array([float(fr(e["x"])) for e in c["at"]])
        key = f"helper:poly-transform-case-{c['id']}"
        try:
            b = np.asarray(ode._transform_ode_from_rtransform(coeffs, G, xs), dtype=float)
            expb = np.array([[float(fr(q)) for q in e["b"]] for e in c["at"]]).T            # (K+1, N)
            if b.shape != expb.shape:
                rep.violation(f"_transform_ode_from_rtransform:order={K}:shape", f"shape {b.shape}, expected {expb.shape}", c)
            else:
                d = float(np.max(np.abs(b - expb) / np.maximum(1.0, np.abs(expb))))
                worst = max(worst, d)
                if not d <= 1e-12:
                    rep.violation(f"_transform_ode_from_rtransform:order={K}",
                                  f"coefficients in the new variable for g = {c['g']}, a = {c['a']} at x = {xs.tolist()}: "
                                  f"{b.tolist()} but the specification's b_j(x) = sum_k a_k(x) B_kj(g', g'', g''') are {expb.tolist()}", c)
            ys = np.array([[float(fr(q)) for q in e["y"]] for e in c["at"]]).T              # (K, N)
            fv = np.array([float(fr(e["f"])) for e in c["at"]])
            ys_b, fv_b = ys.copy(), fv.copy()
            rhs = np.asarray(ode._transform_and_rearrange_to_explicit_ode(xs, ys, coeffs, G, lambda x: fv), dtype=float)
            exprhs = np.array([float(fr(e["rhs"])) for e in c["at"]])
            d = float(np.max(np.abs(rhs - exprhs) / np.maximum(1.0, np.abs(exprhs)))) if rhs.shape == exprhs.shape else np.inf
            worst = max(worst, d if np.isfinite(d) else 0.0)
            if not d <= 1e-12 or not np.array_equal(ys, ys_b) or not np.array_equal(fv, fv_b):
                rep.violation(f"_transform_and_rearrange_to_explicit_ode:order={K}",
                              f"explicit form in the new variable for g = {c['g']}, a = {c['a']}: {rhs.tolist()} but the "
                              f"specification's (f - sum b_k y_k) / b_K is {exprhs.tolist()} (or an argument array was modified)", c)
            for n_e, e in enumerate(c["at"]):
                x = fr(e["x"])
                forms = [float(x)]
                if x.denominator == 1:
                    forms += [int(x), np.int64(int(x))]
                forms.append(np.float32(float(x)))
                pt = forms[(c["id"] + n_e) % len(forms)]
                for n in (1, 2, 3):
                    m = np.asarray(ode._derivative_transformation_matrix([G.deriv, G.deriv2, G.deriv3], pt, n), dtype=float)
                    expm = np.array([[float(fr(e["M"][i][j])) for j in range(n)] for i in range(n)])
                    d = float(np.max(np.abs(m - expm) / np.maximum(1.0, np.abs(expm)))) if m.shape == expm.shape else np.inf
                    worst = max(worst, d if np.isfinite(d) else 0.0)
                    if not d <= 1e-12:
                        rep.violation(f"_derivative_transformation_matrix:callable:order={n}",
                                      f"derivative transformation matrix of g = {c['g']} at the point {pt!r} "
                                      f"({type(pt).__name__}): {m.tolist()} but the specification's Bell matrix is {expm.tolist()}", c)
        except tlc.MachineryError:
            raise
        except Exception as e:  # noqa: BLE001
            rep.violation(key + ":raises", f"{type(e).__name__}: {e}", c)
        rep.evaluated(1, ("xcoef", c["id"]))
    return worst


# ---- machinery checks of the emitted trees (a failure is a defect of the SPECIFICATION, not of the library) ----
def check_trees(data):
    """(1) the derivative trees agree with 50-digit numerical differentiation of the solution tree;
    (2) the declared signs of all coefficients (also the transcendental ones TLC cannot evaluate) hold on a
    fine grid of [-1, 2]; in particular no leading coefficient vanishes."""
    import mpmath as mp
    seen = set()
    for p in data["probs"]:
        if (p["yfam"], p["ord"]) in seen:
            continue
        seen.add((p["yfam"], p["ord"]))
        for xq in (Fraction(-1, 3), Fraction(5, 7)):
            for k in range(1, p["ord"]):
                num = mp.diff(lambda t: evaluate(p["jet"][0], {"x": t}, "mp"), mp.mpf(xq.numerator) / xq.denominator, k)
                val = evaluate(p["jet"][k], {"x": xq}, "mp")
                if abs(num - val) > mp.mpf(10) ** (-25) * max(1, abs(val)):
                    raise tlc.MachineryError(f"OdeX.tla: derivative tree {k} of family {p['yfam']} disagrees with numerical "
                                             f"differentiation at {xq}: {val} vs {num}")
    grid = np.linspace(-1.0, 2.0, 601)
    done = set()
    for p in data["probs"]:
        for i, c in enumerate(p["a"]):
            blob = json.dumps(c, sort_keys=True)
            lead = i == len(p["a"]) - 1
            if (blob, lead) in done:
                continue
            done.add((blob, lead))
            v = np.zeros_like(grid) + np_eval(c["t"], {"x": grid})
            sg = c["sg"]
            ok = (sg == 2) or (sg == 0 and np.all(v == 0)) or (sg == 1 and np.all(v > 1e-3)) or (sg == -1 and np.all(v < -1e-3))
            if not ok or (lead and sg not in (1, -1)):
                raise tlc.MachineryError(f"OdeX.tla: declared sign {sg} of coefficient {c['t']} does not hold on [-1, 2]")


def spec_run(wd):
    res = tlc.run_tlc("OdeX", "MC_OdeX.cfg", wd, workers=8, timeout=900).require_ok("MC_OdeX")
    data = None
    if res.status == "ok":
        with open(wd / "odex.json") as f:
            data = json.load(f)
        if len(data["probs"]) < 100 or len(data["coef"]) < 8:
            raise tlc.MachineryError("could not read the cases emitted by OdeX.tla")
        check_trees(data)
    return res, data


def report(rep, jobs, results):
    """Judge the outcomes of the extension's solves; returns the calibration table."""
    calib = {}
    for j in sorted(jobs, key=lambda j: j["key"][1:]):
        out = results.get(j["key"])
        if out is None:
            continue
        p, s, tfe = resolve(j)
        how = "direct" if tfe is None else "transformed"
        tname = tf_name(tfe)
        cls = "direct" if tfe is None else ("Inverse:" * (int(tfe["inv"]) + int(tfe["inv2"]))) + tfe["cls"]
        rep.evaluated(1, j["key"])
        forms = {k: s[k] for k in ("y0form", "spanform", "cont", "ctype", "nd", "bcform", "guess", "mesh", "fxform")}
        case = {"xkey": list(j["key"][1:]), "xproblem": {k: p[k] for k in ("id", "ord", "iv", "x0", "x1", "yfam", "draw")},
                "coefficients": [c["t"] for c in p["a"]], "solve": j["solve"], "transform": tname, "forms": forms,
                "errors": out["err"], "exception": out["msg"], "seconds": round(out["t"], 3)}
        if p["id"] % 53 == 1 and j["ti"] == 1 and len(rep.cov["samples"]) < 12:
            rep.sample(case)
        vkey = f"x:{j['type']}:order={p['ord']}:{j['solve']}:{tname}:xproblem={p['id']}:{p['yfam']}:{p['iv']}"
        if out["msg"] is not None:
            rep.violation(vkey + ":raises:" + out["msg"].split(":")[0],
                          f"solve_ode_{j['type']} failed on problem X{p['id']} of OdeX.tla (order {p['ord']}, solution family "
                          f"{p['yfam']}, interval {p['iv']}, {j['solve']}, transform {tname}, forms {forms}): {out['msg']}", case)
            continue
        accept = accept_for(j["type"], j["acc"], how, s["spanform"])
        w = max(out["err"])
        for name in (f"x:{j['type']}:{j['acc']}:{how}", f"x:class:{cls}", f"x:family:{p['yfam']}", f"x:interval:{p['iv']}:{how}"):
            g = calib.setdefault(name, [0.0, 0])
            g[0] = max(g[0], w)
            g[1] += 1
        for name, v in out["cal"].items():
            g = calib.setdefault(f"x:{name}:{how}", [0.0, 0])
            g[0] = max(g[0], v)
            g[1] += 1
        if not w <= accept:
            k = int(np.argmax(out["err"]))
            rep.violation(vkey, f"solve_ode_{j['type']} ({j['solve']}, transform {tname}, forms {forms}) on problem X{p['id']} of "
                                f"OdeX.tla (order {p['ord']}, family {p['yfam']}, interval {p['iv']}): derivative order {k} deviates "
                                f"from the specification's solution by {out['err'][k]:.3g} x max|y^({k})| (accepted: {accept:g})", case)
        for clause, text in out["sub"]:
            # clause keys name the FORM that fails, the kind of solve and whether a transformation is involved
            rep.violation(f"x:{clause}:{how}:nd={s['nd']}:{j['type']}:xproblem={p['id']}:{tname}",
                          f"{text} [problem X{p['id']}, {j['solve']}, transform {tname}]", case)
    return {k: {"worst": v[0], "n": v[1]} for k, v in sorted(calib.items())}
