"""Independent, stable NumPy evaluator of real spherical harmonics (harness-side oracle).

NOT a specification: this module is only trusted after :func:`calibrate` has compared it, on
the current run, with the definition trees emitted by ``spec/Harmonics.tla`` (all (l, m),
l <= 12, values and both angular derivatives, 50-digit evaluation of the trees) and has
checked the addition theorem for the high degrees.  C02 and C09 call ``calibrate`` first and
refuse to run (MachineryError) if it fails.

Method (shares nothing with grid.utils): fully normalised associated Legendre functions

    Pb_00 = sqrt(1/4pi),   Pb_mm = sqrt((2m+1)/(2m)) s Pb_(m-1)(m-1),
    Pb_lm = a_lm (x Pb_(l-1)m - b_lm Pb_(l-2)m),
    a_lm = sqrt((4l^2-1)/(l^2-m^2)),  b_lm = sqrt(((l-1)^2-m^2)/(4(l-1)^2-1)),

x = cos(polar), s = sin(polar) (signed: the analytic continuation of the defining formula),
marched in l for all m at once; Y_l0 = Pb_l0, Y_lm = sqrt2 Pb_lm cos(m az), Y_l-m = sqrt2 Pb_lm
sin(m az); no Condon-Shortley phase.  Polar derivative without a pole singularity:

    dPb_lm/dpolar = ( sqrt((l+m)(l-m+1)) Pb_l(m-1) - sqrt((l-m)(l+m+1)) Pb_l(m+1) ) / 2   (m >= 1)
    dPb_l0/dpolar = - sqrt(l(l+1)) Pb_l1

Row order: the row of (l, m) is passed in by the caller from the specification where it matters
(``rows`` argument of calibrate); the default layout used here is l^2 + (0 | 2m-1 | 2|m|) and
is itself part of what the calibration compares.
"""
from __future__ import annotations

import math

import numpy as np


def row(l: int, m: int) -> int:
    return l * l + (0 if m == 0 else 2 * m - 1 if m > 0 else -2 * m)


def _coeffs(lmax: int):
    """a[l, m], b[l, m] of the three-term recurrence (zero where not used)."""
    a = np.zeros((lmax + 1, lmax + 1))
    b = np.zeros((lmax + 1, lmax + 1))
    for l in range(1, lmax + 1):
        m = np.arange(0, l)
        a[l, :l] = np.sqrt((4.0 * l * l - 1.0) / (l * l - m * m))
        if l >= 2:
            m2 = np.arange(0, l - 1)
            b[l, : l - 1] = np.sqrt(((l - 1.0) ** 2 - m2 * m2) / (4.0 * (l - 1.0) ** 2 - 1.0))
    return a, b


def pbar_iter(lmax: int, x: np.ndarray, s: np.ndarray):
    """Yield (l, P) for l = 0..lmax with P[m, n] = Pb_lm at point n (rows m > l are zero).
    The yielded array is reused: copy it if it has to survive the next step."""
    x = np.asarray(x, dtype=float)
    s = np.asarray(s, dtype=float)
    n = x.shape[0]
    a, b = _coeffs(lmax)
    p1 = np.zeros((lmax + 2, n))  # degree l-1
    p2 = np.zeros((lmax + 2, n))  # degree l-2
    cur = np.zeros((lmax + 2, n))
    cur[0] = math.sqrt(1.0 / (4.0 * math.pi))
    yield 0, cur
    for l in range(1, lmax + 1):
        p2, p1, cur = p1, cur, p2
        # m <= l-1: three-term recurrence (b vanishes for m = l-1, where p2 is zero anyway)
        np.multiply(p1[:l], x[None, :], out=cur[:l])
        if l >= 2:
            cur[: l - 1] -= b[l, : l - 1, None] * p2[: l - 1]
        cur[:l] *= a[l, :l, None]
        # m = l: diagonal
        cur[l] = math.sqrt((2.0 * l + 1.0) / (2.0 * l)) * s * p1[l - 1]
        cur[l + 1:] = 0.0
        yield l, cur


def pbar(lmax: int, x, s) -> np.ndarray:
    """P[l, m, n], 0 <= m <= l <= lmax (zero for m > l)."""
    x = np.asarray(x, dtype=float)
    out = np.zeros((lmax + 1, lmax + 2, x.shape[0]))
    for l, p in pbar_iter(lmax, x, s):
        out[l] = p
    return out


def _azimuth(lmax, cth, sth):
    """cos(m az), sin(m az), m = 0..lmax, from cos/sin of the azimuth by complex powers."""
    z = np.asarray(cth, dtype=float) + 1j * np.asarray(sth, dtype=float)
    zm = np.ones((lmax + 1, z.shape[0]), dtype=complex)
    for m in range(1, lmax + 1):
        zm[m] = zm[m - 1] * z
    return zm.real, zm.imag


def _assemble(lmax, P, cm, sm):
    n = P.shape[-1]
    out = np.empty(((lmax + 1) ** 2, n))
    r2 = math.sqrt(2.0)
    for l in range(lmax + 1):
        out[l * l] = P[l, 0]
        if l:
            out[l * l + 1: (l + 1) ** 2: 2] = r2 * P[l, 1: l + 1] * cm[1: l + 1]
            out[l * l + 2: (l + 1) ** 2: 2] = r2 * P[l, 1: l + 1] * sm[1: l + 1]
    return out


def ylm_angles(lmax: int, theta, phi) -> np.ndarray:
    """Real spherical harmonics, rows (l, m) -> l^2 + (0 | 2m-1 | 2|m|); theta = azimuth,
    phi = polar angle (any real values)."""
    theta = np.asarray(theta, dtype=float)
    phi = np.asarray(phi, dtype=float)
    P = pbar(lmax, np.cos(phi), np.sin(phi))
    m = np.arange(lmax + 1)[:, None]
    return _assemble(lmax, P, np.cos(m * theta[None, :]), np.sin(m * theta[None, :]))


def ylm_xyz(lmax: int, xyz) -> np.ndarray:
    """Real spherical harmonics at unit vectors (no inverse trigonometric function involved)."""
    xyz = np.asarray(xyz, dtype=float)
    x, y, z = xyz[:, 0], xyz[:, 1], xyz[:, 2]
    rho = np.hypot(x, y)
    safe = np.where(rho > 0, rho, 1.0)
    cth = np.where(rho > 0, x / safe, 1.0)
    sth = np.where(rho > 0, y / safe, 0.0)
    P = pbar(lmax, z, rho)
    cm, sm = _azimuth(lmax, cth, sth)
    return _assemble(lmax, P, cm, sm)


def dylm_angles(lmax: int, theta, phi):
    """(dY/dtheta, dY/dphi), same row layout; true derivatives everywhere (also at the poles)."""
    theta = np.asarray(theta, dtype=float)
    phi = np.asarray(phi, dtype=float)
    P = pbar(lmax, np.cos(phi), np.sin(phi))  # P[l, m, n], one spare zero row m = lmax+1
    n = theta.shape[0]
    dP = np.zeros_like(P)
    for l in range(lmax + 1):
        if l >= 1:
            dP[l, 0] = -math.sqrt(l * (l + 1.0)) * P[l, 1]
        for m in range(1, l + 1):
            dP[l, m] = 0.5 * (math.sqrt((l + m) * (l - m + 1.0)) * P[l, m - 1]
                              - math.sqrt((l - m) * (l + m + 1.0)) * P[l, m + 1])
    mm = np.arange(lmax + 1)[:, None]
    cm, sm = np.cos(mm * theta[None, :]), np.sin(mm * theta[None, :])
    dphi = _assemble(lmax, dP, cm, sm)
    # d/dtheta: cos(m t) -> -m sin(m t), sin(m t) -> m cos(m t)
    dth = np.zeros(((lmax + 1) ** 2, n))
    r2 = math.sqrt(2.0)
    for l in range(1, lmax + 1):
        ms = np.arange(1, l + 1)[:, None]
        dth[l * l + 1: (l + 1) ** 2: 2] = -r2 * ms * P[l, 1: l + 1] * sm[1: l + 1]
        dth[l * l + 2: (l + 1) ** 2: 2] = r2 * ms * P[l, 1: l + 1] * cm[1: l + 1]
    return dth, dphi


def legendre(lmax: int, x) -> np.ndarray:
    """P_l(x), l = 0..lmax (Bonnet recursion) - for the addition theorem."""
    x = np.asarray(x, dtype=float)
    out = np.empty((lmax + 1,) + x.shape)
    out[0] = 1.0
    if lmax >= 1:
        out[1] = x
    for l in range(2, lmax + 1):
        out[l] = ((2 * l - 1) * x * out[l - 1] - (l - 1) * out[l - 2]) / l
    return out


def sphere_moments(lmax: int, xyz, w, chunk: int = 2048) -> np.ndarray:
    """SUM_i w_i Y_lm(p_i) for all (l, m), l <= lmax, without storing the harmonics.
    Same recurrence (pbar_iter) as ylm_xyz, marched chunk-wise over the points."""
    xyz = np.asarray(xyz, dtype=float)
    w = np.asarray(w, dtype=float)
    out = np.zeros((lmax + 1) ** 2)
    r2 = math.sqrt(2.0)
    for i0 in range(0, xyz.shape[0], chunk):
        p = xyz[i0: i0 + chunk]
        ww = w[i0: i0 + chunk]
        x, y, z = p[:, 0], p[:, 1], p[:, 2]
        rho = np.hypot(x, y)
        safe = np.where(rho > 0, rho, 1.0)
        cm, sm = _azimuth(lmax, np.where(rho > 0, x / safe, 1.0), np.where(rho > 0, y / safe, 0.0))
        cw = cm * ww[None, :]
        sw = sm * ww[None, :]
        for l, P in pbar_iter(lmax, z, rho):
            out[l * l] += P[0] @ cw[0]
            if l:
                out[l * l + 1: (l + 1) ** 2: 2] += r2 * np.einsum("mn,mn->m", P[1: l + 1], cw[1: l + 1])
                out[l * l + 2: (l + 1) ** 2: 2] += r2 * np.einsum("mn,mn->m", P[1: l + 1], sw[1: l + 1])
    return out


# ---------------------------------------------------------------------------------------------
# calibration against the specification

class CalibrationError(RuntimeError):
    pass


_TV = None


def _tv_job(job):
    import mpmath as mp
    from .expr_eval import evaluate
    i0, th, ph = job
    trees = _TV["trees"]
    out = {k: np.zeros((len(trees), len(th))) for k in ("y", "dtheta", "dphi")}
    for j in range(len(th)):
        env = {"theta": mp.mpf(float(th[j])), "phi": mp.mpf(float(ph[j]))}
        for t in trees:
            for k in out:
                out[k][int(t["row"]), j] = float(evaluate(t[k], env, "mp"))
    return i0, out


def tree_values(emission: dict, th, ph, procs: int = 16) -> dict:
    """Values of the emitted trees y / dtheta / dphi (rows as given by the spec) at float angles,
    evaluated in 50-digit arithmetic, in parallel."""
    global _TV
    import multiprocessing as mp_
    _TV = emission
    n = len(th)
    nrows = len(emission["trees"])
    out = {k: np.zeros((nrows, n)) for k in ("y", "dtheta", "dphi")}
    step = max(1, -(-n // (2 * procs)))
    jobs = [(i, th[i: i + step], ph[i: i + step]) for i in range(0, n, step)]
    if procs <= 1:
        res = map(_tv_job, jobs)
        for i0, o in res:
            for k in out:
                out[k][:, i0: i0 + o[k].shape[1]] = o[k]
    else:
        with mp_.get_context("fork").Pool(procs) as pool:
            for i0, o in pool.imap_unordered(_tv_job, jobs):
                for k in out:
                    out[k][:, i0: i0 + o[k].shape[1]] = o[k]
    _TV = None
    return out


def calibrate(emission: dict, seed: int = 0, n_random: int = 12, lhigh: int = 120, tol: float = 2e-12,
              procs: int = 16) -> dict:
    """Compare this module with the definition trees of Harmonics.tla (``emission`` = the JSON
    written by TLC).  Raises CalibrationError on any disagreement.  Returns the measured errors.

    * values, d/dtheta, d/dphi for every emitted (l, m) at every lattice angle of the spec and at
      ``n_random`` seeded float angles (incl. angles outside the principal range), 50-digit
      evaluation of the trees, rows taken from the spec;
    * ylm_xyz == ylm_angles on the corresponding unit vectors;
    * addition theorem up to ``lhigh`` with an independent Bonnet recursion for P_l;
    * sphere_moments == explicit sums of ylm_xyz.
    """
    import mpmath as mp
    from .expr_eval import evaluate

    rng = np.random.default_rng(seed + 7919)
    lt = int(emission["ltree"])
    angles = []
    for lat in emission["lattice"]:
        ct, st, cp, sp = (mp.mpf(lat[k][0]) / lat[k][1] for k in ("ct", "st", "cp", "sp"))
        angles.append((mp.atan2(st, ct), mp.atan2(sp, cp)))
    for _ in range(n_random):
        angles.append((mp.mpf(float(rng.uniform(-7, 7))), mp.mpf(float(rng.uniform(-4, 7)))))
    th = np.array([float(a[0]) for a in angles])
    ph = np.array([float(a[1]) for a in angles])
    mine = ylm_angles(lt, th, ph)
    dth, dph = dylm_angles(lt, th, ph)
    err = {"y": 0.0, "dtheta": 0.0, "dphi": 0.0}
    for t in emission["trees"]:
        if int(t["row"]) != row(int(t["l"]), int(t["m"])):
            raise CalibrationError(f"row layout differs from the specification at (l,m)=({t['l']},{t['m']})")
    expected = tree_values(emission, th, ph, procs)
    for key, arr in (("y", mine), ("dtheta", dth), ("dphi", dph)):
        v = expected[key]
        err[key] = float((np.abs(arr[: v.shape[0]] - v) / np.maximum(1.0, np.abs(v))).max())
    for k, e in err.items():
        if not e <= tol:
            raise CalibrationError(f"vf/ylm.py disagrees with Harmonics.tla trees: {k} error {e:.3e} > {tol}")
    # Legendre polynomials (used on the right-hand side of the addition theorem)
    xs = np.array([-1.0, -0.6, -0.28, 0.0, 0.352, 0.8, 1.0])
    pl = legendre(lt, xs)
    e_leg = 0.0
    for l, t in enumerate(emission["legendre"]):
        for j, xv in enumerate(xs):
            e_leg = max(e_leg, abs(float(evaluate(t, {"cosgamma": mp.mpf(float(xv))}, "mp")) - pl[l, j]))
    if not e_leg <= tol:
        raise CalibrationError(f"legendre() disagrees with Harmonics.tla: {e_leg:.3e}")
    # unit vectors
    xyz = np.stack([np.sin(ph) * np.cos(th), np.sin(ph) * np.sin(th), np.cos(ph)], axis=1)
    e_xyz = float(np.abs(ylm_xyz(lt, xyz) - mine).max())
    if not e_xyz <= tol:
        raise CalibrationError(f"ylm_xyz vs ylm_angles: {e_xyz:.3e}")
    # addition theorem for the high degrees
    a = rng.normal(size=(40, 3)); a /= np.linalg.norm(a, axis=1)[:, None]
    b = rng.normal(size=(40, 3)); b /= np.linalg.norm(b, axis=1)[:, None]
    ya, yb = ylm_xyz(lhigh, a), ylm_xyz(lhigh, b)
    pl = legendre(lhigh, np.einsum("ij,ij->i", a, b))
    e_add = 0.0
    for l in range(lhigh + 1):
        lhs = np.einsum("kn,kn->n", ya[l * l: (l + 1) ** 2], yb[l * l: (l + 1) ** 2])
        e_add = max(e_add, float(np.abs(lhs - (2 * l + 1) / (4 * math.pi) * pl[l]).max()) / (2 * l + 1))
    if not e_add <= 1e-11:
        raise CalibrationError(f"addition theorem (l <= {lhigh}): relative error {e_add:.3e}")
    # moments
    w = rng.uniform(0.5, 1.5, size=a.shape[0])
    e_mom = float(np.abs(sphere_moments(lhigh, a, w, chunk=16) - ya @ w).max())
    if not e_mom <= 1e-11:
        raise CalibrationError(f"sphere_moments vs explicit sum: {e_mom:.3e}")
    return {"tree_value": err["y"], "tree_dtheta": err["dtheta"], "tree_dphi": err["dphi"], "legendre": e_leg,
            "xyz_vs_angles": e_xyz, "addition_theorem_rel": e_add, "moments": e_mom,
            "angles": len(angles), "trees": len(emission["trees"])}
