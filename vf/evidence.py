"""Evidence files, known findings, verdict lines and exit status.

A check builds a :class:`Report`, adds coverage counters, samples and violations, and calls
``finish()``.  ``finish`` writes ``evidence/<id>.json``, prints ``KNOWN-FINDING:`` lines for
violations whose key matches a ``known`` entry of ``known_findings.json`` and ``VIOLATION``
lines (with a replay file) for the others, and returns the exit status (0 / 1).
Machinery failures are raised as exceptions and mapped to exit status 2 by the CLI.
"""
from __future__ import annotations

import fnmatch
import hashlib
import json
import os
import time
from pathlib import Path

ROOT = Path(__file__).resolve().parent.parent
EVID = ROOT / "evidence"
if os.path.realpath(os.environ.get("VERIF_REPO", "/repo")) != "/repo":
    # maintainer runs against a scratch worktree (seeded changes) never touch the committed evidence
    EVID = ROOT / "gen" / "evidence-scratch"
REPLAYS = ROOT / "replays"
KNOWN = ROOT / "known_findings.json"


def seed() -> int:
    try:
        return int(os.environ.get("VERIF_SEED", "0"))
    except ValueError:
        return 0


def _jsonable(x):
    import fractions
    try:
        import numpy as np
    except Exception:  # pragma: no cover
        np = None
    if isinstance(x, dict):
        return {str(k): _jsonable(v) for k, v in x.items()}
    if isinstance(x, (list, tuple, set, frozenset)):
        return [_jsonable(v) for v in x]
    if isinstance(x, fractions.Fraction):
        return str(x)
    if np is not None:
        if isinstance(x, np.ndarray):
            return _jsonable(x.tolist())
        if isinstance(x, np.generic):
            return _jsonable(x.item())
    if isinstance(x, float):
        if x != x or x in (float("inf"), float("-inf")):
            return repr(x)
        return x
    if isinstance(x, (int, str, bool)) or x is None:
        return x
    if isinstance(x, complex):
        return repr(x)
    return repr(x)


class Report:
    def __init__(self, prop: str, tier: str, level: str):
        self.prop = prop
        self.tier = tier
        self.level = level
        self.seed = seed()
        self.t0 = time.time()
        self.cov: dict = {"samples": []}
        self.assumptions: list = []
        self.violations: list = []  # dicts: key, what, case
        self._known = [k for k in load_known() if k["property"] == prop]
        self._nontrivial = set()
        self.evaluations = 0

    # -- counters ---------------------------------------------------------------------------
    def count(self, key: str, n: int = 1):
        self.cov[key] = self.cov.get(key, 0) + n

    def set(self, key: str, value):
        self.cov[key] = value

    def sample(self, case, limit: int = 12):
        if len(self.cov["samples"]) < limit:
            self.cov["samples"].append(_jsonable(case))

    def evaluated(self, n: int = 1, distinct_key=None):
        self.evaluations += n
        if distinct_key is not None:
            self._nontrivial.add(distinct_key)

    def tlc(self, res, name: str):
        """Fold statistics of a TLC run into the coverage."""
        self.count("states", res.distinct)
        self.count("transitions", res.generated)
        runs = self.cov.setdefault("tlc_runs", [])
        runs.append({"name": name, "status": res.status, "generated": res.generated,
                     "distinct": res.distinct, "depth": res.depth, "wall_s": round(res.wall_s, 2),
                     **({"coverage": {k: list(v) for k, v in res.coverage.items()}} if res.coverage else {})})

    def assume(self, text: str):
        if text not in self.assumptions:
            self.assumptions.append(text)

    # -- violations -------------------------------------------------------------------------
    def violation(self, key: str, what: str, case=None):
        """Record a violation.  ``key`` identifies the failing input / call site / history."""
        self.violations.append({"key": key, "what": what, "case": _jsonable(case)})

    def _match_known(self, key: str):
        for k in self._known:
            if k.get("status") == "known" and fnmatch.fnmatchcase(key, k["key"]):
                return k
        return None

    # -- finish -----------------------------------------------------------------------------
    def finish(self) -> int:
        if os.environ.get("VERIF_SELFTEST"):
            # selftest mode (in-process mutants): no evidence, no replay files, no VIOLATION lines
            keys = sorted({v["key"] for v in self.violations if self._match_known(v["key"]) is None})
            for k in keys[:5]:
                print(f"  selftest-detected {self.prop}: {k}")
            self.selftest_keys = keys
            return 1 if keys else 0
        known_hit: dict = {}
        unknown = []
        for v in self.violations:
            k = self._match_known(v["key"])
            if k is not None:
                known_hit.setdefault(k["key"], (k, []))[1].append(v)
            else:
                unknown.append(v)
        for key, (k, vs) in sorted(known_hit.items()):
            print(f"KNOWN-FINDING: property={self.prop} {k['what']} [key={key}; {len(vs)} case(s) this run, e.g. {vs[0]['key']}]")
        REPLAYS.mkdir(exist_ok=True)
        seen = set()
        printed = 0
        for v in unknown:
            if v["key"] in seen:
                continue
            seen.add(v["key"])
            printed += 1
            if printed > 40:      # one replay file and one line per distinct key, at most 40 per run
                continue
            h = hashlib.sha1(json.dumps(v, sort_keys=True).encode()).hexdigest()[:10]
            path = REPLAYS / f"{self.prop}-{h}.json"
            with open(path, "w") as f:
                json.dump({"property": self.prop, "tier": self.tier, "seed": self.seed, **v}, f, indent=1)
            print(f"VIOLATION property={self.prop} replay={path}  # {v['key']}: {v['what'][:300]}")
        if printed > 40:
            print(f"[{self.prop}] ... and {printed - 40} more distinct violations (keys in the evidence file)")
        cov = dict(self.cov)
        cov.setdefault("evaluations", self.evaluations)
        cov.setdefault("distinct_nontrivial", len(self._nontrivial))
        cov.setdefault("rule", "")
        cov["known_findings_hit"] = sorted(known_hit)
        cov["violations_unlisted"] = sorted(seen)
        if not cov["samples"]:
            cov["samples"] = ["(no case was generated)"]
        ev = {
            "property_id": self.prop,
            "tier": self.tier,
            "seed": self.seed,
            "level": self.level,
            "coverage": _jsonable(cov),
            "assumptions": self.assumptions,
            "wall_s": round(time.time() - self.t0, 2),
            "violations": len(seen),
        }
        EVID.mkdir(exist_ok=True)
        tmp = EVID / f".{self.prop}.json.tmp"
        with open(tmp, "w") as f:
            json.dump(ev, f, indent=1)
        os.replace(tmp, EVID / f"{self.prop}.json")
        status = 1 if seen else 0
        print(f"[{self.prop}] tier={self.tier} evaluations={cov['evaluations']} distinct={cov['distinct_nontrivial']} "
              f"states={cov.get('states', 0)} known={len(known_hit)} violations={len(seen)} wall={ev['wall_s']}s")
        return status


def load_known() -> list:
    """Entries of known_findings.json (plus per-property drafts in known_findings.d/, which are
    merged into the single file by the maintainer of /verif)."""
    out = []
    if KNOWN.exists():
        with open(KNOWN) as f:
            out += json.load(f)["findings"]
    d = ROOT / "known_findings.d"
    if d.is_dir():
        for p in sorted(d.glob("*.json")):
            with open(p) as f:
                out += json.load(f)["findings"]
    return out


def run_mutants(prop: str, run, mutants: list, tier: str = "quick") -> int:
    """Selftest driver: ``mutants`` is a list of (name, contextmanager factory).  Each mutant
    patches the imported library in-process (never /repo), the check is run in selftest mode and
    must report at least one violation.  Returns 0 iff every mutant is detected."""
    import contextlib
    import io
    os.environ["VERIF_SELFTEST"] = "1"
    missed = []
    try:
        for name, cm in mutants:
            buf = io.StringIO()
            try:
                with cm():
                    with contextlib.redirect_stdout(buf):
                        rc = run(tier)
            except Exception as e:  # a mutant must never crash the harness
                print(f"selftest {prop} mutant {name}: HARNESS CRASH {type(e).__name__}: {e}")
                missed.append(name)
                continue
            det = [l for l in buf.getvalue().splitlines() if "selftest-detected" in l]
            print(f"selftest {prop} mutant {name}: {'DETECTED' if rc == 1 else 'MISSED'} {det[:2]}")
            if rc != 1:
                missed.append(name)
    finally:
        os.environ.pop("VERIF_SELFTEST", None)
    print(f"selftest {prop}: {len(mutants) - len(missed)}/{len(mutants)} mutants detected; missed: {missed}")
    return 0 if not missed else 1


class patched:
    """Context manager: temporarily replace attribute ``name`` of ``obj``."""

    def __init__(self, obj, name, value):
        self.obj, self.name, self.value = obj, name, value

    def __enter__(self):
        self.old = self.obj.__dict__.get(self.name, getattr(self.obj, self.name))
        setattr(self.obj, self.name, self.value)

    def __exit__(self, *a):
        setattr(self.obj, self.name, self.old)
