"""Harness of the model-based verification framework for theochem/grid (see /verif/DESIGN.md)."""
