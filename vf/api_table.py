"""Operation table for property C20 (single source of truth; Tables_api.tla is generated
from it).  Each operation declares its argument SLOTS (kind: A array, L list, D dict, G object
carrying arrays), which slot pairs may hold the same buffer, which callback-return modes it
admits, a ``make`` function producing fresh argument values and a ``call`` function that performs
the public call(s) and returns a digest (list of arrays) of the result.
"""
from __future__ import annotations

import os
import warnings

import numpy as np

OPS = []


class Op:
    def __init__(self, name, kinds, make, call, pairs=(), cbs=(), heavy=False):
        self.name, self.kinds, self.make, self.call = name, list(kinds), make, call
        self.pairs, self.cbs, self.heavy = [tuple(p) for p in pairs], list(cbs), heavy


def op(name, kinds, make, call, pairs=(), cbs=(), heavy=False):
    OPS.append(Op(name, kinds, make, call, pairs, cbs, heavy))


class Callbacks:
    """Factory of user callbacks for one program.  mode: fresh | arg | cached.
    ident(x): the function f(x) = x ; const(x): the function f(x) = 1.
    Every array handed to the library is remembered with a copy taken at return time."""

    def __init__(self, mode):
        self.mode = mode
        self.returned = []   # (array object, copy at return time)
        self._cache = {}

    def fun(self):
        # the mathematical function used with this mode (so that a baseline with fresh arrays exists)
        return "const" if self.mode in ("cached", "fresh-const") else "ident"

    def _ret(self, arr):
        self.returned.append((arr, arr.copy()))
        return arr

    def f(self, x):
        """right-hand side / integrand of one array argument"""
        x = np.asarray(x)
        if self.mode == "arg":
            return self._ret(x)                      # the callback returns its own argument
        if self.mode == "cached":
            key = x.shape
            if key not in self._cache:
                self._cache[key] = np.ones(x.shape)  # one cached array, returned every time
            return self._ret(self._cache[key])
        if self.mode == "fresh-const":
            return self._ret(np.ones(x.shape))
        return self._ret(np.array(x, dtype=float, copy=True))   # fresh

    def changed(self):
        return sum(1 for a, c in self.returned if not np.array_equal(a, c, equal_nan=True))


# ---------------------------------------------------------------------------------------------
# fixtures

def _pts(n=6, seed=3):
    r = np.random.default_rng(seed)
    return r.uniform(-1.5, 1.5, size=(n, 3))


def _w(n=6):
    return np.linspace(0.2, 1.1, n)


def _rgrid(n=8):
    from grid.onedgrid import GaussLegendre
    from grid.rtransform import BeckeRTransform
    return BeckeRTransform(1e-4, 1.2).transform_1d_grid(GaussLegendre(n))


def _atgrid(n=8, deg=5, center=(0.1, -0.2, 0.3), rotate=0):
    from grid.atomgrid import AtomGrid
    return AtomGrid(_rgrid(n), degrees=[deg], center=np.array(center), rotate=rotate)


def _molgrid(store=True):
    from grid.becke import BeckeWeights
    from grid.molgrid import MolGrid
    a1 = _atgrid(6, 3, (0.0, 0.0, 0.0))
    a2 = _atgrid(6, 3, (0.0, 0.0, 1.6))
    return MolGrid(np.array([1, 8]), [a1, a2], BeckeWeights(order=3), store=store)


def _gauss(points, center=(0.0, 0.0, 0.0), a=1.3):
    d2 = np.sum((points - np.asarray(center)) ** 2, axis=1)
    return (a / np.pi) ** 1.5 * np.exp(-a * d2)


def _q():
    warnings.simplefilter("ignore")


# ---------------------------------------------------------------------------------------------
# basegrid
def _reg_basegrid():
    from grid.basegrid import Grid, LocalGrid, OneDGrid
    op("Grid", "AA", lambda: [_pts(), _w()], lambda v, cb: [Grid(v[0], v[1]).integrate(np.ones(6))])
    op("OneDGrid", "AA", lambda: [np.linspace(-0.9, 0.9, 6), _w()],
       lambda v, cb: [OneDGrid(v[0], v[1], (-1, 1)).integrate(np.ones(6))], pairs=[(1, 2)])
    op("LocalGrid", "AAAA", lambda: [_pts(), _w(), np.zeros(3), np.arange(6)],
       lambda v, cb: [LocalGrid(v[0], v[1], v[2], v[3]).integrate(np.ones(6))])
    op("Grid.integrate", "GAA", lambda: [Grid(_pts(), _w()), np.arange(6.0), np.arange(6.0)],
       lambda v, cb: [v[0].integrate(v[1], v[2])], pairs=[(2, 3)])
    op("Grid.get_localgrid", "GA", lambda: [Grid(_pts(), _w()), np.array([0.1, 0.0, 0.2])],
       lambda v, cb: (lambda lg: [lg.points, lg.weights, lg.indices])(v[0].get_localgrid(v[1], 1.4)))
    for tm in ("cartesian", "radial", "pure", "pure-radial"):
        op(f"Grid.moments[{tm}]", "GAA", lambda: [Grid(_pts(), _w()), np.array([[0.1, 0.2, 0.0], [1.0, 0.0, 0.0]]), np.arange(6.0) + 1],
           (lambda tm: lambda v, cb: [v[0].moments(2, v[1], v[2], tm)])(tm))
    op("Grid.__getitem__", "GA", lambda: [Grid(_pts(), _w()), np.array([4, 0, 2])],
       lambda v, cb: (lambda g: [g.points, g.weights])(v[0][v[1]]))
    # (the grid itself is the receiver of the assignment, not an argument: it is built inside the call)
    op("Grid.set_points_weights", "AA", lambda: [_pts(6, 5), _w() * 2],
       lambda v, cb: (lambda g: (setattr(g, "points", v[0]), setattr(g, "weights", v[1]), [g.integrate(np.ones(6))])[-1])(Grid(_pts(), _w())))
    op("OneDGrid.__getitem__", "GA", lambda: [OneDGrid(np.linspace(-0.9, 0.9, 6), _w(), (-1, 1)), np.array([True, False, True, True, False, False])],
       lambda v, cb: (lambda g: [g.points, g.weights])(v[0][v[1]]))


# rtransform / onedgrid
def _reg_rtransform():
    import grid.rtransform as rt
    from grid.onedgrid import GaussLegendre, UniformInteger

    def tfs():
        return [rt.BeckeRTransform(0.1, 1.5), rt.LinearFiniteRTransform(0.2, 5.0), rt.MultiExpRTransform(0.1, 1.5),
                rt.KnowlesRTransform(0.1, 1.5, 2), rt.HandyRTransform(0.1, 1.5, 2), rt.HandyModRTransform(0.1, 10.0, 2),
                rt.InverseRTransform(rt.BeckeRTransform(0.1, 1.5))]

    def tfs0():
        return [rt.IdentityRTransform(), rt.LinearInfiniteRTransform(0.1, 5.0, b=7.0), rt.ExpRTransform(0.1, 5.0, b=7.0),
                rt.PowerRTransform(0.1, 5.0, b=7.0), rt.HyperbolicRTransform(0.5, 0.05)]

    def allm(v, cb):
        out = []
        for t in tfs():
            if isinstance(t, rt.InverseRTransform):
                x = np.linspace(0.2, 3.0, 7)
                if v[0] is not None and not v[0].flags.writeable:
                    x.flags.writeable = False
            else:
                x = v[0]
            r = t.transform(x)
            out += [r, t.deriv(x), t.deriv2(x), t.deriv3(x), t.inverse(r), t.deriv_inverse(r), t.deriv2_inverse(r), t.deriv3_inverse(r)]
        return out
    op("rtransform[-1,1].all_methods", "A", lambda: [np.linspace(-0.8, 0.8, 7)], allm)

    def allm0(v, cb):
        out = []
        for t in tfs0():
            x = v[0]
            r = t.transform(x)
            out += [r, t.deriv(x), t.deriv2(x), t.deriv3(x), t.inverse(r), t.deriv_inverse(r), t.deriv2_inverse(r), t.deriv3_inverse(r)]
        return out
    op("rtransform[0,inf).all_methods", "A", lambda: [np.arange(1.0, 8.0)], allm0)

    def t1d(v, cb):
        out = []
        for t in tfs():
            if isinstance(t, rt.InverseRTransform):
                continue
            g = t.transform_1d_grid(v[0])
            out += [g.points, g.weights]
        return out
    op("rtransform.transform_1d_grid", "G", lambda: [GaussLegendre(7)], t1d)
    op("rtransform.transform_1d_grid[b-inferred]", "G", lambda: [UniformInteger(7)],
       lambda v, cb: sum(([g.points, g.weights] for g in (t.transform_1d_grid(v[0]) for t in (
           rt.LinearInfiniteRTransform(0.1, 5.0), rt.ExpRTransform(0.1, 5.0), rt.PowerRTransform(0.1, 5.0)))), []))
    op("BeckeRTransform.find_parameter", "A", lambda: [np.linspace(-0.9, 0.9, 6)],
       lambda v, cb: [np.array(rt.BeckeRTransform.find_parameter(v[0], 0.1, 1.2))])


# angular / atomgrid
def _reg_atomgrid():
    from grid.angular import AngularGrid
    from grid.atomgrid import AtomGrid
    op("convert_angular_sizes_to_degrees", "A", lambda: [np.array([6, 30, 50, 38, 7])],
       lambda v, cb: [AngularGrid.convert_angular_sizes_to_degrees(v[0], "lebedev")])
    # per-shell degrees that are NOT all tabulated (4 -> 5, 6 -> 7, 10 -> 11): the resolved degrees differ from the request
    op("AtomGrid", "GLA", lambda: [_rgrid(6), [3, 4, 6, 10, 7, 5], np.array([0.1, 0.2, 0.3])],
       lambda v, cb: (lambda g: [g.points, g.weights, g.indices, np.array(g.degrees)])(AtomGrid(v[0], degrees=v[1], center=v[2], rotate=7)))
    op("AtomGrid[degrees array]", "GAA", lambda: [_rgrid(6), np.array([3, 4, 6, 10, 7, 5]), np.array([0.1, 0.2, 0.3])],
       lambda v, cb: (lambda g: [g.points, g.weights, g.indices, np.array(g.degrees)])(AtomGrid(v[0], degrees=v[1], center=v[2])))
    op("AtomGrid[sizes]", "GA", lambda: [_rgrid(6), np.array([6, 20, 26, 40, 6, 7])],
       lambda v, cb: (lambda g: [g.points, g.weights, g.indices])(AtomGrid(v[0], sizes=v[1])))
    op("AtomGrid.from_pruned", "GAAA", lambda: [_rgrid(8), np.array([0.5, 1.0, 1.5]), np.array([3, 6, 4, 3]), np.array([0.0, 0.0, 0.1])],
       lambda v, cb: (lambda g: [g.points, g.weights, g.indices])(
           AtomGrid.from_pruned(v[0], 1.0, r_sectors=v[1], d_sectors=v[2], center=v[3])))
    op("AtomGrid.from_pruned[lists,sizes]", "GLL", lambda: [_rgrid(8), [0.5, 1.0, 1.5], [6, 20, 14, 7]],
       lambda v, cb: (lambda g: [g.points, g.weights, g.indices])(AtomGrid.from_pruned(v[0], 1.0, r_sectors=v[1], s_sectors=v[2])))
    op("AtomGrid.from_preset", "GA", lambda: [_rgrid(20), np.array([0.3, 0.0, 0.0])],
       lambda v, cb: (lambda g: [g.points, g.weights])(AtomGrid.from_preset(8, "coarse", v[0], center=v[1])))

    def fvals(g):
        p = g.points
        return _gauss(p, g.center) * (1 + 0.3 * (p[:, 2] - g.center[2]))
    op("AtomGrid.integrate_angular_coordinates", "GA", lambda: (lambda g: [g, fvals(g)])(_atgrid()),
       lambda v, cb: [v[0].integrate_angular_coordinates(v[1])])
    def atgrid0():
        from grid.basegrid import OneDGrid
        rg0 = OneDGrid(np.array([0.0, 0.4, 1.1, 2.0]), np.array([0.1, 0.3, 0.5, 0.7]), (0, np.inf))   # a node AT the nucleus
        return AtomGrid(rg0, degrees=[5], center=np.array([0.1, -0.2, 0.3]))
    op("AtomGrid.integrate_angular_coordinates[r=0 node]", "GA", lambda: (lambda g: [g, fvals(g)])(atgrid0()),
       lambda v, cb: [v[0].integrate_angular_coordinates(v[1])])
    op("AtomGrid.integrate_angular_coordinates[r=0 node, stacked]", "GA", lambda: (lambda g: [g, np.vstack([fvals(g), 2 * fvals(g) + 1])])(atgrid0()),
       lambda v, cb: [v[0].integrate_angular_coordinates(v[1])])
    op("AtomGrid.spherical_average+interpolate[r=0 node]", "GAA", lambda: (lambda g: [g, fvals(g), _pts(4, 9) * 0.5])(atgrid0()),
       lambda v, cb: [v[0].spherical_average(v[1])(np.array([0.1, 0.5, 1.0])), v[0].interpolate(v[1])(v[2])])
    op("AtomGrid.spherical_average", "GA", lambda: (lambda g: [g, fvals(g)])(_atgrid()),
       lambda v, cb: [v[0].spherical_average(v[1])(np.array([0.1, 0.5, 1.0]))])
    op("AtomGrid.radial_component_splines", "GA", lambda: (lambda g: [g, fvals(g)])(_atgrid()),
       lambda v, cb: [np.array([s(np.array([0.3, 0.9])) for s in v[0].radial_component_splines(v[1])])])
    op("AtomGrid.interpolate", "GAA", lambda: (lambda g: [g, fvals(g), _pts(5, 9)])(_atgrid()),
       lambda v, cb: (lambda f: [f(v[2]), f(v[2], deriv=1), f(v[2], deriv=1, deriv_spherical=True), f(v[2], deriv=2, only_radial_deriv=True)])(
           v[0].interpolate(v[1])))
    op("AtomGrid.convert_cartesian_to_spherical", "GAA", lambda: [_atgrid(), _pts(5, 9), np.array([0.2, 0.0, -0.1])],
       lambda v, cb: [v[0].convert_cartesian_to_spherical(v[1], v[2]), v[0].convert_cartesian_to_spherical()])
    op("AtomGrid.get_shell_grid", "G", lambda: [_atgrid(rotate=11)],
       lambda v, cb: (lambda s: [s.points, s.weights])(v[0].get_shell_grid(2)))
    op("AtomGrid.integrate", "GA", lambda: (lambda g: [g, fvals(g)])(_atgrid()), lambda v, cb: [v[0].integrate(v[1])])


def _reg_becke():
    from grid.becke import BeckeWeights
    from grid.hirshfeld import HirshfeldWeights

    def mk():
        return [_pts(12, 4) * 1.5, np.array([[0.0, 0, 0], [0, 0, 1.7], [1.5, 0, 0.4]]), np.array([1, 8, 6]), np.array([0, 4, 9, 12])]
    op("BeckeWeights.__call__", "AAAA", mk, lambda v, cb: [BeckeWeights(order=3)(v[0], v[1], v[2], v[3])])
    # five atoms, twenty points: the whole-grid call works through several chunks
    def mk5():
        return [_pts(20, 4) * 2.0, np.array([[0.0, 0, 0], [0, 0, 1.7], [1.5, 0, 0.4], [-1.2, 0.3, 0.0], [0.2, -1.4, 0.9]]),
                np.array([1, 8, 6, 7, 1]), np.array([0, 4, 8, 12, 16, 20])]
    op("BeckeWeights.__call__[5 atoms, several chunks]", "AAAA", mk5, lambda v, cb: [BeckeWeights(order=3)(v[0], v[1], v[2], v[3])])
    op("BeckeWeights(radii)", "D", lambda: [{1: 0.6, 8: 1.1, 6: 1.3}],
       lambda v, cb: (lambda m: [BeckeWeights(v[0], order=2)(m[0], m[1], m[2], m[3])])(mk()))
    op("BeckeWeights.generate_weights", "AAALL", lambda: mk()[:3] + [[0, 2], [0, 5, 12]],
       lambda v, cb: [BeckeWeights().generate_weights(v[0], v[1], v[2], select=v[3], pt_ind=v[4]),
                      BeckeWeights().generate_weights(v[0], v[1], v[2], select=1)])
    op("BeckeWeights.compute_weights", "AAALL", lambda: mk()[:3] + [[0, 1, 2], [0, 4, 9, 12]],
       lambda v, cb: [BeckeWeights().compute_weights(v[0], v[1], v[2], select=v[3], pt_ind=v[4]),
                      BeckeWeights().compute_weights(v[0], v[1], v[2], select=2)])
    op("BeckeWeights.compute_atom_weight", "AAA", lambda: mk()[:3],
       lambda v, cb: [BeckeWeights().compute_atom_weight(v[0], v[1], v[2], 1)])
    # the same entry points with elements that have no tabulated radius (He, Ar, Rn: the fall-back branch)
    def mk2():
        return [_pts(12, 4) * 1.5, np.array([[0.0, 0, 0], [0, 0, 1.7], [1.5, 0, 0.4]]), np.array([2, 18, 86]), np.array([0, 4, 9, 12])]
    op("BeckeWeights.__call__[undefined radii]", "AAAA", mk2, lambda v, cb: [BeckeWeights(order=3)(v[0], v[1], v[2], v[3])])
    op("BeckeWeights.generate_weights[undefined radii]", "AAALL", lambda: mk2()[:3] + [[0, 2], [0, 5, 12]],
       lambda v, cb: [BeckeWeights().generate_weights(v[0], v[1], v[2], select=v[3], pt_ind=v[4])])
    op("BeckeWeights.compute_weights[undefined radii]", "AAALL", lambda: mk2()[:3] + [[0, 1, 2], [0, 4, 9, 12]],
       lambda v, cb: [BeckeWeights().compute_weights(v[0], v[1], v[2], select=v[3], pt_ind=v[4])])
    op("BeckeWeights.compute_atom_weight[undefined radii]", "AAA", lambda: mk2()[:3],
       lambda v, cb: [BeckeWeights().compute_atom_weight(v[0], v[1], v[2], 1)])
    op("HirshfeldWeights.__call__", "AAAA", mk, lambda v, cb: [HirshfeldWeights()(v[0], v[1], v[2], v[3])])
    op("HirshfeldWeights.generate_proatom", "AA", lambda: [_pts(7, 2), np.array([0.0, 0.1, 0.2])],
       lambda v, cb: [HirshfeldWeights.generate_proatom(v[0], v[1], 8)])


def _reg_molgrid():
    from grid.becke import BeckeWeights
    from grid.molgrid import MolGrid
    from grid.onedgrid import GaussLegendre  # noqa: F401

    def ats():
        return [_atgrid(5, 3, (0.0, 0.0, 0.0)), _atgrid(5, 3, (0.0, 0.0, 1.6))]
    n = 5 * 6 * 2
    op("MolGrid[array weights]", "ALA", lambda: [np.array([1, 8]), ats(), np.linspace(0.1, 1.0, n)],
       lambda v, cb: (lambda g: [g.points, g.weights, g.indices, g.get_atomic_grid(1).weights, g[0].weights])(MolGrid(v[0], v[1], v[2], store=True)))
    op("MolGrid[callable weights]", "AL", lambda: [np.array([1, 8]), ats()],
       lambda v, cb: (lambda g: [g.points, g.weights])(
           MolGrid(v[0], v[1], lambda p, c, z, i: cb.f(np.asarray(p)[:, 0] * 0 + 1.0) if cb.mode != "arg" else cb.f(p)[:, 0] * 0 + 1.0)),
       cbs=["fresh", "cached"])
    crd = lambda: np.array([[0.0, 0, 0], [0, 0, 1.6]])  # noqa: E731
    op("MolGrid.from_size", "AAG", lambda: [np.array([1, 8]), crd(), _rgrid(5)],
       lambda v, cb: (lambda g: [g.points, g.weights])(MolGrid.from_size(v[0], v[1], 20, v[2], BeckeWeights())))
    op("MolGrid.from_preset", "AADD", lambda: [np.array([1, 8]), crd(), {1: "coarse", 8: "medium"}, {1: _rgrid(10), 8: _rgrid(12)}],
       lambda v, cb: (lambda g: [g.points, g.weights])(MolGrid.from_preset(v[0], v[1], v[2], v[3], BeckeWeights())))
    op("MolGrid.from_pruned", "AALLLG", lambda: [np.array([1, 8]), crd(), [0.8, 1.2], [[0.5, 1.0], [0.4, 1.1]], [[3, 5, 3], [3, 7, 5]], _rgrid(6)],
       lambda v, cb: (lambda g: [g.points, g.weights])(
           MolGrid.from_pruned(v[0], v[1], v[2], v[3], d_sectors=v[4], rgrid=v[5], aim_weights=BeckeWeights())))
    op("MolGrid.interpolate", "GAA", lambda: (lambda g: [g, _gauss(g.points), _pts(4, 8)])(_molgrid()),
       lambda v, cb: [v[0].interpolate(v[1])(v[2])], heavy=True)
    op("MolGrid.get_atomic_grid", "G", lambda: [_molgrid(store=False)],
       lambda v, cb: (lambda a, b: [a.points, a.weights, b.points, b.weights])(v[0].get_atomic_grid(1), v[0][0]))
    op("MolGrid.integrate", "GAA", lambda: (lambda g: [g, _gauss(g.points), np.ones(g.size)])(_molgrid()),
       lambda v, cb: [v[0].integrate(v[1], v[2])], pairs=[(2, 3)])


def _reg_cubic():
    from grid.basegrid import OneDGrid
    from grid.cubic import Tensor1DGrids, UniformGrid
    od = lambda n, s: OneDGrid(np.linspace(-1, 1, n) * s, np.ones(n) * 2 * s / n, (-s, s))  # noqa: E731
    op("Tensor1DGrids", "GGG", lambda: [od(3, 1.0), od(4, 1.5), od(3, 2.0)],
       lambda v, cb: (lambda g: [g.points, g.weights])(Tensor1DGrids(v[0], v[1], v[2])))

    def ug():
        return UniformGrid(np.array([-1.0, -1.0, -1.0]), np.diag([0.5, 0.4, 0.5]), np.array([5, 6, 5]), weight="Trapezoid")
    op("UniformGrid", "AAA", lambda: [np.array([-1.0, 0.0, 0.5]), np.array([[0.5, 0, 0], [0.1, 0.4, 0], [0, 0.2, 0.3]]), np.array([3, 4, 3])],
       lambda v, cb: sum(([g.points, g.weights] for g in (UniformGrid(v[0], v[1], v[2], weight=w) for w in ("Rectangle", "Trapezoid", "Fourier1", "Alternative"))), []))
    op("UniformGrid.from_molecule", "AA", lambda: [np.array([1, 8, 1]), np.array([[0.0, 0.7, 0.0], [0, 0, 0.1], [0.0, -0.7, 0.0]])],
       lambda v, cb: sum(([g.points, g.weights] for g in (UniformGrid.from_molecule(v[0], v[1], spacing=0.6, extension=1.0, rotate=r) for r in (False, True))), []))

    def cube(v, cb):
        d = os.path.join(os.path.dirname(os.path.dirname(os.path.abspath(__file__))), "gen", "c20files")
        os.makedirs(d, exist_ok=True)
        fn = os.path.join(d, f"t{os.getpid()}.cube")
        v[0].generate_cube(fn, v[1], v[2], v[3], v[4])
        g, dat = UniformGrid.from_cube(fn, return_data=True)
        os.remove(fn)
        return [g.points, dat["data"], dat["atcoords"]]
    op("UniformGrid.generate_cube", "GAAAA", lambda: (lambda g: [g, np.linspace(0, 1, g.size), np.array([[0.0, 0.1, 0.2], [0.5, 0.0, 0.0]]), np.array([1, 8]), np.array([1.0, 6.0])])(ug()), cube)
    op("UniformGrid.interpolate", "GAA", lambda: (lambda g: [g, np.array([[0.1, 0.2, -0.3], [-0.4, 0.3, 0.2]]), np.exp(-np.sum(g.points ** 2, axis=1))])(ug()),
       lambda v, cb: [v[0].interpolate(v[1], v[2]), v[0].interpolate(v[1], v[2], use_log=True), v[0].interpolate(v[1], v[2], nu_x=1), v[0].interpolate(v[1], v[2], method="linear")])
    op("UniformGrid.closest_point+index_maps", "GAA", lambda: [ug(), np.array([0.13, -0.2, 0.4]), np.array([2, 3, 1])],
       lambda v, cb: [np.array(v[0].closest_point(v[1])), np.array(v[0].coordinates_to_index(v[2])), np.array(v[0].index_to_coordinates(17))])
    op("Tensor1DGrids.interpolate", "GAA", lambda: (lambda g: [g, np.array([[0.1, 0.2, -0.3]]), np.exp(-np.sum(g.points ** 2, axis=1))])(Tensor1DGrids(od(5, 1.0), od(6, 1.0), od(5, 1.0))),
       lambda v, cb: [v[0].interpolate(v[1], v[2])])


def _reg_periodic_ngrid():
    from grid.basegrid import OneDGrid
    from grid.ngrid import MultiDomainGrid
    from grid.periodicgrid import PeriodicGrid
    op("PeriodicGrid", "AAA", lambda: [_pts(6, 1) * 2, _w(), np.array([[2.0, 0, 0], [0.3, 2.5, 0]])],
       lambda v, cb: (lambda g: [g.points, g.weights, g.frac_intvls])(PeriodicGrid(v[0], v[1], v[2], wrap=True)))
    op("PeriodicGrid.get_localgrid", "GA", lambda: [PeriodicGrid(_pts(6, 1), _w(), np.array([[2.0, 0, 0], [0.3, 2.5, 0]]), wrap=True), np.array([0.2, 0.1, 0.0])],
       lambda v, cb: (lambda lg: [np.sort(lg.points, axis=0), np.sort(lg.weights)])(v[0].get_localgrid(v[1], 1.7)))
    op("PeriodicGrid.__getitem__", "GA", lambda: [PeriodicGrid(_pts(6, 1), _w(), np.array([[2.0, 0, 0]])), np.array([3, 1])],
       lambda v, cb: (lambda g: [g.points, g.weights])(v[0][v[1]]))
    g1 = lambda: OneDGrid(np.linspace(0, 1, 4), np.ones(4) / 4, (0, 1))  # noqa: E731
    op("MultiDomainGrid.integrate", "L", lambda: [[g1(), g1()]],
       lambda v, cb: [np.array(MultiDomainGrid(v[0]).integrate(lambda x, y: cb.f(np.asarray(y, dtype=float)))),
                      np.array(MultiDomainGrid(v[0]).integrate(lambda x, y: float(cb.f(np.atleast_1d(np.asarray(y, dtype=float)))[0]),
                                                               non_vectorized=True, integration_chunk_size=3))],
       cbs=["fresh", "arg", "cached"])


def _reg_ode():
    from grid.ode import solve_ode_bvp, solve_ode_ivp
    from grid.rtransform import BeckeRTransform, LinearFiniteRTransform  # noqa: F401
    xs = np.linspace(0.0, 1.0, 5)

    def rhs(cb):
        return lambda x: cb.f(x)

    op("solve_ode_ivp[y0 array, order 3, transform]", "LAA", lambda: [[-0.5, 0.5], np.array([0.5, 0.0, 1.0, 2.0]), np.array([1.0, 0.5, -0.25])],
       lambda v, cb: (lambda s: [s(np.linspace(0.6, 1.4, 4))])(solve_ode_ivp(tuple(v[0]), rhs(cb), v[1], v[2], LinearFiniteRTransform(0.0, 2.0), rtol=1e-10, atol=1e-10)),
       cbs=["fresh", "arg"])
    op("solve_ode_ivp", "LAL", lambda: [[0.0, 1.0], np.array([1.0, 0.5, 1.0]), [0.0, 1.0]],
       lambda v, cb: (lambda s: [s(xs)])(solve_ode_ivp(tuple(v[0]), rhs(cb), v[1], v[2], rtol=1e-10, atol=1e-10)),
       cbs=["fresh", "arg", "cached"])
    # special coefficient patterns: no lower-order terms (the explicit form is then f / a_K alone), order 1
    op("solve_ode_ivp[a=(0,0,2)]", "LAL", lambda: [[0.0, 1.0], np.array([0.0, 0.0, 2.0]), [0.0, 1.0]],
       lambda v, cb: (lambda s: [s(xs)])(solve_ode_ivp(tuple(v[0]), rhs(cb), v[1], v[2], rtol=1e-10, atol=1e-10)),
       cbs=["fresh", "arg", "cached"])
    op("solve_ode_ivp[order 1,a=(0,3)]", "LLL", lambda: [[0.0, 1.0], [0, 3.0], [0.5]],
       lambda v, cb: (lambda s: [s(xs)])(solve_ode_ivp(tuple(v[0]), rhs(cb), v[1], v[2], rtol=1e-10, atol=1e-10)),
       cbs=["fresh", "arg", "cached"])
    op("solve_ode_bvp[a=(0,0,2)]", "AAL", lambda: [np.linspace(0.0, 1.0, 12), np.array([0.0, 0.0, 2.0]), [(0, 0, 0.0), (1, 0, 1.0)]],
       lambda v, cb: (lambda s: [s(xs)])(solve_ode_bvp(v[0], rhs(cb), v[1], v[2], tol=1e-8, initial_guess_y=np.zeros((2, 12)))),
       cbs=["fresh", "arg", "cached"])
    op("solve_ode_bvp[order 3,a=(0,0,0,1)]", "AAL", lambda: [np.linspace(0.0, 1.0, 12), np.array([0.0, 0.0, 0.0, 1.0]), [(0, 0, 0.0), (0, 1, 0.0), (1, 0, 1.0)]],
       lambda v, cb: (lambda s: [s(xs)])(solve_ode_bvp(v[0], rhs(cb), v[1], v[2], tol=1e-8, initial_guess_y=np.zeros((3, 12)))),
       cbs=["fresh", "arg", "cached"])
    op("solve_ode_ivp[callable coeffs]", "LL", lambda: [[0.0, 1.0], [0.0, 1.0]],
       lambda v, cb: (lambda s: [s(xs)])(solve_ode_ivp(tuple(v[0]), lambda x: np.cos(x), [lambda x: cb.f(x) + 1.0 if cb.fun() == "ident" else cb.f(x), 0.5, 1.0], v[1], rtol=1e-10, atol=1e-10)),
       cbs=["fresh", "cached"])
    op("solve_ode_ivp[transform]", "LAA", lambda: [[-0.5, 0.5], np.array([1.0, 0.5, 1.0]), np.array([0.0, 1.0])],
       lambda v, cb: (lambda s: [s(np.linspace(0.6, 1.4, 4))])(solve_ode_ivp(tuple(v[0]), rhs(cb), v[1], v[2], LinearFiniteRTransform(0.0, 2.0), rtol=1e-10, atol=1e-10)),
       cbs=["fresh", "arg", "cached"])
    op("solve_ode_bvp", "AAL", lambda: [np.linspace(0.0, 1.0, 12), np.array([1.0, 0.5, 1.0]), [(0, 0, 0.0), (1, 0, 1.0)]],
       lambda v, cb: (lambda s: [s(xs)])(solve_ode_bvp(v[0], rhs(cb), v[1], v[2], tol=1e-8, initial_guess_y=np.zeros((2, 12)))),
       cbs=["fresh", "arg", "cached"])
    op("solve_ode_bvp[guess,transform]", "AALA", lambda: [np.linspace(-0.5, 0.5, 12), np.array([1.0, 0.5, 1.0]), [(0, 0, 0.0), (1, 0, 1.0)], np.zeros((2, 12))],
       lambda v, cb: (lambda s: [s(np.linspace(0.6, 1.4, 4))])(solve_ode_bvp(v[0], rhs(cb), v[1], v[2], LinearFiniteRTransform(0.0, 2.0), tol=1e-8, initial_guess_y=v[3])),
       cbs=["fresh", "arg", "cached"])
    # transformations that hand their argument back unchanged (IdentityRTransform and its inverse wrapper): whatever
    # the solver does to the transformed mesh it does to the caller's mesh
    from grid.rtransform import IdentityRTransform, InverseRTransform
    op("solve_ode_bvp[IdentityRTransform]", "AAL", lambda: [np.linspace(0.0, 1.0, 12), np.array([1.0, 0.5, 1.0]), [(0, 0, 0.0), (1, 0, 1.0)]],
       lambda v, cb: (lambda s: [s(xs)])(solve_ode_bvp(v[0], rhs(cb), v[1], v[2], IdentityRTransform(), tol=1e-8, initial_guess_y=np.zeros((2, 12)))),
       cbs=["fresh", "arg", "cached"])
    op("solve_ode_bvp[Inverse(IdentityRTransform)]", "AAL", lambda: [np.linspace(0.0, 1.0, 12), np.array([1.0, 0.5, 1.0]), [(0, 0, 0.0), (1, 0, 1.0)]],
       lambda v, cb: (lambda s: [s(xs)])(solve_ode_bvp(v[0], rhs(cb), v[1], v[2], InverseRTransform(IdentityRTransform()), tol=1e-8,
                                                      initial_guess_y=np.zeros((2, 12)))),
       cbs=["fresh"])
    op("solve_ode_ivp[IdentityRTransform]", "A", lambda: [np.array([0.25, 2.0])],
       lambda v, cb: (lambda s: [s(xs)])(solve_ode_ivp((0.0, 1.0), rhs(cb), [1.0, 0.5, 1.0], v[0], IdentityRTransform())),
       cbs=["fresh"])


def _reg_poisson():
    from grid.poisson import interpolate_laplacian, solve_poisson_bvp, solve_poisson_ivp
    from grid.robust_poisson import solve_poisson_robust
    from grid.rtransform import BeckeRTransform, InverseRTransform

    def ag():
        from grid.atomgrid import AtomGrid
        from grid.onedgrid import GaussLegendre
        tf = BeckeRTransform(1e-4, 1.5)
        return AtomGrid(tf.transform_1d_grid(GaussLegendre(25)), degrees=[3], center=np.zeros(3)), tf
    pts = lambda: np.array([[0.3, 0.1, -0.2], [1.0, 0.5, 0.5]])  # noqa: E731
    op("solve_poisson_bvp", "GADA", lambda: (lambda g: [g[0], _gauss(g[0].points), {"tol": 1e-5}, pts()])(ag()),
       lambda v, cb: [solve_poisson_bvp(v[0], v[1], InverseRTransform(BeckeRTransform(1e-4, 1.5)), ode_params=v[2])(v[3])], heavy=True)
    op("solve_poisson_ivp", "GADA", lambda: (lambda g: [g[0], _gauss(g[0].points), {"rtol": 1e-7}, pts()])(ag()),
       lambda v, cb: [solve_poisson_ivp(v[0], v[1], InverseRTransform(BeckeRTransform(1e-4, 1.5)), r_interval=(200, 1e-4), ode_params=v[2])(v[3])], heavy=True)
    op("interpolate_laplacian", "GAA", lambda: (lambda g: [g[0], _gauss(g[0].points), pts()])(ag()),
       lambda v, cb: [interpolate_laplacian(v[0], v[1])(v[2])], heavy=True)
    op("solve_poisson_robust", "GAAAA", lambda: (lambda g: [g[0], _gauss(g[0].points) * 8, np.array([8]), np.zeros((1, 3)), pts()])(ag()),
       lambda v, cb: [solve_poisson_robust(v[0], v[1], InverseRTransform(BeckeRTransform(1e-4, 1.5)), v[2], v[3])(v[4])], heavy=True)


def _reg_coulomb_utils():
    import grid.coulomb as co
    import grid.utils as ut
    from grid.basegrid import Grid
    op("coulomb_gaussian_s/p", "A", lambda: [np.array([0.0, 1e-13, 0.5, 2.0, 50.0])],
       lambda v, cb: [co.coulomb_gaussian_s(v[0], 1.3), co.coulomb_gaussian_p(v[0], 0.7), co.coulomb_gaussian_s(v[0], 1.3, False), co.coulomb_gaussian_p(v[0], 0.7, False)])
    op("coulomb_potential", "AAAAAAA", lambda: [_pts(5, 2), _pts(2, 6), np.array([1.0, 0.5]), np.array([0.8, 2.0]), _pts(2, 6), np.array([0.3, 0.2]), np.array([1.1, 0.6])],
       lambda v, cb: [co.coulomb_potential(v[0], v[1], v[2], v[3], v[4], v[5], v[6])], pairs=[(2, 5), (3, 6), (4, 7)])
    th = lambda: np.array([0.0, 0.4, 1.3, 3.0, 5.5])  # noqa: E731
    ph = lambda: np.array([0.1, 0.7, 1.5, 2.2, 3.0])  # noqa: E731
    op("spherical_harmonics", "AA", lambda: [th(), ph()],
       lambda v, cb: [ut.generate_real_spherical_harmonics(4, v[0], v[1]), ut.generate_real_spherical_harmonics_scipy(4, v[0], v[1]),
                      ut.generate_derivative_real_spherical_harmonics(3, v[0], v[1])], pairs=[(1, 2)])
    op("coulomb_potential[normalized=False]", "AAAAAAA", lambda: [_pts(5, 2), _pts(2, 6), np.array([1.0, 0.5]), np.array([0.8, 2.0]), _pts(2, 6), np.array([0.3, 0.2]), np.array([1.1, 0.6])],
       lambda v, cb: [co.coulomb_potential(v[0], v[1], v[2], v[3], v[4], v[5], v[6], normalized=False)], pairs=[(2, 5), (3, 6), (4, 7)])
    op("solid_harmonics[longdouble points]", "A", lambda: [np.column_stack([np.linspace(0.1, 2, 5), th(), ph()]).astype(np.longdouble)],
       lambda v, cb: [ut.solid_harmonics(4, v[0])])
    op("solid_harmonics", "A", lambda: [np.column_stack([np.linspace(0.1, 2, 5), th(), ph()])], lambda v, cb: [ut.solid_harmonics(3, v[0])])
    op("convert_cart_to_sph", "AA", lambda: [_pts(5, 2), np.array([0.1, 0.0, -0.3])], lambda v, cb: [ut.convert_cart_to_sph(v[0], v[1]), ut.convert_cart_to_sph(v[0])])
    op("dipole_moment_of_molecule", "GAAA", lambda: (lambda g: [g, _gauss(g.points), np.array([[0.0, 0, 0], [0, 0, 1.6]]), np.array([1, 8])])(Grid(_pts(9, 5), _w(9))),
       lambda v, cb: [ut.dipole_moment_of_molecule(v[0], v[1], v[2], v[3])])
    op("get_cov_radii", "A", lambda: [np.array([1, 6, 8, 17])], lambda v, cb: [ut.get_cov_radii(v[0]), ut.get_cov_radii(v[0], "cambridge")])


_DONE = False


def load():
    global _DONE
    if not _DONE:
        _q()
        for f in (_reg_basegrid, _reg_rtransform, _reg_atomgrid, _reg_becke, _reg_molgrid, _reg_cubic,
                  _reg_periodic_ngrid, _reg_ode, _reg_poisson, _reg_coulomb_utils):
            f()
        _DONE = True
    return OPS
