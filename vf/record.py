"""External instrumentation of theochem/grid for trace recording (no source patch).

Used as a pytest plugin (``-p vf.record`` with /verif on PYTHONPATH) when the repository's own
test-suite is run under recording, active only when GRID_VERIF=1.  What is recorded is selected
by GRID_VERIF_RECORD (comma list of ``query``, ``angular``, ``frame``); one NDJSON file per
process is written to GRID_VERIF_TRACE_DIR.

 query   - every Grid.get_localgrid call: was the neighbour tree built from the points the grid
           has now (hash at build time vs hash at query time), and does the returned local grid
           hold exactly the parent points within the radius (brute force; points closer than
           1e-9 to the sphere are not judged).
 angular - every AngularGrid construction: contents vs the shipped file loaded independently,
           memory sharing with the cached arrays.
 frame   - every call of a public function / method of the package: byte-wise snapshot of all
           array/list/dict arguments (and arrays inside grid objects passed as arguments)
           before and after.
Events are judged afterwards by TLC (spec/SuiteTrace.tla).
"""
from __future__ import annotations

import functools
import hashlib
import inspect
import json
import os
import types

import numpy as np

_OUT = None
_CUR = {"test": ""}
_DEPTH = {"frame": 0}
_COUNTS = {}


def _emit(ev):
    global _OUT
    if _OUT is None:
        d = os.environ.get("GRID_VERIF_TRACE_DIR", ".")
        os.makedirs(d, exist_ok=True)
        _OUT = open(os.path.join(d, f"events-{os.getpid()}.ndjson"), "a", buffering=1)
    ev["test"] = _CUR["test"]
    _OUT.write(json.dumps(ev) + "\n")


def _h(a):
    """Cheap content fingerprint of an array (runs at memory bandwidth): wrapping 64-bit sum and
    xor of the raw words plus shape/dtype.  An in-place edit that leaves both unchanged would have
    to be adversarial."""
    a = np.ascontiguousarray(a)
    if a.dtype == object or a.size == 0:
        return f"{a.dtype}:{a.shape}"
    raw = a.view(np.uint8).reshape(-1)
    n8 = (raw.size // 8) * 8
    w = raw[:n8].view(np.uint64)
    with np.errstate(over="ignore"):
        s1 = int(w.sum(dtype=np.uint64)) if n8 else 0
        s2 = int(np.bitwise_xor.reduce(w)) if n8 else 0
    tail = bytes(raw[n8:]).hex()
    return f"{a.dtype}:{a.shape}:{s1:x}:{s2:x}:{tail}"


# ---------------------------------------------------------------------------------------------
def _install_query():
    import grid.basegrid as bg
    from scipy.spatial import cKDTree as RealTree

    class StampedTree(RealTree):
        def __init__(self, data, *a, **kw):
            super().__init__(data, *a, **kw)
            self._verif_src = _h(np.asarray(data))

    bg.cKDTree = StampedTree
    orig = bg.Grid.get_localgrid

    @functools.wraps(orig)
    def get_localgrid(self, center, radius):
        exc = ""
        lg = None
        try:
            lg = orig(self, center, radius)
            return lg
        except Exception as ex:
            exc = type(ex).__name__
            raise
        finally:
            try:
                ev = {"ev": "Query", "cls": type(self).__name__, "exc": exc, "fresh": True, "set_ok": True,
                      "pts_ok": True, "wts_ok": True, "n": int(self.size), "nloc": -1}
                if lg is not None:
                    pts = np.asarray(self.points, dtype=float)
                    P = pts.reshape(len(pts), -1)
                    c = np.asarray(center, dtype=float).reshape(-1)
                    d = np.linalg.norm(P - c, axis=1)
                    idx = np.asarray(lg.indices)
                    ev["nloc"] = int(len(idx))
                    if np.isfinite(radius):
                        tree = getattr(self, "_kdtree", None)
                        if tree is not None and hasattr(tree, "_verif_src"):
                            ev["fresh"] = tree._verif_src == _h(P)
                        slack = 1e-9 * (1.0 + float(radius))
                        sure_in = set(np.where(d < radius - slack)[0].tolist())
                        sure_out = set(np.where(d > radius + slack)[0].tolist())
                        got = set(int(i) for i in idx.tolist())
                        ev["set_ok"] = sure_in <= got and not (got & sure_out) and len(got) == len(idx)
                    else:
                        ev["set_ok"] = len(idx) == len(pts) and set(idx.tolist()) == set(range(len(pts)))
                    ev["pts_ok"] = bool(np.array_equal(np.asarray(lg.points), pts[idx]))
                    ev["wts_ok"] = bool(np.array_equal(np.asarray(lg.weights), np.asarray(self.weights)[idx]))
                elif exc in ("ValueError",):
                    ev["exc"] = ""       # documented rejections of bad arguments (tests of error paths)
                    ev["nloc"] = -2
                _emit(ev)
            except Exception as ex2:  # never disturb the test
                _emit({"ev": "RecorderError", "where": "query", "msg": f"{type(ex2).__name__}: {ex2}"[:200]})

    bg.Grid.get_localgrid = get_localgrid


# ---------------------------------------------------------------------------------------------
_SHIP = {}


def _shipped(method, degree, size):
    key = (method, degree)
    if key not in _SHIP:
        from importlib.resources import files
        sub = {"lebedev": "lebedev", "spherical": "spherical_design", "maxdet": "maxdet", "ahrens_beylkin": "ahrens_beylkin"}[method]
        z = np.load(files("grid.data").joinpath(sub).joinpath(f"{method}_{degree}_{size}.npz"))
        p, w = np.array(z["points"], dtype=float), np.array(z["weights"], dtype=float)
        if len(w) == 1:
            w = np.ones(len(p)) * w
        if method in ("lebedev", "spherical"):
            w = w * 4 * np.pi
        _SHIP[key] = (p, w)
    return _SHIP[key]


def _install_angular():
    import grid.angular as ang
    orig = ang.AngularGrid.__init__
    caches = {"lebedev": ang.LEBEDEV_CACHE, "spherical": ang.SPHERICAL_CACHE, "maxdet": ang.MAX_DET_CACHE,
              "ahrens_beylkin": ang.AHRENS_BEYLKIN_CACHE}

    seen = {}     # (m, d) -> [count, fingerprint of the verified cache entry]

    @functools.wraps(orig)
    def init(self, *a, **kw):
        orig(self, *a, **kw)
        try:
            m, d = self.method, int(self.degree)
            ent = caches[m].get(d)
            st = seen.setdefault((m, d), [0, None])
            st[0] += 1
            fp = (_h(ent[0]), _h(ent[1])) if ent is not None else None
            pa = bool(ent is not None and np.shares_memory(self.points, ent[0]))
            wa = bool(ent is not None and np.shares_memory(self.weights, ent[1]))
            full = ent is None or st[0] == 1 or st[0] % 16 == 0 or fp != st[1] or pa or wa
            if not full:
                # the cached arrays are bit-identical to the ones verified before and nothing is shared:
                # compare the instance with the cache entry only (cheap equality), not with the file again
                rawp, raww = ent
                okp = np.array_equal(self.points, rawp)
                okw = np.array_equal(self.weights, raww * 4 * np.pi if m in ("lebedev", "spherical") else raww)
                if okp and okw:
                    _COUNTS["angular.fast"] = _COUNTS.get("angular.fast", 0) + 1
                    return
            p, w = _shipped(m, d, int(self.size))

            def ok(x, y):
                if x.shape != y.shape:
                    return "dirty"
                return "ok" if (np.array_equal(x, y) or np.allclose(x, y, rtol=1e-12, atol=1e-13)) else "dirty"
            clean = True
            if ent is not None:
                rw = w / (4 * np.pi) if m in ("lebedev", "spherical") else w
                clean = ok(np.asarray(ent[0], dtype=float), p) == "ok" and ok(np.asarray(ent[1], dtype=float), rw) == "ok"
                if clean:
                    st[1] = fp
            _emit({"ev": "New", "m": m, "d": d, "p": ok(np.asarray(self.points, dtype=float), p),
                   "w": ok(np.asarray(self.weights, dtype=float), w), "pa": pa, "wa": wa, "clean": bool(clean), "exc": ""})
        except Exception as ex2:
            _emit({"ev": "RecorderError", "where": "angular", "msg": f"{type(ex2).__name__}: {ex2}"[:200]})

    ang.AngularGrid.__init__ = init


# ---------------------------------------------------------------------------------------------
def _buffers(obj, depth=0, out=None, seen=None):
    out = [] if out is None else out
    seen = set() if seen is None else seen
    if id(obj) in seen or depth > 3:
        return out
    seen.add(id(obj))
    if isinstance(obj, np.ndarray):
        out.append(("A", obj))
    elif isinstance(obj, (list, tuple)):
        if isinstance(obj, list):
            out.append(("L", obj))
        for x in obj:
            _buffers(x, depth + 1, out, seen)
    elif isinstance(obj, dict):
        out.append(("D", obj))
        for x in obj.values():
            _buffers(x, depth + 1, out, seen)
    elif hasattr(obj, "__dict__") and type(obj).__module__.startswith("grid."):
        for k, x in vars(obj).items():
            if k in ("_kdtree", "_basis", "_b"):
                continue   # lazily built private caches / set-once scale of the object itself
            if isinstance(x, (np.ndarray, list, dict)) or (hasattr(x, "__dict__") and type(x).__module__.startswith("grid.")):
                _buffers(x, depth + 1, out, seen)
    return out


def _sig(kind, b):
    if kind == "A":
        return _h(b) if b.dtype != object else repr(b.shape)
    if kind == "L":
        return repr([type(x).__name__ if isinstance(x, (np.ndarray, list, dict)) or hasattr(x, "__dict__") else repr(x) for x in b])
    return repr([(repr(k), type(v).__name__ if isinstance(v, (np.ndarray, list, dict)) or hasattr(v, "__dict__") else repr(v)) for k, v in b.items()])


def _wrap_frame(qual, fn, skip_self):
    @functools.wraps(fn)
    def wrapper(*args, **kw):
        if _DEPTH["frame"] > 0:      # only the outermost public call is a "call by the caller"
            return fn(*args, **kw)
        _DEPTH["frame"] += 1
        try:
            callargs = list(args[1:] if skip_self else args) + list(kw.values())
            bufs = []
            for a in callargs:
                _buffers(a, 0, bufs)
            before = [_sig(k, b) for k, b in bufs]
        except Exception:
            bufs, before = [], []
        exc = ""
        try:
            return fn(*args, **kw)
        except Exception as ex:
            msg = str(ex)
            exc = "read-only" if ("read-only" in msg or "not writeable" in msg) else ""
            raise
        finally:
            _DEPTH["frame"] -= 1
            try:
                changed = [k for (k, b), s in zip(bufs, before) if _sig(k, b) != s]
                key = (qual, bool(changed), exc)
                _COUNTS[qual] = _COUNTS.get(qual, 0) + 1
                if changed or exc:
                    _emit({"ev": "Call", "op": qual, "changed": changed, "exc": exc, "nbuf": len(bufs)})
            except Exception as ex2:
                _emit({"ev": "RecorderError", "where": "frame:" + qual, "msg": f"{type(ex2).__name__}: {ex2}"[:200]})
    return wrapper


_FRAME_SKIP = {"points", "weights"}   # property setters: assignment to the receiver is their purpose


def _install_frame():
    import importlib
    mods = ["basegrid", "onedgrid", "rtransform", "angular", "atomgrid", "becke", "hirshfeld", "molgrid", "cubic",
            "periodicgrid", "ngrid", "ode", "poisson", "robust_poisson", "coulomb", "utils"]
    for mn in mods:
        m = importlib.import_module("grid." + mn)
        for name, obj in list(vars(m).items()):
            if getattr(obj, "__module__", None) != m.__name__:
                continue
            if isinstance(obj, types.FunctionType) and not name.startswith("_"):
                setattr(m, name, _wrap_frame(f"{mn}.{name}", obj, False))
            elif inspect.isclass(obj):
                for an, av in list(vars(obj).items()):
                    if an.startswith("_") and an not in ("__init__", "__call__", "__getitem__"):
                        continue
                    if an in _FRAME_SKIP:
                        continue
                    if isinstance(av, types.FunctionType):
                        setattr(obj, an, _wrap_frame(f"{mn}.{name}.{an}", av, True))
                    elif isinstance(av, staticmethod):
                        setattr(obj, an, staticmethod(_wrap_frame(f"{mn}.{name}.{an}", av.__func__, False)))
                    elif isinstance(av, classmethod):
                        setattr(obj, an, classmethod(_wrap_frame(f"{mn}.{name}.{an}", av.__func__, True)))
    # names imported into other modules / the package namespace at import time keep the old
    # function objects; rebind them
    import grid
    pkgmods = [importlib.import_module("grid." + mn) for mn in mods] + [grid]
    for mn in mods:
        m = importlib.import_module("grid." + mn)
        for name, obj in vars(m).items():
            if hasattr(obj, "__wrapped__") and isinstance(obj, types.FunctionType):
                for other in pkgmods:
                    if other is not m and vars(other).get(name) is obj.__wrapped__:
                        setattr(other, name, obj)


# ---------------------------------------------------------------------------------------------
def pytest_configure(config):
    if os.environ.get("GRID_VERIF") != "1":
        return
    what = [w for w in os.environ.get("GRID_VERIF_RECORD", "").split(",") if w]
    if "query" in what:
        _install_query()
    if "angular" in what:
        _install_angular()
    if "frame" in what:
        _install_frame()


def pytest_runtest_setup(item):
    _CUR["test"] = item.nodeid


def pytest_sessionfinish(session, exitstatus):
    if os.environ.get("GRID_VERIF") == "1" and _COUNTS:
        _emit({"ev": "CallCounts", "counts": _COUNTS})
    if _OUT is not None:
        _OUT.flush()


def run_suite(trace_dir, record, tests=None, workers=12, timeout=1500):
    """Run (part of) the repository's test-suite under recording; returns (events, pytest summary)."""
    import glob
    import subprocess
    os.makedirs(trace_dir, exist_ok=True)
    for f in glob.glob(os.path.join(trace_dir, "events-*.ndjson")):
        os.remove(f)
    env = dict(os.environ)
    env.pop("PYTHONWARNINGS", None)     # some repository tests count the warnings they provoke
    env.update({"GRID_VERIF": "1", "GRID_VERIF_RECORD": record, "GRID_VERIF_TRACE_DIR": str(trace_dir),
                "PYTHONPATH": "/verif:/repo/src", "PYTHONHASHSEED": "0"})
    cmd = ["/venv/bin/python", "-m", "pytest", "-q", "-rf", "-p", "no:cacheprovider", "-p", "vf.record", "--timeout=900",
           "-n", str(workers)] + (tests or ["src/grid/tests"])
    p = subprocess.run(cmd, cwd="/repo", env=env, capture_output=True, text=True, timeout=timeout)
    lines = (p.stdout or "").strip().splitlines()
    tail = lines[-1:] or [""]
    failed = [ln[:200] for ln in lines if ln.startswith("FAILED")]
    if failed:
        tail = [tail[0] + " | " + "; ".join(failed[:8])]
    events = []
    for f in sorted(glob.glob(os.path.join(trace_dir, "events-*.ndjson"))):
        with open(f) as fh:
            for line in fh:
                line = line.strip()
                if line:
                    events.append(json.loads(line))
    return events, tail[0], p.returncode


def judge_suite(rep, wd, record, tests, label, workers=8, timeout=2400):
    """Run part of the repository's test-suite under recording and let TLC judge the events
    (spec/SuiteTrace.tla).  Violations are reported on ``rep`` with keys ``suite:<label>:...``."""
    from . import tlc
    events, tail, rc = run_suite(wd / "suite-events", record, tests=tests, workers=workers, timeout=timeout)
    errs = [e for e in events if e["ev"] == "RecorderError"]
    if errs:
        raise tlc.MachineryError(f"recorder failed: {errs[0]}")
    if " passed" not in tail or " failed" in tail or " error" in tail:
        # the repository's tests themselves fail on this tree: not this property's verdict, but say so
        rep.set(f"suite_{label}_pytest", tail)
    judged = [e for e in events if e["ev"] in ("Query", "New", "Call")]
    counts = {}
    for e in events:
        if e["ev"] == "CallCounts":
            for k, v in e["counts"].items():
                counts[k] = counts.get(k, 0) + v
    rep.set(f"suite_{label}", {"pytest": tail, "events_judged": len(judged), "public_calls_snapshotted": sum(counts.values()),
                               "distinct_public_callables": len(counts)})
    if not judged:
        return 0
    with open(wd / "suite_events.json", "w") as f:
        json.dump(judged, f)
    res = tlc.run_tlc("SuiteTrace", "Trace_Suite.cfg", wd, workers=1, timeout=1500, xmx="8g").require_ok("SuiteTrace")
    rep.tlc(res, f"SuiteTrace[{label}]")
    done = tlc.tagged(res.stdout, "JUDGED")
    if not done or done[0][1] != len(judged):
        raise tlc.MachineryError(f"SuiteTrace judged {done} of {len(judged)} events")
    seen = set()
    for _, pos, ev, clause in tlc.tagged(res.stdout, "REJECT"):
        e = judged[pos - 1]
        what = e.get("op") or e.get("cls") or f"{e.get('m')}:{e.get('d')}"
        key = f"suite:{label}:{what}:{clause}"
        if key in seen:
            continue
        seen.add(key)
        rep.violation(key, f"while the repository test {e.get('test')} ran: {ev} event of {what}: {clause}; event {json.dumps(e)[:400]}",
                      {"event": e})
    rep.evaluated(len(judged), ("suite", label))
    return len(judged)
