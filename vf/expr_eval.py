"""Generic evaluator for the expression trees of spec/Expr.tla (as serialised by ToJson).

The evaluator knows nothing about theochem/grid.  Modes:
  "fraction" - exact, only for the rational fragment (c, v, neg, add, sub, mul, div, powi, sum, abs)
  "mp"       - mpmath with 50 significant digits
  "float"    - Python floats (math module)
``evaluate`` returns the value; ``evaluate_mag`` additionally returns an estimate of the
magnitude of the largest intermediate term (for conditioning-aware tolerances).
"""
from __future__ import annotations

import math
from fractions import Fraction

try:
    import mpmath as mp
    mp.mp.dps = 50
except Exception:  # pragma: no cover
    mp = None


def _num(n, d, mode):
    if mode == "fraction":
        return Fraction(int(n), int(d))
    if mode == "mp":
        return mp.mpf(int(n)) / mp.mpf(int(d))
    return int(n) / int(d)


def _conv(v, mode):
    if mode == "fraction":
        return v if isinstance(v, Fraction) else Fraction(v)
    if mode == "mp":
        if isinstance(v, Fraction):
            return mp.mpf(v.numerator) / mp.mpf(v.denominator)
        return mp.mpf(v)
    return float(v)


_UN_MP = lambda: {  # noqa: E731
    "sqrt": mp.sqrt, "exp": mp.exp, "log": mp.log, "sin": mp.sin, "cos": mp.cos, "tan": mp.tan,
    "sinh": mp.sinh, "cosh": mp.cosh, "tanh": mp.tanh, "asinh": mp.asinh, "asin": mp.asin,
    "acos": mp.acos, "atan": mp.atan, "erf": mp.erf, "abs": abs,
}
_UN_FL = {
    "sqrt": math.sqrt, "exp": math.exp, "log": math.log, "sin": math.sin, "cos": math.cos, "tan": math.tan,
    "sinh": math.sinh, "cosh": math.cosh, "tanh": math.tanh, "asinh": math.asinh, "asin": math.asin,
    "acos": math.acos, "atan": math.atan, "erf": math.erf, "abs": abs,
}


def evaluate(e, env=None, mode="mp"):
    return evaluate_mag(e, env, mode)[0]


def evaluate_mag(e, env=None, mode="mp"):
    """Return (value, magnitude) where magnitude >= |value| estimates the size of the largest
    term met while evaluating sums (a proxy for cancellation)."""
    env = {} if env is None else {k: _conv(v, mode) for k, v in env.items()}
    un = _UN_MP() if mode == "mp" else _UN_FL

    def ev(t, env):
        op = t["op"]
        if op == "c":
            v = _num(t["n"], t["d"], mode)
            return v, abs(v)
        if op == "v":
            v = env[t["name"]]
            return v, abs(v)
        if op == "pi":
            if mode == "fraction":
                raise ValueError("pi is not rational")
            v = mp.pi if mode == "mp" else math.pi
            return +v, abs(v)
        if op == "neg":
            v, m = ev(t["a"], env)
            return -v, m
        if op in ("add", "sub"):
            a, ma = ev(t["a"], env)
            b, mb = ev(t["b"], env)
            v = a + b if op == "add" else a - b
            return v, max(ma, mb, abs(v))
        if op == "mul":
            a, ma = ev(t["a"], env)
            b, mb = ev(t["b"], env)
            return a * b, ma * mb
        if op == "div":
            a, ma = ev(t["a"], env)
            b, mb = ev(t["b"], env)
            v = a / b
            return v, (ma / abs(b)) * (mb / abs(b)) if b != 0 else abs(v)
        if op == "powi":
            a, ma = ev(t["a"], env)
            k = int(t["k"])
            if mode == "fraction":
                v = Fraction(1) / a ** (-k) if k < 0 else a ** k
            else:
                v = a ** k
            return v, max(abs(v), ma ** k if k >= 0 else abs(v))
        if op == "pow":
            if mode == "fraction":
                raise ValueError("real power is not rational")
            a, ma = ev(t["a"], env)
            b, mb = ev(t["b"], env)
            v = a ** b
            return v, abs(v)
        if op == "sum":
            tot = _conv(0, mode)
            mag = 0
            for i in range(int(t["lo"]), int(t["hi"]) + 1):
                env2 = dict(env)
                env2[t["idx"]] = _conv(i, mode)
                v, m = ev(t["a"], env2)
                tot = tot + v
                mag = max(mag, m, abs(tot))
            return tot, mag
        if op in un:
            if mode == "fraction" and op != "abs":
                raise ValueError(f"{op} is not rational")
            a, ma = ev(t["a"], env)
            v = un[op](a)
            return v, abs(v)
        raise ValueError(f"unknown node {op!r}")

    return ev(e, env)


def close(observed: float, expected, mag=None, rtol=1e-9, atol=0.0) -> tuple[bool, float]:
    """Tolerance policy of DESIGN.md section 4: |obs - exp| <= max(rtol*|exp|, 64 eps * mag, atol).
    Returns (ok, error)."""
    exp = float(expected)
    err = abs(float(observed) - exp)
    if math.isnan(err):
        return False, float("nan")
    if math.isinf(exp) or math.isinf(float(observed)):
        return float(observed) == exp, err
    tol = max(rtol * abs(exp), atol)
    if mag is not None:
        tol = max(tol, 64 * 2.220446049250313e-16 * float(mag))
    return err <= tol, err
