"""Extensions of the generic tree evaluator (vf/expr_eval.py) used by C01.

Still generic: nothing here knows about theochem/grid.
  * ``evaluate_x`` / ``evaluate_mag_x``: like expr_eval.evaluate(_mag) but additionally
    understand the unary leaf-like node ``gamma`` (Euler's Gamma function), which the shared
    evaluator does not have.  Gamma sub-trees must not depend on summation indices; they are
    evaluated first and substituted by fresh variables.
  * ``evaluate_np``: evaluates a tree on NumPy arrays (float64), vectorised over the
    environment entries; used where the same spec tree has to be applied to thousands of
    float arguments (weight functions, test functions).
"""
from __future__ import annotations

import math

import numpy as np

from . import expr_eval

try:
    import mpmath as mp
except Exception:  # pragma: no cover
    mp = None


def _lift_gamma(t, env, mode, acc):
    if isinstance(t, dict):
        if t.get("op") == "gamma":
            arg = evaluate_x(t["a"], env, mode)
            if mode == "mp":
                val = mp.gamma(arg)
            elif mode == "float":
                val = math.gamma(arg)
            else:
                raise ValueError("gamma is not rational")
            name = f"__gamma{len(acc)}"
            acc[name] = val
            return {"op": "v", "name": name}
        return {k: _lift_gamma(v, env, mode, acc) for k, v in t.items()}
    return t


def evaluate_mag_x(tree, env=None, mode="mp"):
    env = dict(env or {})
    acc = {}
    t2 = _lift_gamma(tree, env, mode, acc)
    env.update(acc)
    return expr_eval.evaluate_mag(t2, env, mode)


def evaluate_x(tree, env=None, mode="mp"):
    return evaluate_mag_x(tree, env, mode)[0]


_NP_UN = {
    "sqrt": np.sqrt, "exp": np.exp, "log": np.log, "sin": np.sin, "cos": np.cos, "tan": np.tan,
    "sinh": np.sinh, "cosh": np.cosh, "tanh": np.tanh, "asinh": np.arcsinh, "asin": np.arcsin,
    "acos": np.arccos, "atan": np.arctan, "abs": np.abs,
}


def evaluate_np(tree, env):
    """Evaluate ``tree`` with NumPy float64 semantics; env values are scalars or arrays that
    broadcast against each other."""
    def ev(t, env):
        op = t["op"]
        if op == "c":
            return int(t["n"]) / int(t["d"])
        if op == "v":
            return env[t["name"]]
        if op == "pi":
            return math.pi
        if op == "neg":
            return -ev(t["a"], env)
        if op == "add":
            return ev(t["a"], env) + ev(t["b"], env)
        if op == "sub":
            return ev(t["a"], env) - ev(t["b"], env)
        if op == "mul":
            return ev(t["a"], env) * ev(t["b"], env)
        if op == "div":
            return ev(t["a"], env) / ev(t["b"], env)
        if op == "powi":
            return ev(t["a"], env) ** int(t["k"])
        if op == "pow":
            return np.power(ev(t["a"], env), ev(t["b"], env))
        if op == "gamma":
            return math.gamma(float(ev(t["a"], env)))
        if op == "sum":
            tot = 0.0
            for i in range(int(t["lo"]), int(t["hi"]) + 1):
                e2 = dict(env)
                e2[t["idx"]] = float(i)
                tot = tot + ev(t["a"], e2)
            return tot
        if op in _NP_UN:
            return _NP_UN[op](ev(t["a"], env))
        raise ValueError(f"unknown node {op!r}")

    with np.errstate(all="ignore"):
        return ev(tree, env)
