"""In-process source-level mutants of library functions (selftests only; /repo is never edited).

``mutate(owner, name, old, new)`` re-compiles the source of ``owner.name`` (owner = class or
module) with one textual replacement inside the defining module's globals, installs the result
and returns the original object for restoring with ``setattr(owner, name, original)``.
Mutants installed before a ``fork`` pool is created are inherited by the workers.
"""
from __future__ import annotations

import inspect
import sys
import textwrap


class MutantError(RuntimeError):
    pass


def mutate(owner, name, old, new, count=1):
    orig = owner.__dict__[name]
    fn = orig.fget if isinstance(orig, property) else orig
    src = textwrap.dedent(inspect.getsource(fn))
    if src.count(old) != count:
        raise MutantError(f"{old!r} occurs {src.count(old)} times in {getattr(owner, '__name__', owner)}.{name}")
    src = src.replace(old, new)
    if inspect.isclass(owner):
        bases = owner.__bases__
        if bases and bases[0] is not object:
            src = src.replace("super().", f"super({owner.__name__}, self).")
        # drop decorators (@property etc.): re-applied below
        lines = src.splitlines()
        while lines and lines[0].lstrip().startswith("@"):
            lines.pop(0)
        src = "\n".join(lines)
    modname = owner.__module__ if inspect.isclass(owner) else owner.__name__
    ns: dict = {}
    exec(compile(src, f"<mutant {name}>", "exec"), vars(sys.modules[modname]), ns)
    f = ns[fn.__name__]
    setattr(owner, name, property(f) if isinstance(orig, property) else f)
    return orig
