"""Vectorised (numpy, float64) evaluator for the expression trees of spec/Expr.tla.

Same grammar and semantics as vf/expr_eval.py (which is the trusted scalar evaluator); this one
only exists to evaluate spec-emitted densities on whole grids at once.  It knows nothing about
theochem/grid.  ``selfcheck`` compares it with expr_eval on sample points.
"""
from __future__ import annotations

import numpy as np
from scipy import special

from .expr_eval import evaluate as _scalar_eval

_UN = {
    "sqrt": np.sqrt, "exp": np.exp, "log": np.log, "sin": np.sin, "cos": np.cos, "tan": np.tan,
    "sinh": np.sinh, "cosh": np.cosh, "tanh": np.tanh, "asinh": np.arcsinh, "asin": np.arcsin,
    "acos": np.arccos, "atan": np.arctan, "erf": special.erf, "abs": np.abs,
}


def np_eval(t, env):
    op = t["op"]
    if op == "c":
        return int(t["n"]) / int(t["d"])
    if op == "v":
        return env[t["name"]]
    if op == "pi":
        return np.pi
    if op == "neg":
        return -np_eval(t["a"], env)
    if op == "add":
        return np_eval(t["a"], env) + np_eval(t["b"], env)
    if op == "sub":
        return np_eval(t["a"], env) - np_eval(t["b"], env)
    if op == "mul":
        return np_eval(t["a"], env) * np_eval(t["b"], env)
    if op == "div":
        return np_eval(t["a"], env) / np_eval(t["b"], env)
    if op == "powi":
        a = np_eval(t["a"], env)
        k = int(t["k"])
        return a ** k if k >= 0 else 1.0 / a ** (-k)
    if op == "pow":
        return np_eval(t["a"], env) ** np_eval(t["b"], env)
    if op == "sum":
        tot = 0.0
        for i in range(int(t["lo"]), int(t["hi"]) + 1):
            e2 = dict(env)
            e2[t["idx"]] = float(i)
            tot = tot + np_eval(t["a"], e2)
        return tot
    if op in _UN:
        return _UN[op](np_eval(t["a"], env))
    raise ValueError(f"unknown node {op!r}")


def selfcheck(tree, env_arrays, n=5, rtol=1e-11):
    """max relative deviation between this evaluator and the 50-digit one on the first n points"""
    vals = np.atleast_1d(np.asarray(np_eval(tree, env_arrays), dtype=float))
    worst = 0.0
    size = max(np.size(v) for v in env_arrays.values())
    for i in range(min(n, size)):
        env = {k: (float(np.ravel(v)[i]) if np.size(v) > 1 else float(np.ravel(v)[0])) for k, v in env_arrays.items()}
        ref = float(_scalar_eval(tree, env, "mp"))
        got = float(vals[i] if vals.size > 1 else vals[0])
        worst = max(worst, abs(got - ref) / max(abs(ref), 1e-300))
    return worst
