"""Command line of the framework: ./check <id> --tier quick|thorough [--replay f] [--selftest]."""
from __future__ import annotations

import argparse
import importlib
import os
import sys
import traceback

from . import tlc


def setup() -> int:
    """Offline build step: syntax-check every specification with SANY."""
    d = tlc.scratch("setup")
    import shutil
    n = 0
    bad = []
    for f in sorted(tlc.SPEC.glob("*.tla")):
        shutil.copy(f, d / f.name)
    for f in sorted(d.glob("*.tla")):
        if f.name.startswith("Trace_") or f.name.startswith("Gen_"):
            continue  # need generated companions; checked when they run
        try:
            tlc.sany(f)
            n += 1
        except tlc.MachineryError as e:
            txt = str(e)
            if "Cannot find source file for module" in txt:
                continue  # depends on a module generated at check time
            bad.append(f.name)
            print(f"setup: WARNING SANY rejects {f.name} (reported again by the check that uses it):\n{txt[-600:]}")
    print(f"setup: {n} specification modules parsed by SANY, {len(bad)} rejected {bad}")
    return 0


def main(argv=None) -> int:
    ap = argparse.ArgumentParser()
    ap.add_argument("prop", nargs="?")
    ap.add_argument("--tier", default=os.environ.get("VERIF_TIER", "quick"), choices=["quick", "thorough"])
    ap.add_argument("--replay")
    ap.add_argument("--selftest", action="store_true")
    ap.add_argument("--setup", action="store_true")
    a = ap.parse_args(argv)
    if a.setup:
        return setup()
    if not a.prop:
        ap.error("property id required")
    try:
        mod = importlib.import_module(f"vf.props.{a.prop.lower()}")
    except ModuleNotFoundError:
        print(f"no check for {a.prop}", file=sys.stderr)
        return 2
    try:
        if a.selftest:
            return int(mod.selftest(a.tier))
        if a.replay:
            return int(mod.replay(a.replay))
        return int(mod.run(a.tier))
    except tlc.MachineryError as e:
        print(f"MACHINERY-FAILURE {a.prop}: {e}", file=sys.stderr)
        return 2
    except Exception:
        traceback.print_exc()
        print(f"MACHINERY-FAILURE {a.prop}: unexpected exception in the harness", file=sys.stderr)
        return 2


if __name__ == "__main__":
    sys.exit(main())
