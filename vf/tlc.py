"""Thin driver around TLC / SANY / pcal.

Every model-checking run of the framework goes through :func:`run_tlc`.  The function
never raises on a property violation: it returns a :class:`TlcResult` whose ``status`` is
one of ``ok`` (no error found), ``violation`` (an invariant / property / assumption /
postcondition failed or a deadlock was found) or ``error`` (TLC could not evaluate the
spec, timeout, crash).  Callers map ``error`` to exit status 2 (machinery failure).
"""
from __future__ import annotations

import json
import os
import re
import shutil
import subprocess
import time
from dataclasses import dataclass, field
from pathlib import Path

ROOT = Path(__file__).resolve().parent.parent
SPEC = ROOT / "spec"
GEN = ROOT / "gen"
JAR = "/opt/veriftools/tla/tla2tools.jar"
DEPS = "/opt/veriftools/tla/CommunityModules-deps.jar"


class MachineryError(RuntimeError):
    """Raised when a tool (not the checked code) fails."""


@dataclass
class TlcResult:
    status: str  # ok | violation | error
    generated: int = 0
    distinct: int = 0
    depth: int = 0
    wall_s: float = 0.0
    violated: list = field(default_factory=list)  # names of violated invariants/properties
    prints: list = field(default_factory=list)  # PrintT payload lines (raw strings)
    coverage: dict = field(default_factory=dict)  # action name -> (distinct, taken)
    stdout: str = ""
    cmd: str = ""
    trace: list = field(default_factory=list)  # counterexample states (raw text blocks)

    def require_ok(self, what=""):
        if self.status == "error":
            raise MachineryError(f"TLC failed ({what}): {self.cmd}\n{self.stdout[-4000:]}")
        return self


_RE_STATES = re.compile(r"(\d+) states generated, (\d+) distinct states found, (\d+) states left")
_RE_DEPTH = re.compile(r"The depth of the complete state graph search is (\d+)")
_RE_INV = re.compile(r"Invariant (\S+) is violated")
_RE_PROP = re.compile(r"(?:Action property|Temporal properties?) (?:(\S+) )?(?:is|were) violated")
_RE_COV = re.compile(r"^<(\w+) line \d+, col \d+ to line \d+, col \d+ of module (\w+)>: (\d+):(\d+)", re.M)


def scratch(name: str) -> Path:
    """Fresh scratch directory under /verif/gen (never /tmp)."""
    d = GEN / name
    if d.exists():
        shutil.rmtree(d, ignore_errors=True)
    d.mkdir(parents=True, exist_ok=True)
    return d


def _java(workdir: Path, extra_cp=()):
    cp = ":".join([JAR, DEPS, str(SPEC), *map(str, extra_cp)])
    return ["java", "-XX:+UseParallelGC", "-Xss64m", "-cp", cp]


def run_tlc(
    module: str,
    cfg: str | Path,
    workdir: Path,
    *,
    workers: int | str = 16,
    timeout: int = 900,
    env: dict | None = None,
    simulate: str | None = None,
    depth: int | None = None,
    seed: int | None = None,
    coverage: bool = False,
    deadlock: bool = False,
    extra_modules: tuple = (),
    java_props: tuple = (),
    xmx: str = "8g",
) -> TlcResult:
    """Run TLC on ``module`` (a .tla in /verif/spec or in ``workdir``) with config ``cfg``.

    The module and every spec file are copied into ``workdir`` so that TLC's metadir and any
    generated files stay under /verif/gen.
    """
    workdir.mkdir(parents=True, exist_ok=True)
    for f in SPEC.glob("*.tla"):
        shutil.copy(f, workdir / f.name)
    for f in extra_modules:
        f = Path(f)
        if f.parent != workdir:
            shutil.copy(f, workdir / f.name)
    cfg = Path(cfg)
    if not cfg.is_absolute():
        cfg = SPEC / cfg
    if cfg.parent != workdir:
        shutil.copy(cfg, workdir / cfg.name)
    meta = workdir / ("meta_" + cfg.stem)
    if meta.exists():
        shutil.rmtree(meta, ignore_errors=True)
    cmd = ["java", "-XX:+UseParallelGC", "-Xss64m", f"-Xmx{xmx}"]
    cmd += [f"-D{p}" for p in java_props]
    cmd += ["-cp", ":".join([JAR, DEPS]), "tlc2.TLC"]
    cmd += ["-workers", str(workers), "-metadir", str(meta), "-noGenerateSpecTE", "-config", cfg.name]
    if not deadlock:
        cmd += ["-deadlock"]  # -deadlock switches deadlock checking OFF
    if coverage:
        cmd += ["-coverage", "1"]
    if simulate is not None:
        cmd += ["-simulate", simulate]
    if depth is not None:
        cmd += ["-depth", str(depth)]
    if seed is not None:
        cmd += ["-seed", str(seed)]
    cmd += [module]
    e = dict(os.environ)
    e.pop("JAVA_TOOL_OPTIONS", None)
    if env:
        e.update({k: str(v) for k, v in env.items()})
    t0 = time.time()
    # the timeouts in the property modules were chosen on an otherwise idle machine (10-100 x the observed run time);
    # a machine shared with other jobs (load 100-300 was seen while building) can eat that margin: a timeout is a
    # machinery failure, never a verdict, so it only needs to bound a hang
    timeout = int(timeout * float(os.environ.get("VERIF_TLC_TIMEOUT_FACTOR", "4")))
    try:
        p = subprocess.run(cmd, cwd=workdir, env=e, capture_output=True, text=True, timeout=timeout)
        out = p.stdout + ("\n" + p.stderr if p.stderr.strip() else "")
        rc = p.returncode
    except subprocess.TimeoutExpired as ex:
        out = (ex.stdout or b"").decode("utf8", "replace") if isinstance(ex.stdout, bytes) else (ex.stdout or "")
        out += "\nTIMEOUT"
        rc = -9
        subprocess.run(["pkill", "-f", str(meta)], check=False)
    wall = time.time() - t0
    shutil.rmtree(meta, ignore_errors=True)
    res = TlcResult(status="error", wall_s=wall, stdout=out, cmd=" ".join(cmd))
    ms = _RE_STATES.findall(out)
    if ms:
        res.generated, res.distinct = int(ms[-1][0]), int(ms[-1][1])
    md = _RE_DEPTH.search(out)
    if md:
        res.depth = int(md.group(1))
    res.violated = _RE_INV.findall(out)
    res.violated += re.findall(r"The invariant of (\S+) is equal to FALSE", out)
    for m in _RE_PROP.finditer(out):
        res.violated.append(m.group(1) or "TemporalProperty")
    if "Assumption" in out and "is false" in out:
        res.violated.append("ASSUME")
    if "Deadlock reached" in out:
        res.violated.append("Deadlock")
    if re.search(r"Evaluating the post-?condition.*failed|Post-?condition.*violated", out, re.I | re.S):
        res.violated.append("POSTCONDITION")
    res.prints = [l for l in out.splitlines() if l.startswith('"') or l.startswith("<<") or l.startswith("[")]
    if coverage:
        for m in _RE_COV.finditer(out):
            res.coverage[m.group(1)] = (int(m.group(3)), int(m.group(4)))
    if res.violated:
        res.status = "violation"
        res.trace = re.findall(r"^State \d+:.*?(?=^State \d+:|\Z|^\d+ states generated)", out, re.M | re.S)
    elif rc == 0 and ("Model checking completed. No error has been found" in out or
                      (simulate is not None and "Error" not in out)):
        res.status = "ok"
    elif simulate is not None and rc == 0:
        res.status = "ok"
    else:
        res.status = "error"
    return res


def sany(module: Path) -> None:
    p = subprocess.run(
        ["java", "-cp", ":".join([JAR, DEPS]), "tla2sany.SANY", module.name],
        cwd=module.parent, capture_output=True, text=True, timeout=300)
    if p.returncode != 0 or "Semantic errors" in p.stdout or "***Parse Error***" in p.stdout or "Fatal" in p.stdout:
        raise MachineryError(f"SANY rejected {module}:\n{p.stdout[-3000:]}")


def pcal(module: Path) -> None:
    p = subprocess.run(["java", "-cp", JAR, "pcal.trans", "-nocfg", module.name],
                       cwd=module.parent, capture_output=True, text=True, timeout=300)
    if p.returncode != 0:
        raise MachineryError(f"pcal failed on {module}:\n{p.stdout[-3000:]}")


# ---------------------------------------------------------------------------------------------
# TLA+ value <-> Python helpers (for generating constant modules and parsing PrintT output)

def tla(v) -> str:
    """Render a Python value as a TLA+ expression (ints, bools, str, list/tuple -> sequence,
    set/frozenset -> set, dict -> record if keys are identifiers else function)."""
    if isinstance(v, bool):
        return "TRUE" if v else "FALSE"
    if isinstance(v, int):
        return str(v) if v >= 0 else f"(-{-v})"
    if isinstance(v, str):
        return json.dumps(v)
    if isinstance(v, (list, tuple)):
        return "<<" + ", ".join(tla(x) for x in v) + ">>"
    if isinstance(v, (set, frozenset)):
        return "{" + ", ".join(tla(x) for x in sorted(v, key=repr)) + "}"
    if isinstance(v, dict):
        if not v:
            return "<<>>"
        if all(isinstance(k, str) and re.fullmatch(r"[A-Za-z_][A-Za-z0-9_]*", k) for k in v):
            return "[" + ", ".join(f"{k} |-> {tla(x)}" for k, x in v.items()) + "]"
        return "(" + " @@ ".join(f"({tla(k)} :> {tla(x)})" for k, x in v.items()) + ")"
    # numpy ints etc.
    try:
        return tla(int(v))
    except Exception:
        raise TypeError(f"cannot render {v!r} as TLA+")


def read_ndjson(path: Path) -> list:
    out = []
    with open(path) as f:
        for line in f:
            line = line.strip()
            if line:
                out.append(json.loads(line))
    return out


# ---------------------------------------------------------------------------------------------
# Parser for TLA+ values as printed by TLC (PrintT payloads, counterexample states)

class _P:
    def __init__(self, s, i=0):
        self.s, self.i = s, i

    def ws(self):
        while self.i < len(self.s) and self.s[self.i] in " \t\r\n":
            self.i += 1

    def peek(self, t):
        self.ws()
        return self.s.startswith(t, self.i)

    def eat(self, t):
        self.ws()
        if not self.s.startswith(t, self.i):
            raise ValueError(f"expected {t!r} at {self.i}: {self.s[self.i:self.i+40]!r}")
        self.i += len(t)

    def value(self):
        self.ws()
        s = self.s
        if self.peek("<<"):
            self.eat("<<")
            out = []
            if self.peek(">>"):
                self.eat(">>")
                return out
            while True:
                out.append(self.value())
                if self.peek(","):
                    self.eat(",")
                    continue
                self.eat(">>")
                return out
        if self.peek("{"):
            self.eat("{")
            out = []
            if self.peek("}"):
                self.eat("}")
                return out
            while True:
                out.append(self.value())
                if self.peek(","):
                    self.eat(",")
                    continue
                self.eat("}")
                return out
        if self.peek("["):
            self.eat("[")
            out = {}
            while True:
                self.ws()
                m = re.compile(r"[A-Za-z_][A-Za-z0-9_]*").match(s, self.i)
                key = m.group(0)
                self.i = m.end()
                self.eat("|->")
                out[key] = self.value()
                if self.peek(","):
                    self.eat(",")
                    continue
                self.eat("]")
                return out
        if self.peek("("):  # function printed as (k :> v @@ k :> v)
            self.eat("(")
            out = {}
            while True:
                k = self.value()
                self.eat(":>")
                out[k if not isinstance(k, list) else tuple(k)] = self.value()
                if self.peek("@@"):
                    self.eat("@@")
                    continue
                self.eat(")")
                return out
        if self.peek('"'):
            m = re.compile(r'"((?:[^"\\]|\\.)*)"').match(s, self.i)
            self.i = m.end()
            return json.loads(m.group(0))
        m = re.compile(r"-?\d+").match(s, self.i)
        if m:
            self.i = m.end()
            return int(m.group(0))
        m = re.compile(r"[A-Za-z_][A-Za-z0-9_]*").match(s, self.i)
        if m:
            self.i = m.end()
            w = m.group(0)
            return {"TRUE": True, "FALSE": False}.get(w, w)
        raise ValueError(f"cannot parse TLA+ value at {self.i}: {s[self.i:self.i+40]!r}")


def parse_value(text: str):
    p = _P(text)
    v = p.value()
    return v


def tagged(stdout: str, tag: str) -> list:
    """All PrintT payloads of the form <<"tag", ...>> found in TLC's output (robust against
    interleaving of lines from several workers: found by bracket matching)."""
    out = []
    pat = re.compile(r'<<\s*"' + re.escape(tag) + '"')
    i = 0
    while True:
        m = pat.search(stdout, i)
        if not m:
            break
        p = _P(stdout, m.start())
        try:
            out.append(p.value())
            i = p.i
        except Exception:
            i = m.end()
    return out


def last_state(res: TlcResult) -> dict:
    """Variables of the last state of TLC's counterexample, parsed."""
    if not res.trace:
        return {}
    blk = res.trace[-1]
    out = {}
    for m in re.finditer(r"^(?:/\\ )?(\w+) = (.*?)(?=^/\\ \w+ = |\Z)", blk.split("\n", 1)[1] if "\n" in blk else "", re.M | re.S):
        try:
            out[m.group(1)] = parse_value(m.group(2).strip())
        except Exception:
            out[m.group(1)] = m.group(2).strip()
    return out
