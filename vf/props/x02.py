"""X02 - small table laws and round trips beyond the twenty listed properties (DESIGN.md section 11, items 2, 3, 5, 6, 7).

Specification modules: spec/TableLaws.tla (persistence key tables, BeckeRTransform.find_parameter median rule, default
radial grid table, covalent-radius tables), spec/DomainAlg.tla (OneDGrid domain validation, selection, transformed /
inverse / composed / round-trip domains as an algebra over extended rationals), spec/GenRestart.tla (+ Gen / Trace:
MultiDomainGrid generator handles as a state machine).

Flow
 (d) TLC checks GenRestart exhaustively (2 x 3 nodes, <= 2 / 3 live handles), refutes the shared-iterator variant, reaches
     the witness; enumerates every behaviour of length 5 / 6; the harness replays them (plus VERIF_SEED-random long ones)
     on real MultiDomainGrid objects of six shapes and TLC (GenRestartTrace) judges every recorded event.
 (a, c, e) TLC enumerates the cases of TableLaws (class x variant of save; arrays x rmin x radius of find_parameter; Z x
     route of the default radial grid; type x Z x route of get_cov_radii) while checking the table laws on the constants
     generated from /repo at check time; the harness runs every case on the real code; a second TLC run judges each
     observation against Expected(case).
 (b) the same two-run scheme for DomainAlg (constructor validation, selection, transform, inverse, round trip, composition).
Python only builds objects, calls the library and encodes what it sees as integers / strings; every verdict is TLC's.

Measured (unchanged tree): snapped domain ends deviate <= 6e-16 (relative) from the model's rationals, snap threshold
1e-11, distinct model values (denominator <= 4096, magnitude <= 1000) differ by >= 6e-8; round-trip points deviate
<= 4e-16 and weights <= 7e-16 (thresholds 1e-9 / 1e-8); default radial grid end points / (table value) deviate 0 ppb from
the Angstrom-to-Bohr factor 1.889726126 (threshold 50 ppb; a missing conversion is 9e8 ppb).
"""
from __future__ import annotations

import json
import os
import random
import warnings
from fractions import Fraction

import numpy as np

from .. import tlc
from ..evidence import Report

PROP = "X02"
WORKERS = 4


# ============================================================================================
# (d) MultiDomainGrid generators
# ============================================================================================

def _md_configs():
    from grid.basegrid import Grid, OneDGrid
    from grid.ngrid import MultiDomainGrid

    def g1(n, primes):
        return Grid(np.arange(n, dtype=float) * 1.5 - 1.0, np.array(primes[:n], dtype=float))

    def g3(n, primes):
        p = np.array([[i, 2 * i + 1, -i] for i in range(n)], dtype=float)
        return Grid(p, np.array(primes[:n], dtype=float))

    def od(n, primes):
        return OneDGrid(np.arange(n, dtype=float) + 0.25, np.array(primes[:n], dtype=float), (0, np.inf))

    A, B, C = [2, 3, 5], [7, 11, 13], [17, 19, 23]
    return {
        "one": lambda: (MultiDomainGrid([g1(2, A)]), [g1(2, A)]),
        "two": lambda: (lambda a, b: (MultiDomainGrid([a, b]), [a, b]))(od(2, A), g3(3, B)),
        "rep2": lambda: (lambda a: (MultiDomainGrid([a], num_domains=2), [a, a]))(g3(3, B)),
        "rep3": lambda: (lambda a: (MultiDomainGrid([a], num_domains=3), [a, a, a]))(g1(2, C)),
        "three": lambda: (lambda a, b, c: (MultiDomainGrid([a, b, c]), [a, b, c]))(g1(2, A), g3(1, B), od(2, C)),
        "rep1": lambda: (lambda a: (MultiDomainGrid([a], num_domains=1), [a]))(g1(3, C)),
    }


def _index_in(grid, pt):
    P = np.asarray(grid.points)
    pt = np.asarray(pt)
    for i in range(len(P)):
        if P[i].shape == pt.shape and np.array_equal(P[i], pt):
            return i
    return 777777


def _as_int(x):
    try:
        x = float(x)
    except Exception:
        return -777777
    return int(x) if np.isfinite(x) and x.is_integer() and abs(x) < 2e9 else -777777


class MDDriver:
    def __init__(self, cname):
        self.cname = cname
        with warnings.catch_warnings():
            warnings.simplefilter("ignore")
            self.obj, self.doms = _md_configs()[cname]()
        self.handles = []
        self.events = [{"ev": "New", "cfg": cname, "sizes": [int(d.size) for d in self.doms],
                        "wts": [[_as_int(w) for w in d.weights] for d in self.doms]}]

    @staticmethod
    def _blank(ev):
        return {"ev": ev, "kind": "", "g": 0, "out": "", "idx": [], "val": 0, "isnew": True, "route": ""}

    def newgen(self, kind):
        e = self._blank("NewGen")
        e["kind"], e["g"] = kind, len(self.handles) + 1
        try:
            h = self.obj.points if kind == "p" else self.obj.weights
            e["isnew"] = all(h is not o for _, o in self.handles)
            self.handles.append((kind, h))
        except Exception as ex:
            e["out"] = type(ex).__name__
            self.handles.append((kind, iter(())))
        self.events.append(e)

    def step(self, g):
        if not (1 <= g <= len(self.handles)):
            return
        kind, h = self.handles[g - 1]
        e = self._blank("Step")
        e["g"] = g
        try:
            item = next(h)
            e["out"] = "item"
            if kind == "p":
                e["idx"] = [_index_in(d, p) for d, p in zip(self.doms, item)] if len(item) == len(self.doms) else [888888]
            else:
                e["val"] = _as_int(item)
        except StopIteration:
            e["out"] = "stop"
        except Exception as ex:
            e["out"] = type(ex).__name__
        self.events.append(e)

    def size(self):
        e = self._blank("Size")
        try:
            e["val"] = _as_int(self.obj.size)
        except Exception as ex:
            e["out"] = type(ex).__name__
        self.events.append(e)

    def integrate(self, route):
        e = self._blank("Integrate")
        e["route"] = route
        try:
            with warnings.catch_warnings():
                warnings.simplefilter("ignore")
                if route == "vec":
                    v = self.obj.integrate(lambda *a: np.ones(len(a[-1])))
                else:
                    v = self.obj.integrate(lambda *a: 1.0, non_vectorized=True, integration_chunk_size=3)
            e["val"] = _as_int(v)
        except Exception as ex:
            e["out"] = type(ex).__name__
        self.events.append(e)

    def run(self, beh):
        for act, a in beh:
            if act == "N":
                self.newgen("pw"[a - 1])
            elif act == "S":
                self.step(a)
            elif act == "Z":
                self.size()
            elif act == "I":
                self.integrate(("vec", "nonvec")[a - 1])
        return self.events


def _md_random_beh(rng, length):
    out, n = [], 0
    for _ in range(length):
        x = rng.random()
        if n == 0 or (x < 0.15 and n < 5):
            out.append(("N", rng.randint(1, 2)))
            n += 1
        elif x < 0.85:
            out.append(("S", rng.randint(1, n)))
        elif x < 0.92:
            out.append(("Z", 0))
        else:
            out.append(("I", rng.randint(1, 2)))
    return out


def _md_validate(rep, wd, traces, meta):
    with open(wd / "traces_x02d.json", "w") as f:
        json.dump(traces, f)
    res = tlc.run_tlc("GenRestartTrace", "Trace_GenRestart.cfg", wd, workers=1, timeout=900).require_ok("Trace_GenRestart")
    rep.tlc(res, "Trace_GenRestart")
    acc = tlc.tagged(res.stdout, "ACCEPT")
    rej = tlc.tagged(res.stdout, "REJECT")
    if res.status == "violation":
        st = tlc.last_state(res)
        tid = st.get("gt_tid", 0)
        cname, beh = meta[tid - 1] if 0 < tid <= len(meta) else ("?", [])
        rep.violation(f"gen:{cname}:spec-invariant:{','.join(res.violated)}",
                      f"MultiDomainGrid ({cname}): invariant {res.violated} of GenRestart fails while replaying a recorded trace",
                      {"part": "gen", "cfg": cname, "behaviour": beh})
    for _, tid, pos, evname, clause in rej:
        cname, beh = meta[tid - 1]
        ev = traces[tid - 1][pos - 1]
        rep.violation(f"gen:{cname}:{evname}:{clause}",
                      f"MultiDomainGrid ({cname}): event {pos - 1} ({evname}) of the recorded trace is not allowed by GenRestart: "
                      f"{clause}; event {json.dumps(ev)}; behaviour {beh[:pos - 1]}",
                      {"part": "gen", "cfg": cname, "behaviour": beh, "position": pos - 1, "event": ev})
    if res.status == "ok" and len(acc) + len(rej) != len(traces):
        raise tlc.MachineryError(f"X02 gen: {len(acc)}+{len(rej)} verdicts for {len(traces)} traces")
    return len(acc)


def _part_gen(rep, wd, tier, rng):
    quick = tier == "quick"
    res = tlc.run_tlc("MC_GenRestart", "MC_GenRestart_quick.cfg" if quick else "MC_GenRestart.cfg", wd, workers=WORKERS,
                      coverage=True).require_ok("MC_GenRestart")
    rep.tlc(res, "MC_GenRestart")
    if res.status == "violation":
        rep.violation("gen:model:" + ",".join(res.violated), f"GenRestart violates its own invariants {res.violated}", tlc.last_state(res))
    for act in ("NewGen", "Step", "Size", "Integrate"):
        if res.coverage.get(act, (0, 0))[1] == 0:
            raise tlc.MachineryError(f"vacuity: action {act} never taken in MC_GenRestart")
    for cfg in ("MC_GenRestart_Shared.cfg", "MC_GenRestart_Shared2.cfg", "MC_GenRestart_Witness.cfg"):
        r2 = tlc.run_tlc("MC_GenRestart", cfg, wd, workers=2).require_ok(cfg)
        if r2.status != "violation":
            raise tlc.MachineryError(f"vacuity: {cfg} must be refuted / reached (shared-iterator variant, witness)")
    rep.set("shared_iterator_variant_refuted", True)
    rg = tlc.run_tlc("GenRestartGen", "Gen_GenRestart.cfg" if quick else "Gen_GenRestart_thorough.cfg", wd, workers=WORKERS,
                     timeout=900).require_ok("Gen_GenRestart")
    rep.tlc(rg, "Gen_GenRestart")
    if rg.status == "violation":
        rep.violation("gen:model:gen:" + ",".join(rg.violated), f"GenRestartGen violates {rg.violated}", tlc.last_state(rg))
    behs = sorted(b[1] for b in tlc.tagged(rg.stdout, "BEH"))
    if len(behs) < 500:
        raise tlc.MachineryError(f"X02 gen: only {len(behs)} behaviours generated")
    rep.set("gen_behaviours", len(behs))
    cfgs = sorted(_md_configs())
    traces, meta = [], []
    pick = behs if not quick else rng.sample(behs, min(len(behs), 1500))
    for bi, beh in enumerate(pick):
        for j in range(1 if quick else 2):
            cname = cfgs[(bi + j) % len(cfgs)]
            traces.append(MDDriver(cname).run(beh))
            meta.append((cname, beh))
    for k in range(150 if quick else 1500):
        cname = cfgs[k % len(cfgs)]
        beh = _md_random_beh(rng, rng.randint(6, 40))
        traces.append(MDDriver(cname).run(beh))
        meta.append((cname, beh))
    nstop = sum(1 for t in traces for e in t[1:] if e["ev"] == "Step" and e["out"] == "stop")
    nint = sum(1 for t in traces for e in t[1:] if e["ev"] == "Integrate")
    if nstop == 0 or nint == 0:
        raise tlc.MachineryError("vacuity: no replayed behaviour exhausted a generator / integrated")
    for (cname, beh), t in zip(meta, traces):
        rep.evaluated(len(t) - 1, ("gen", cname, json.dumps(beh)))
    nacc = _md_validate(rep, wd, traces, meta)
    rep.set("gen_traces", len(traces))
    rep.set("gen_traces_accepted", nacc)
    rep.set("gen_exhaustions_replayed", nstop)
    rep.sample({"part": "gen", "cfg": meta[0][0], "behaviour": meta[0][1], "events": traces[0][:4]})
    rep.sample({"part": "gen", "cfg": meta[-1][0], "behaviour": meta[-1][1][:8], "events": traces[-1][:3]})
    return len(traces)


# ============================================================================================
# encoding helpers shared by the table / domain parts
# ============================================================================================

SNAP_DEN = 4096
SNAP_TOL = 1e-11


def enc_ext(x):
    """A float as an extended rational of the models: ["q", n, d] (snapped), "inf", "-inf", "big" (=1e16, the library's
    trimmed infinity), "nan", or "other"."""
    try:
        x = float(x)
    except Exception:
        return ["other", 0, 1]
    if x != x:
        return ["nan", 0, 1]
    if x == np.inf:
        return ["inf", 0, 1]
    if x == -np.inf:
        return ["-inf", 0, 1]
    if x == 1e16:
        return ["big", 0, 1]
    f = Fraction(x).limit_denominator(SNAP_DEN)
    if abs(float(f) - x) <= SNAP_TOL * max(1.0, abs(x)) and abs(f.numerator) < 10 ** 8:
        return ["q", int(f.numerator), int(f.denominator)]
    return ["other", 0, 1]


def _bits_equal(a, b):
    a, b = np.asarray(a), np.asarray(b)
    return a.shape == b.shape and a.dtype == b.dtype and a.tobytes() == b.tobytes()


# ============================================================================================
# (a) persistence, (c) find_parameter / default radial grids, (e) covalent radii  -- TableLaws.tla
# ============================================================================================

def _tables():
    """Constants of TableLaws generated from the code under test."""
    import grid.utils as u

    def sci(v):
        m, e = f"{float(v):.8e}".split("e")
        return [int(m.replace(".", "")), int(e) - 8]

    cov = {}
    for name in ("bragg", "cambridge", "alvarez"):
        arr = np.asarray(getattr(u, "_" + name), dtype=float)
        cov[name] = [-1 if v != v else int(round(v * 1e8)) for v in arr.tolist()]
    rg = []
    for z, (rmin, rmax, npt) in u._DEFAULT_POWER_RTRANSFORM_PARAMS.items():
        rg.append([int(z)] + sci(rmin) + sci(rmax) + [int(npt)])
    return {"cov": cov, "rgrid": rg}, dict(u._DEFAULT_POWER_RTRANSFORM_PARAMS)


def _save_object(cls, variant, nat, rng):
    """Object of a save case (small, with VERIF_SEED-dependent content)."""
    from grid.angular import AngularGrid
    from grid.atomgrid import AtomGrid
    from grid.basegrid import Grid, LocalGrid, OneDGrid
    from grid.becke import BeckeWeights
    from grid.cubic import Tensor1DGrids, UniformGrid
    from grid.molgrid import MolGrid
    from grid.onedgrid import GaussLegendre
    from grid.periodicgrid import PeriodicGrid

    n = rng.randint(3, 7)
    r = np.random.default_rng(rng.randrange(10 ** 9))

    def rgrid(k=None):
        k = k or rng.randint(2, 4)
        return OneDGrid(np.sort(r.uniform(0.1, 3.0, k)), r.uniform(0.1, 1.0, k), (0, np.inf))

    def od(k):
        return OneDGrid(np.sort(r.uniform(-1, 1, k)), r.uniform(0.1, 1.0, k), (-1, 1))

    if cls == "Grid":
        d = {"1d": (n,), "2d": (n, 2), "3d": (n, 3)}[variant]
        return Grid(r.normal(size=d), r.uniform(0.1, 1, n))
    if cls == "OneDGrid":
        if variant == "rule":
            return GaussLegendre(n)
        return OneDGrid(np.sort(r.uniform(-1, 1, n)), r.uniform(0.1, 1, n), (-1.5, 1.5) if variant == "dom" else None)
    if cls == "LocalGrid":
        if variant == "idx":
            return LocalGrid(r.normal(size=(n, 3)), r.uniform(0.1, 1, n), r.normal(size=3), r.permutation(n + 4)[:n])
        if variant == "1d":
            return LocalGrid(r.normal(size=n), r.uniform(0.1, 1, n), np.float64(0.25), np.arange(n))
        g = Grid(r.normal(size=(4 * n, 3)), r.uniform(0.1, 1, 4 * n))
        return g.get_localgrid(np.zeros(3), 1.0)
    if cls == "AngularGrid":
        return AngularGrid(degree=rng.choice([3, 5, 7])) if variant == "deg" else AngularGrid(size=rng.choice([6, 14, 20]), method="lebedev")
    if cls == "AtomGrid":
        if variant == "uniform":
            return AtomGrid(rgrid(), degrees=[rng.choice([3, 5])], center=r.normal(size=3))
        if variant == "pruned":
            return AtomGrid.from_pruned(rgrid(4), 1.0, r_sectors=[0.5, 1.5], d_sectors=[3, 7, 5], center=r.normal(size=3))
        if variant == "rotated":
            return AtomGrid(rgrid(), degrees=[5], center=r.normal(size=3), rotate=rng.randint(1, 50), method="spherical")
        return AtomGrid.from_preset(rng.choice([1, 6, 8]), "coarse", rgrid(5))
    if cls == "MolGrid":
        ats = [AtomGrid(rgrid(2), degrees=[3], center=np.array([0.0, 0.0, 1.5 * a]) + 0.1 * r.normal(size=3)) for a in range(nat)]
        return MolGrid(np.array([1, 8, 6][:nat]), ats, BeckeWeights(order=3), store=(variant == "store"))
    if cls == "PeriodicGrid":
        p = r.uniform(0, 1, size=(n, 3))
        return PeriodicGrid(p, r.uniform(0.1, 1, n)) if variant == "nolattice" else \
            PeriodicGrid(p, r.uniform(0.1, 1, n), np.array([[2.0, 0, 0], [0, 2.0, 0.5]]))
    if cls == "Tensor1DGrids":
        return Tensor1DGrids(od(2), od(3)) if variant == "2d" else Tensor1DGrids(od(2), od(3), od(2))
    if cls == "UniformGrid":
        if variant == "2d":
            return UniformGrid(r.normal(size=2), np.array([[1.0, 0.1], [0.0, 0.5]]), np.array([2, 3]), weight="Rectangle")
        return UniformGrid(r.normal(size=3), np.array([[1.0, 0, 0], [0.2, 0.5, 0], [0, 0, 0.7]]), np.array([2, 3, 2]))
    raise tlc.MachineryError(f"X02: no builder for save case {cls}/{variant}")


def _attr_paths(obj):
    """Public data attributes of a grid object, one nesting level into grids / lists of grids: path -> value."""
    from grid.basegrid import Grid
    out = {}

    def walk(o, prefix, depth):
        for name in dir(type(o)):
            if name.startswith("_"):
                continue
            try:
                if not isinstance(getattr(type(o), name, None), property):
                    continue
                v = getattr(o, name)
            except Exception:
                continue
            path = prefix + name
            if isinstance(v, Grid):
                if depth < 2:
                    walk(v, path + ".", depth + 1)
            elif isinstance(v, (list, tuple)) and v and all(isinstance(x, Grid) for x in v):
                if depth < 2:
                    for i, x in enumerate(v):
                        walk(x, f"{path}[{i}].", depth + 1)
            elif v is not None and not callable(v) and not hasattr(v, "__next__"):
                out[path] = v
    walk(obj, "", 0)
    return out


def _obs_save(case, rng, wd):
    from grid.basegrid import Grid, LocalGrid
    out = {"exc": "", "file": "", "keys": [], "match": {}, "reint": True, "rebuilt": True}
    cls, variant, nat = case["cls"], case["variant"], case["z"]
    with warnings.catch_warnings():
        warnings.simplefilter("ignore")
        obj = _save_object(cls, variant, nat, rng)      # a failure to BUILD the object is not this part's subject
    d = wd / "save"
    d.mkdir(exist_ok=True)
    stem = f"{cls}_{variant}_{nat}_{case['p1']}"
    name = d / (stem if case["p1"] == 1 else stem + ".npz")
    for f in d.glob(stem + "*"):
        f.unlink()
    try:
        with warnings.catch_warnings():
            warnings.simplefilter("ignore")
            obj.save(str(name))
    except Exception as ex:
        out["exc"] = type(ex).__name__
        return out, None
    left = sorted(f.name for f in d.glob(stem + "*"))
    out["file"] = "exact" if left == [name.name] else "appended" if left == [name.name + ".npz"] else "other:" + ",".join(left)
    try:
        z = np.load(d / left[0])
        data = {k: z[k] for k in z.files}
    except Exception as ex:
        out["exc"] = "load:" + type(ex).__name__
        return out, None
    out["keys"] = sorted(data)
    attrs = _attr_paths(obj)
    for k, arr in data.items():
        out["match"][k] = sorted(p for p, v in attrs.items() if _bits_equal(arr, v))
    # a plain Grid rebuilt from the file integrates bit-identically
    try:
        f = np.random.default_rng(rng.randrange(10 ** 9)).normal(size=obj.size)
        g2 = Grid(data["points"], data["weights"])
        out["reint"] = bool(np.float64(g2.integrate(f)).tobytes() == np.float64(obj.integrate(f)).tobytes())
        if cls == "LocalGrid" and {"center", "indices"} <= set(data):
            l2 = LocalGrid(data["points"], data["weights"], data["center"], data["indices"])
            out["rebuilt"] = bool(_bits_equal(l2.indices, obj.indices) and _bits_equal(l2.center, obj.center)
                                  and _bits_equal(l2.points, obj.points))
        if cls == "AtomGrid" and variant != "rotated" and {"rgrid_pts", "rgrid_weights", "degrees", "center", "method"} <= set(data):
            from grid.atomgrid import AtomGrid
            from grid.basegrid import OneDGrid
            a2 = AtomGrid(OneDGrid(data["rgrid_pts"], data["rgrid_weights"], (0, np.inf)), degrees=data["degrees"].tolist(),
                          center=data["center"], method=str(data["method"]))
            out["rebuilt"] = bool(_bits_equal(a2.points, obj.points) and _bits_equal(a2.weights, obj.weights)
                                  and _bits_equal(a2.indices, obj.indices))
    except Exception as ex:
        out["reint"] = False
        out["exc"] = "rebuild:" + type(ex).__name__
    return out, {"keys": out["keys"]}


def _obs_fp(case):
    from grid.rtransform import BeckeRTransform
    out = {"exc": "", "r": ["other", 0, 1]}
    arr = np.array(case["arr"], dtype=float) / 4.0
    try:
        with warnings.catch_warnings():
            warnings.simplefilter("ignore")
            v = BeckeRTransform.find_parameter(arr, case["p1"] / 4.0, case["p2"] / 4.0)
        out["r"] = enc_ext(v)
    except Exception as ex:
        out["exc"] = type(ex).__name__
    return out


def _ppb(x):
    x = float(x)
    if not np.isfinite(x):
        return -1
    return int(min(max(round(x * 1e9), -2 * 10 ** 9), 2 * 10 ** 9))


def _obs_rgrid(case, params):
    from grid.atomgrid import AtomGrid
    from grid.molgrid import MolGrid, _generate_default_rgrid
    z, route = case["z"], case["cls"]
    out = {"exc": "", "npt": 0, "lo": 0, "hi": 0, "asc": True}
    try:
        with warnings.catch_warnings():
            warnings.simplefilter("ignore")
            if route == "gen":
                rg = _generate_default_rgrid(z)
            elif route == "atom":
                rg = AtomGrid.from_preset(z, "coarse", rgrid=None).rgrid
            else:
                rg = MolGrid.from_preset(np.array([z]), np.array([[0.0, 0.5, 0.0]]), "coarse", rgrid=None, store=True).atgrids[0].rgrid
    except Exception as ex:
        out["exc"] = type(ex).__name__
        return out
    p = np.asarray(rg.points, dtype=float)
    out["npt"] = int(rg.size)
    out["asc"] = bool(np.all(np.diff(p) > 0))
    if z in params:
        out["lo"] = _ppb(p[0] / params[z][0])
        out["hi"] = _ppb(p[-1] / params[z][1])
    return out


def _obs_cov(case):
    import grid.utils as u
    z, typ, route = case["z"], case["cls"], case["variant"]
    arg = {"int": int(z), "npint": np.int64(z), "array": np.array([z, 1]), "list": [z]}[route]
    out = {"exc": "", "vals": [], "fresh": True}

    def enc(a):
        return [-1 if v != v else _as_int(round(v * 1e8)) for v in np.asarray(a, dtype=float).ravel().tolist()]
    try:
        with warnings.catch_warnings():
            warnings.simplefilter("ignore")
            v = u.get_cov_radii(arg, typ)
            out["vals"] = enc(v)
            # scribbling over the result must not reach the table
            v[...] = -5.0
            out["fresh"] = enc(u.get_cov_radii(arg, typ)) == out["vals"]
    except Exception as ex:
        out["exc"] = type(ex).__name__
    return out


def _cases_from(res, tag="CASE"):
    return [t[1] for t in tlc.tagged(res.stdout, tag)]


def _judge(rep, wd, module, cfg, obs, obsfile, label, describe):
    """Second TLC run: judge the recorded observations; returns {(part, class): count}."""
    with open(wd / obsfile, "w") as f:
        json.dump(obs, f)
    res = tlc.run_tlc(module, cfg, wd, workers=1, timeout=1200).require_ok(label)
    rep.tlc(res, label)
    if res.status == "violation":
        st = tlc.last_state(res)
        rep.violation(f"{label}:spec-invariant:{','.join(res.violated)}",
                      f"{module}: invariant {res.violated} fails on a judged observation; state {st}", st)
    for t in tlc.tagged(res.stdout, "MISMATCH"):
        idx, part, clause = t[1], t[2], t[3]
        case, out = obs[idx - 1]["case"], obs[idx - 1]["out"]
        key, what = describe(case, out, clause)
        rep.violation(key, what, {"part": part, "case": case, "observed": out, "clause": clause})
    tally = {}
    for t in tlc.tagged(res.stdout, "COV"):
        tally[(t[1], t[2])] = tally.get((t[1], t[2]), 0) + 1
    if res.status == "ok" and sum(tally.values()) != len(obs):
        raise tlc.MachineryError(f"{label}: {sum(tally.values())} verdicts for {len(obs)} observations")
    return tally


def _describe_table(case, out, clause):
    part = case["part"]
    if part == "save":
        key = f"save:{case['cls']}:{case['variant']}:nat={case['z']}:{clause}"
        what = (f"{case['cls']} ({case['variant']}, {case['z']} atoms).save(...): {clause}; keys in the file {out['keys']}, "
                f"exception {out['exc']!r}, file {out['file']!r}")
    elif part == "fp":
        key = f"fp:n={len(case['arr'])}:{clause}"
        what = (f"BeckeRTransform.find_parameter(array={[a / 4 for a in case['arr']]}, rmin={case['p1'] / 4}, radius={case['p2'] / 4}): "
                f"{clause}; observed {out}")
    elif part == "rgrid":
        key = f"rgrid:{case['cls']}:Z={case['z']}:{clause}"
        what = f"default radial grid for Z={case['z']} through route {case['cls']}: {clause}; observed {out}"
    else:
        key = f"cov:{case['cls']}:{case['variant']}:Z={case['z']}:{clause}"
        what = f"get_cov_radii({case['variant']} {case['z']}, {case['cls']!r}): {clause}; observed {out}"
    return key, what


TABLE_CLASSES = {("save", c) for c in ("Grid", "OneDGrid", "LocalGrid", "AngularGrid", "AtomGrid", "MolGrid", "PeriodicGrid",
                                       "Tensor1DGrids", "UniformGrid")} | \
    {("fp", c) for c in ("odd", "even", "reject")} | \
    {("rgrid", r + s) for r in ("gen", "atom", "mol") for s in (":listed", ":unlisted")} | \
    {("cov", c) for c in ("badtype", "zero", "bragg:novalue", "bragg:value", "cambridge:value", "alvarez:value")}


def _part_tables(rep, wd, tier, rng):
    quick = tier == "quick"
    tabs, params = _tables()
    with open(wd / "x02_tables.json", "w") as f:
        json.dump(tabs, f)
    with open(wd / "x02_obs.json", "w") as f:
        json.dump([], f)
    rg = tlc.run_tlc("TableLaws", "Gen_TableLaws.cfg", wd, workers=WORKERS, timeout=900).require_ok("Gen_TableLaws")
    rep.tlc(rg, "Gen_TableLaws")
    if rg.status == "violation":
        st = tlc.last_state(rg)
        rep.violation("tables:law:" + ",".join(rg.violated),
                      f"TableLaws: law(s) {rg.violated} fail on the tables generated from the code (grid.utils) / the case {st.get('tl_cur')}", st)
    cases = _cases_from(rg)
    if len(cases) < 1500 and rg.status == "ok":
        raise tlc.MachineryError(f"X02 tables: only {len(cases)} cases enumerated")
    cases.sort(key=lambda c: json.dumps(c, sort_keys=True))
    obs = []
    for c in cases:
        part = c["part"]
        if part == "save":
            for rnd in range(1 if quick else 4):
                o, _ = _obs_save(c, rng, wd)
                obs.append({"case": c, "out": o})
        elif part == "fp":
            obs.append({"case": c, "out": _obs_fp(c)})
        elif part == "rgrid":
            if quick and c["cls"] != "gen" and rng.random() > 0.35:
                continue
            obs.append({"case": c, "out": _obs_rgrid(c, params)})
        elif part == "cov":
            if quick and c["variant"] in ("npint", "list") and rng.random() > 0.3:
                continue
            obs.append({"case": c, "out": _obs_cov(c)})
    tally = _judge(rep, wd, "TableLaws", "Judge_TableLaws.cfg", obs, "x02_obs.json", "Judge_TableLaws", _describe_table)
    missing = sorted(k for k in TABLE_CLASSES if tally.get(k, 0) == 0)
    if missing and rg.status == "ok":
        raise tlc.MachineryError(f"vacuity: no judged observation in case classes {missing}")
    for o in obs:
        rep.evaluated(1, ("tab", json.dumps(o["case"], sort_keys=True)))
    rep.set("table_cases_enumerated", len(cases))
    rep.set("table_observations_judged", len(obs))
    rep.set("table_case_classes", {f"{a}:{b}": n for (a, b), n in sorted(tally.items())})
    for part in ("save", "fp", "rgrid", "cov"):
        o = next((x for x in obs if x["case"]["part"] == part), None)
        if o:
            rep.sample({"part": part, "case": o["case"], "observed": {k: v for k, v in o["out"].items() if k != "match"}})
    return len(obs)


# ============================================================================================
# (b) OneDGrid domain algebra  -- DomainAlg.tla
# ============================================================================================

def _ext_float(e):
    k = e[0]
    return {"inf": np.inf, "-inf": -np.inf, "big": 1e16}.get(k, None) if k != "q" else e[1] / e[2]


def _make_tf(t):
    import grid.rtransform as rt
    c, r0, r1, kk, b = t["cls"], float(t["r0"]), float(t["r1"]), t["kk"], t["bn"] / t["bd"]
    if c == "Identity":
        return rt.IdentityRTransform()
    if c == "LinearFinite":
        return rt.LinearFiniteRTransform(r0, r1)
    if c == "Becke":
        return rt.BeckeRTransform(r0, r1, trim_inf=t["trim"])
    if c == "Handy":
        return rt.HandyRTransform(r0, r1, kk, trim_inf=t["trim"])
    if c == "HandyMod":
        return rt.HandyModRTransform(r0, r1, kk, trim_inf=t["trim"])
    if c == "LinearInfinite":
        return rt.LinearInfiniteRTransform(r0, r1, b=b)
    if c == "Exp":
        return rt.ExpRTransform(r0, r1, b=b)
    if c == "Power":
        return rt.PowerRTransform(r0, r1, b=b)
    if c == "Hyperbolic":
        return rt.HyperbolicRTransform(r0, b)
    if c == "MultiExp":
        return rt.MultiExpRTransform(r0, r1, trim_inf=t["trim"])
    if c == "Knowles":
        return rt.KnowlesRTransform(r0, r1, kk, trim_inf=t["trim"])
    raise tlc.MachineryError(f"X02: no builder for transformation {t}")


def _grid_on(lo, hi, rng):
    """A three-point OneDGrid strictly inside (lo, hi) (infinite ends replaced by a finite stand-in for the points)."""
    from grid.basegrid import OneDGrid
    a = lo if np.isfinite(lo) else (min(hi, 0.0) - 6.0 if np.isfinite(hi) else -3.0)
    b = hi if np.isfinite(hi) and hi < 1e15 else a + 6.0
    fr = sorted(rng.uniform(0.15, 0.85) for _ in range(3))
    pts = np.array([a + f * (b - a) for f in fr])
    return OneDGrid(pts, np.array([rng.uniform(0.2, 1.5) for _ in range(3)]), (lo, hi))


def _enc_dom(g):
    d = g.domain
    if d is None:
        return []
    return [enc_ext(d[0]), enc_ext(d[1])]


def _obs_domain(case, rng):
    from grid.basegrid import OneDGrid
    from grid.rtransform import InverseRTransform
    out = {"exc1": "", "exc2": "", "dom": [], "typ": "OneDGrid", "ptsok": True, "wtsok": True}
    kind = case["kind"]
    with warnings.catch_warnings():
        warnings.simplefilter("ignore")
        np.seterr(all="ignore")
        if kind == "new":
            lo, hi, bl, ol, bh, oh = case["aux"]
            f = lambda v: np.inf if v >= 1000 else -np.inf if v <= -1000 else float(v)  # noqa: E731
            mn, mx = bl + ol * 5e-8, bh + oh * 5e-8
            pts = np.array([mn]) if (bl, ol) == (bh, oh) else np.array([mx, mn, 0.5 * (mn + mx)])
            dom = {"none": None, "pair": (f(lo), f(hi)), "triple": (f(lo), f(hi), f(hi) + 1.0), "single": (f(lo),)}[case["sel"]]
            try:
                g = OneDGrid(pts, np.ones(len(pts)), dom)
                out["dom"], out["typ"] = _enc_dom(g), type(g).__name__
                out["ptsok"] = bool(np.array_equal(g.points, pts))
            except Exception as ex:
                out["exc1"] = type(ex).__name__
            return out
        if kind == "getitem":
            dom = None if case["lo"][0] == "undef" else (_ext_float(case["lo"]), _ext_float(case["hi"]))
            pts = np.array([-0.5, -0.25, 0.0, 0.5, 0.75]) + (1.0 if dom and dom[0] == 0 else 0.0)
            g = OneDGrid(pts, np.arange(1.0, 6.0), dom)
            sel = {"int": 2, "negint": -1, "npint": np.int64(1), "slice": slice(1, 4), "step": slice(None, None, 2),
                   "array": np.array([3, 0, 3]), "mask": np.array([True, False, False, True, True])}[case["sel"]]
            try:
                s = g[sel]
                out["dom"], out["typ"] = _enc_dom(s), type(s).__name__
                out["ptsok"] = bool(np.array_equal(np.atleast_1d(pts[sel]), s.points))
                out["wtsok"] = bool(np.array_equal(np.atleast_1d(g.weights[sel]), s.weights))
            except Exception as ex:
                out["exc1"] = type(ex).__name__
            return out
        g = _grid_on(_ext_float(case["lo"]), _ext_float(case["hi"]), rng)
        tf = _make_tf(case["t1"])
        first = InverseRTransform(tf) if kind == "inv" else tf
        try:
            g1 = first.transform_1d_grid(g)
        except Exception as ex:
            out["exc1"] = type(ex).__name__
            return out
        if kind in ("tf", "inv"):
            out["dom"], out["typ"] = _enc_dom(g1), type(g1).__name__
            return out
        second = InverseRTransform(tf) if kind == "round" else _make_tf(case["t2"])
        try:
            g2 = second.transform_1d_grid(g1)
        except Exception as ex:
            out["exc2"] = type(ex).__name__
            return out
        out["dom"], out["typ"] = _enc_dom(g2), type(g2).__name__
        if kind == "round":
            out["ptsok"] = bool(np.allclose(g2.points, g.points, rtol=1e-9, atol=1e-9))
            out["wtsok"] = bool(np.allclose(g2.weights, g.weights, rtol=1e-8, atol=0))
        return out


def _describe_domain(case, out, clause):
    kind = case["kind"]
    t1 = case["t1"]

    def tfs(t):
        return f"{t['cls']}(r0={t['r0']},r1={t['r1']},k={t['kk']},b={t['bn']}/{t['bd']},trim={t['trim']})"
    if kind == "new":
        key = f"dom:new:{case['sel']}:{clause}"
        what = f"OneDGrid(points, weights, domain) with {case['sel']} domain, aux (lo, hi, min base/offset, max base/offset in 5e-8) = {case['aux']}: {clause}; observed {out}"
    elif kind == "getitem":
        key = f"dom:getitem:{case['sel']}:{clause}"
        what = f"OneDGrid with domain ({case['lo']}, {case['hi']})[{case['sel']}]: {clause}; observed {out}"
    else:
        key = f"dom:{kind}:{t1['cls']}" + (f":{case['t2']['cls']}" if kind == "comp" else "") + f":{clause}"
        what = (f"{kind}: {tfs(t1)}" + (f" then {tfs(case['t2'])}" if kind == "comp" else "") +
                f" on a grid with domain ({case['lo']}, {case['hi']}): {clause}; observed {out}")
    return key, what


def _part_domain(rep, wd, tier, rng):
    with open(wd / "x02_dobs.json", "w") as f:
        json.dump([], f)
    rg = tlc.run_tlc("DomainAlg", "Gen_DomainAlg.cfg", wd, workers=WORKERS, timeout=900).require_ok("Gen_DomainAlg")
    rep.tlc(rg, "Gen_DomainAlg")
    if rg.status == "violation":
        st = tlc.last_state(rg)
        rep.violation("dom:law:" + ",".join(rg.violated), f"DomainAlg: law(s) {rg.violated} fail on case {st.get('da_cur')}", st)
    cases = _cases_from(rg)
    if len(cases) < 2000 and rg.status == "ok":
        raise tlc.MachineryError(f"X02 domain: only {len(cases)} cases enumerated")
    cases.sort(key=lambda c: json.dumps(c, sort_keys=True))
    obs = []
    for c in cases:
        for _ in range(1 if tier == "quick" else 3):
            obs.append({"case": c, "out": _obs_domain(c, rng)})
    tally = _judge(rep, wd, "DomainAlg", "Judge_DomainAlg.cfg", obs, "x02_dobs.json", "Judge_DomainAlg", _describe_domain)
    kinds = {}
    for (k, cl), n in tally.items():
        kinds.setdefault(k, {})[cl] = n
    need = {"new": ["new:pair:dom", "new:pair:reject", "new:none:none", "new:triple:reject", "new:single:reject"],
            "getitem": [f"getitem:{s}:dom" for s in ("int", "negint", "npint", "slice", "step", "array", "mask")] + ["getitem:int:none"],
            "tf": [f"tf:{c}:dom" for c in ("Identity", "LinearFinite", "Becke", "Handy", "HandyMod", "LinearInfinite", "Exp", "Power",
                                           "Hyperbolic", "MultiExp", "Knowles")] + ["tf:Becke:reject", "tf:Exp:reject"],
            "inv": [f"inv:{c}:dom" for c in ("Identity", "LinearFinite", "Becke", "Handy", "HandyMod", "LinearInfinite", "Exp", "Power",
                                            "Hyperbolic", "MultiExp", "Knowles")] + ["inv:LinearFinite:reject"],
            "round": [f"round:{c}:dom" for c in ("LinearFinite", "Becke", "HandyMod", "Hyperbolic", "MultiExp", "Knowles")]
            + ["round:LinearInfinite:reject2", "round:Exp:reject2"],
            "comp": ["comp:LinearFinite:dom", "comp:LinearFinite:reject2", "comp:Becke:dom"]}
    missing = [c for k, cl in need.items() for c in cl if kinds.get(k, {}).get(c, 0) == 0]
    if missing and rg.status == "ok":
        raise tlc.MachineryError(f"vacuity: no judged observation in case classes {missing}")
    for o in obs:
        rep.evaluated(1, ("dom", json.dumps(o["case"], sort_keys=True)))
    rep.set("domain_cases_enumerated", len(cases))
    rep.set("domain_observations_judged", len(obs))
    rep.set("domain_case_classes", {k: sum(v.values()) for k, v in sorted(kinds.items())})
    rep.set("domain_round_trip_classes", kinds.get("round", {}))
    for kind in ("new", "tf", "round", "comp"):
        o = next((x for x in obs if x["case"]["kind"] == kind and x["out"]["dom"]), None)
        if o:
            rep.sample({"part": "domain", "case": o["case"], "observed": o["out"]})
    return len(obs)


# ============================================================================================
# entry points
# ============================================================================================

PARTS = ("gen", "tables", "domain")


def run(tier: str, parts=PARTS) -> int:
    rep = Report(PROP, tier, "model_checking")
    rng = random.Random(rep.seed)
    wd = tlc.scratch(f"{PROP}-{tier}" + ("-selftest" if os.environ.get("VERIF_SELFTEST") else ""))
    n = 0
    if "gen" in parts:
        n += _part_gen(rep, wd, tier, rng)
    if "tables" in parts:
        n += _part_tables(rep, wd, tier, rng)
    if "domain" in parts:
        n += _part_domain(rep, wd, tier, rng)
    rep.set("traces_validated_against_impl", n)
    rep.set("parts", list(parts))
    rep.set("exhaustive", False)
    rep.set("rule", "one case = one recorded event of a replayed MultiDomainGrid behaviour (judged by GenRestartTrace) or one observation of "
                    "a case enumerated by TLC from TableLaws / DomainAlg (save, find_parameter, default radial grid, get_cov_radii, OneDGrid "
                    "domain: new / getitem / tf / inv / round / comp), judged by a second TLC run against Expected(case); distinct = distinct "
                    "(part, case)")
    rep.assume("numpy.savez / numpy.load store and return arrays bit for bit")
    rep.assume("observed domain ends are snapped to rationals with denominator <= 4096 (threshold 1e-11, measured deviation <= 6e-16); "
               "ends whose images are irrational are outside the model")
    rep.assume("weights of the multi-domain replays are small integers, so products and sums are exact in floating point")
    return rep.finish()


def replay(path: str) -> int:
    with open(path) as f:
        v = json.load(f)
    c = v.get("case") or {}
    rep = Report(PROP, "quick", "model_checking")
    rng = random.Random(v.get("seed", 0))
    wd = tlc.scratch(f"{PROP}-replay")
    if c.get("part") == "gen" and "behaviour" in c:
        beh = [tuple(x) for x in c["behaviour"]]
        ev = MDDriver(c["cfg"]).run(beh)
        rep.evaluated(len(ev) - 1, "replay")
        _md_validate(rep, wd, [ev], [(c["cfg"], beh)])
        rep.set("traces_validated_against_impl", 1)
    elif "case" in c and "kind" in c["case"]:
        obs = [{"case": c["case"], "out": _obs_domain(c["case"], rng)}]
        print("replay: now observed", obs[0]["out"])
        _judge(rep, wd, "DomainAlg", "Judge_DomainAlg.cfg", obs, "x02_dobs.json", "Judge_DomainAlg", _describe_domain)
        rep.evaluated(1, "replay")
        rep.set("traces_validated_against_impl", 1)
    elif "case" in c and "part" in c["case"]:
        tabs, params = _tables()
        with open(wd / "x02_tables.json", "w") as f:
            json.dump(tabs, f)
        cs = c["case"]
        out = {"save": lambda: _obs_save(cs, rng, wd)[0], "fp": lambda: _obs_fp(cs), "rgrid": lambda: _obs_rgrid(cs, params),
               "cov": lambda: _obs_cov(cs)}[cs["part"]]()
        print("replay: now observed", {k: x for k, x in out.items() if k != "match"})
        _judge(rep, wd, "TableLaws", "Judge_TableLaws.cfg", [{"case": cs, "out": out}], "x02_obs.json", "Judge_TableLaws", _describe_table)
        rep.evaluated(1, "replay")
        rep.set("traces_validated_against_impl", 1)
    else:
        print("replay: model-level violation; rerunning the quick tier")
        return run("quick")
    rep.evaluated(0, "replay2")
    return rep.finish()


# --------------------------------------------------------------------------------------------
# selftest: in-process mutants of the library (never touches /repo)

def selftest(tier: str = "quick") -> int:
    import functools

    from ..evidence import patched, run_mutants
    import contextlib

    from ..mutants import src
    from ..srcmutant import mutate

    @contextlib.contextmanager
    def meth(owner, name, old, new):
        orig = mutate(owner, name, old, new)
        try:
            yield
        finally:
            setattr(owner, name, orig)
    import grid.basegrid as bg
    import grid.ngrid as ng
    import grid.rtransform as rt
    import grid.utils as gu

    # ---- persistence -------------------------------------------------------------------------
    def atom_save_swapped():     # swapped argument: the radial weights are written under both rgrid keys
        return src("grid.atomgrid", '"rgrid_pts": self.rgrid.points,', '"rgrid_pts": self.rgrid.weights,')()

    def local_save_drops_indices():   # a dropped key
        return meth(bg.LocalGrid, "save", '"indices": self.indices,', "")

    def grid_save_single_precision():  # "smaller files": arrays are no longer bit-identical
        def save(self, filename):
            np.savez(filename, points=self.points.astype(np.float32).astype(float), weights=self.weights)
        return patched(bg.Grid, "save", save)

    def mol_save_atom_keys_one_based():   # atgrid_1_... instead of atgrid_0_...
        return src("grid.molgrid", 'for i, atomgrid in enumerate(self.atgrids):', 'for i, atomgrid in enumerate(self.atgrids, 1):')()

    # ---- find_parameter / default radial grid / covalent radii ---------------------------------
    def fp_even_takes_upper_middle():   # the even-size branch forgets to average
        return src("grid.rtransform", "mid_value = (array[size // 2 - 1] + array[size // 2]) / 2", "mid_value = array[size // 2]")()

    def fp_validation_dropped():
        return src("grid.rtransform", "        if rmin > radius:\n            raise ValueError(\n                f\"rmin need to be smaller than radius, rmin: {rmin}, radius: {radius}.\"\n            )\n", "")()

    def rgrid_no_unit_conversion():
        return src("grid.molgrid", "rmax = rmax * scipy.constants.angstrom / scipy.constants.value(\"atomic unit of length\")", "rmax = rmax * 1.0")()

    def rgrid_one_point_short():
        return src("grid.atomgrid", "rmin, rmax, npt = _DEFAULT_POWER_RTRANSFORM_PARAMS[int(atnum)]",
                   "rmin, rmax, npt = _DEFAULT_POWER_RTRANSFORM_PARAMS[int(atnum)]; npt = npt - 1")()

    def rgrid_unlisted_falls_back_to_hydrogen():   # dropped validation in AtomGrid.from_preset
        return src("grid.atomgrid", "            if atnum in _DEFAULT_POWER_RTRANSFORM_PARAMS:\n",
                   "            atnum = atnum if atnum in _DEFAULT_POWER_RTRANSFORM_PARAMS else 1\n            if True:\n")()

    def cov_zero_accepted():
        return src("grid.utils", "    if np.any(np.array(atnums) == 0):\n        raise ValueError(f\"0 is not a valid atomic number, got {atnums}\")\n", "")()

    def cov_tables_swapped():   # (reading _alvarez instead is an equivalent mutant: the two tables agree for Z = 1..86)
        return src("grid.utils", '    if cov_type == "cambridge":\n        return _cambridge[atnums]', '    if cov_type == "cambridge":\n        return _bragg[atnums]')()

    def cov_returns_view():   # "avoid the copy" for a single atomic number
        orig = gu.get_cov_radii

        def f(atnums, cov_type="bragg"):
            if isinstance(atnums, (int, np.integer)) and atnums > 0 and cov_type == "bragg":
                return gu._bragg[int(atnums):int(atnums) + 1]
            return orig(atnums, cov_type)
        return patched(gu, "get_cov_radii", f)

    # ---- OneDGrid domain ---------------------------------------------------------------------------
    def onedgrid_slack_dropped():
        return meth(bg.OneDGrid, "__init__", "if domain[0] - 1e-7 > min_p:", "if domain[0] > min_p:")

    def onedgrid_equal_ends_rejected():   # widened condition
        return meth(bg.OneDGrid, "__init__", "if len(domain) != 2 or domain[0] > domain[1]:", "if len(domain) != 2 or domain[0] >= domain[1]:")

    def getitem_int_drops_domain():
        def gi(self, index):
            if isinstance(index, (int, np.integer)):
                return bg.OneDGrid(np.array([self.points[index]]), np.array([self.weights[index]]))
            return bg.OneDGrid(np.array(self.points[index]), np.array(self.weights[index]), self._domain)
        return patched(bg.OneDGrid, "__getitem__", gi)

    def tf_domain_check_dropped():
        return src("grid.rtransform", "if oned_grid.domain[0] < self.domain[0] or oned_grid.domain[1] > self.domain[1]:", "if False:")()

    def tf_domain_check_upper_only():   # one half of the condition lost
        return src("grid.rtransform", "if oned_grid.domain[0] < self.domain[0] or oned_grid.domain[1] > self.domain[1]:",
                   "if oned_grid.domain[1] > self.domain[1]:")()

    def tf_domain_from_points():   # the new domain is taken from the new points
        return src("grid.rtransform", "new_domain = tuple(np.sort(self.transform(np.array(oned_grid.domain))))",
                   "new_domain = (np.min(new_points), np.max(new_points))")()

    def inverse_domain_not_swapped():
        return src("grid.rtransform", "        self._domain = transform.codomain\n        self._codomain = transform.domain",
                   "        self._domain = transform.domain\n        self._codomain = transform.codomain")()

    # ---- MultiDomainGrid ---------------------------------------------------------------------------
    def md_points_cached():   # the generator is built once and handed out again
        orig = ng.MultiDomainGrid.points.fget

        def pts(self):
            if getattr(self, "_pts_cache", None) is None:
                self._pts_cache = orig(self)
            return self._pts_cache
        return patched(ng.MultiDomainGrid, "points", property(pts))

    def md_weights_list_then_iter():   # weights materialised once per object and iterated through one shared iterator
        orig = ng.MultiDomainGrid.weights.fget

        def wts(self):
            if getattr(self, "_w_it", None) is None:
                self._w_it = iter(list(orig(self)))
            return self._w_it
        return patched(ng.MultiDomainGrid, "weights", property(wts))

    def md_size_times_domains():
        return src("grid.ngrid", "return self.grid_list[0].size ** self.num_domains", "return self.grid_list[0].size * self.num_domains")()

    def md_weights_first_domain_fastest():   # enumeration order of the weights differs from the points
        orig = ng.MultiDomainGrid.weights.fget

        def wts(self):
            import itertools
            if len(self.grid_list) == 1:
                return orig(self)
            return (np.prod(c) for c in (t[::-1] for t in itertools.product(*[g.weights for g in self.grid_list[::-1]])))
        return patched(ng.MultiDomainGrid, "weights", property(wts))

    as_cm = lambda f: (lambda: f())  # noqa: E731
    groups = [
        (("tables",), [("atomgrid-save-rgrid-keys-swapped", atom_save_swapped), ("localgrid-save-drops-indices", local_save_drops_indices),
                       ("grid-save-single-precision", grid_save_single_precision), ("molgrid-save-atom-keys-one-based", mol_save_atom_keys_one_based),
                       ("find_parameter-even-no-average", fp_even_takes_upper_middle), ("find_parameter-validation-dropped", fp_validation_dropped),
                       ("default-rgrid-no-unit-conversion", rgrid_no_unit_conversion), ("default-rgrid-one-point-short", rgrid_one_point_short),
                       ("default-rgrid-unlisted-element-accepted", rgrid_unlisted_falls_back_to_hydrogen),
                       ("cov-zero-accepted", cov_zero_accepted), ("cov-cambridge-reads-bragg", cov_tables_swapped),
                       ("cov-returns-view-of-table", cov_returns_view)]),
        (("domain",), [("onedgrid-slack-dropped", onedgrid_slack_dropped), ("onedgrid-equal-ends-rejected", onedgrid_equal_ends_rejected),
                       ("getitem-int-drops-domain", getitem_int_drops_domain), ("transform-domain-check-dropped", tf_domain_check_dropped),
                       ("transform-domain-check-upper-only", tf_domain_check_upper_only), ("transform-domain-from-points", tf_domain_from_points),
                       ("inverse-domain-not-swapped", inverse_domain_not_swapped)]),
        (("gen",), [("multidomain-points-generator-cached", md_points_cached), ("multidomain-weights-shared-iterator", md_weights_list_then_iter),
                    ("multidomain-size-times-domains", md_size_times_domains), ("multidomain-weights-order-reversed", md_weights_first_domain_fastest)]),
    ]
    only = os.environ.get("X02_MUTANTS")
    rc = 0
    for parts, muts in groups:
        if only:
            muts = [m for m in muts if m[0] in only.split(",")]
        if muts:
            rc |= run_mutants(PROP, functools.partial(run, parts=parts), [(n, as_cm(f)) for n, f in muts], tier)
    return rc
