"""C04 - transforming a 1D grid is a faithful change of variables.

Flow (DESIGN.md section 5, C04; spec/RTransform.tla, Spec4):
 1. TLC computes, exactly, Transform1D(tf, rule) for every rational rule defined in the
    specification (composite trapezoid / midpoint / Simpson rules on [-1, 1], the unit-spaced
    integer rule on [0, inf)) x every evaluable transform instance x rational parameter set
    (including the b-scaled maps WITHOUT b: b = largest node): nodes F(x_i), weights
    w_i |D(F)(x_i)|, domain = ordered image of the rule's domain; and decides on all of them:
    weights non-negative (also for the decreasing map), nodes inside the ordered domain,
    domain = codomain for the rules on the full reference interval, inferred b sends the last
    node to rmax, sign of w_i D(F)(x_i) = direction, transforming back with the inverse map
    returns the rule, the linear map transports polynomial exactness (sum w' r^k =
    (rmax^(k+1) - rmin^(k+1))/(k+1) up to the rule's degree), and the base exactness of the rules.
    Every exact grid is printed (GRID), all trees, rules and Gauss-Legendre obligations are
    written with JsonSerialize.
 2. The harness binds the library rules to the specification's rules (nodes / weights /
    domain), reproduces TLC's exact grids with the generic evaluator, and replays
    tf.transform_1d_grid: (a) the TLC grids (trim_inf on/off, b given / inferred), (b) the
    library's other rules (Gauss-Legendre, Chebyshev family, Clenshaw-Curtis, Fejer, tanh-sinh,
    Gauss-Laguerre, ...) x all 11 classes x VERIF_SEED-drawn float parameters, expected values
    from the spec trees at the library's nodes, (c) InverseRTransform(tf) applied to the
    transformed grid (role swap), (d) the Gauss-Legendre exactness obligations through the
    linear map.  Checked per grid: type/size, nodes, |weights|, sign of weights, domain (ordered,
    no nan, contains the nodes, equals the spec's), sum rule sum_new g = sum_old g(F)|F'| w and
    positivity for a positive integrand.

 3. Second model (spec/Transform1DExt.tla, Spec5; runs beside the first): TLC applies Transform1D to
    ARBITRARY rules (TransformG) - 16 hand-made rational rules: nodes stored descending / unsorted, a node
    listed twice, a negative weight (Milne's open rule, degree 3), a zero weight, a single node,
    sub-interval domains sharing one end (or one end being the pole) with the map's domain, half-line
    rules on [0, 2] and [1/4, inf) - for integral and lattice parameter sets; to CHAINS
    outer o LinearFinite(lo, hi) (transforming the transformed grid = transforming once with the composed
    tree; the chain rule comes from D on the composed tree); and to the state machine of a b-scaled map
    built without b (b := largest node of the FIRST grid, kept for the second).  It decides: permuted
    rule = permuted grid of the base rule, sign of every weight kept, zero weights kept, exactness
    transport through the linear map also with negative / zero weights, image domain strictly inside the
    codomain for sub-interval rules, two steps = one step, second grid mapped with the first grid's b, and
    the sum rule with the pulled-back integrand g(F(x))|D(F)(x)| (one tree) for the rational integrands.
    The harness rebuilds the hand rules as OneDGrid objects (float64 / integer nodes / longdouble /
    list or ndarray domain / read-only / strided arrays; parameters as floats and, where integral, as
    Python ints; trim_inf True / False / omitted) and replays the records; chains also with library rules
    (Gauss-Legendre, Clenshaw-Curtis, ...) and VERIF_SEED-drawn float intervals.
 4. Per grid, additionally: weight at a singular end node (infinite Jacobian) is infinite or enormous, never
    nan; a negative rule weight stays non-positive; the sum rule for the 7 integrands of the specification
    (sign-changing, oscillating, ...) and one product handed to integrate as two arrays; harness-only
    relations: the grid handed in is left untouched, a second call with the same objects returns the same
    grid.

Violation keys: ``transform_1d_grid:<Class>[:k=..|m=..]:<what>`` with <what> in points,
singular-node, weights, negative-weights, domain, domain-nan, domain-order, nodes-outside-domain,
sum-rule, sum-rule[<integrand>], singular-weight, weight-sign, inferred-b, input-modified, not-repeatable,
exception, type; ``gl-exactness:...``; ``rule:<Rule>:n=..`` (library rule differs from
the specification's definition).

Tolerances: vf/rtx.py policy (1e-9 relative, or 1e3 x running-error bound of the spec tree).
Calibration (thorough, seeds 0-2, pinned tree): see CALIBRATION.
"""
from __future__ import annotations

import inspect
import json
import math
import os
import random
from fractions import Fraction

import numpy as np

from .. import rtx, tlc
from ..evidence import Report
from ..rtx import LIB, ev, mp

PROP = "C04"

CALIBRATION = """
thorough tier, VERIF_SEED=0 (pinned tree): 2.1e6 float observations accepted; by construction
of the two-stage test (the running-error bound B is consulted only when the relative error
exceeds 1e-12) the largest err / tolerance is < 1e-3.  Gauss-Legendre obligations (n <= 40,
k <= 79, 16848 of them): largest |sum - exact| / (1e-9 * sum |w r^k|) = 2.4e-4.  The defects found
and the 9 mutants of selftest() produce O(1) relative errors (sign of every weight, nan, wrong
Jacobian, wrong domain end) or exceptions.

Second model / new clauses (quick, seeds 0-5 and thorough seed 0, pinned tree):
 * nodes / weights / domains of hand rules, chains, reuse: same two-stage test (vf/rtx.py policy); chains are
   judged against the COMPOSED tree, whose running-error bound contains the rounding of the inner map;
   largest err / tolerance accepted: see evidence max_err_over_tolerance_accepted (< 1e-3 by construction).
 * sum rule for the integrand family: tolerance = 1e-9 sum |w' g| + 4 x first-order budget from the accepted
   node / weight tolerances (derived, see integrand_family); largest err / tolerance measured 1.5e-5 (quick,
   seeds 0-14) and 7.3e-5 (thorough, seed 0, every grid); the mutants (|g| integrated, second array ignored)
   give O(1) relative errors.  Grids with |node| or |weight| > 1e75 are left out (products of three doubles
   overflow), positivity is not demanded when every term underflows (reference <= 1e-250).
 * chains whose inner interval ends ON a pole of the outer map are judged only if LinearFinite reproduces
   that end exactly in double precision (drawn intervals may give 1 - 1 ulp, whose outer image is a huge
   finite number: infinitely ill-conditioned, not a defect).
 * largest err / tolerance over all accepted node / weight observations: 4.5e-4 (quick), 1.8e-3 (thorough).
 * singular-node weight >= 1e10 w: sound code gives >= 6e15 w (Knowles, non-integer k: (2**k - 2.0**k) one
   rounding error off zero) or inf; mutant: nan.
"""

_G = {}


def model(tier: str, wd):
    cfg = "MC_Transform1D_thorough.cfg" if tier == "thorough" else "MC_Transform1D.cfg"
    res = tlc.run_tlc("RTransform", cfg, wd, workers=6 if tier == "thorough" else 4, timeout=1500).require_ok(cfg)
    if res.status == "violation":
        raise tlc.MachineryError(
            f"RTransform.tla (Spec4) is not self-consistent: invariant(s) {res.violated} violated; last state {tlc.last_state(res)}")
    em = rtx.Emission(wd / "rtransform_trees.json")
    grids = {}
    for t in rtx.tagged(res.stdout, "GRID"):
        _, j, p, q, nodes, weights, dom, direction = t
        grids[(j, p, q)] = (nodes, weights, dom, direction)
    return res, em, grids


class Out:
    def __init__(self):
        self.viol = []
        self.mach = []
        self.n = 0
        self.keys = set()
        self.samples = []
        self.tlc_values = 0
        self.tlc_undecided = 0
        self.max_ratio = 0.0
        self.worst = None
        self.grids = 0
        self.skipped_inverse = 0
        self.skipped_pairs = 0
        self.sum_ratio = 0.0
        self.last_expected = None
        self.relations = 0


# ---------------------------------------------------------------------------------------------
# rules

def lib_rule(name, n, **kw):
    import grid.onedgrid as od
    return rtx.call(lambda: getattr(od, name)(n, **kw))


def bind_rules(rep, em):
    """Library rule == specification rule (nodes, weights, domain) for the rational rules."""
    ok = {}
    for q, r in enumerate(em.rules, start=1):
        g, exc = lib_rule(r["name"], r["n"])
        key = f"rule:{r['name']}:n={r['n']}"
        if exc is not None:
            rep.violation(key, f"{r['name']}({r['n']}) raised {type(exc).__name__}: {exc}")
            ok[q] = False
            continue
        xs = np.array([q_[0] / q_[1] for q_ in r["nodes"]])
        ws = np.array([q_[0] / q_[1] for q_ in r["weights"]])
        dom = [float(ev(t, {})) for t in r["domain"]]
        good = (g.size == r["n"] and np.allclose(np.asarray(g.points, float), xs, rtol=1e-13, atol=1e-15)
                and np.allclose(g.weights, ws, rtol=1e-13, atol=1e-15) and g.domain is not None
                and [float(v) for v in g.domain] == dom)
        rep.evaluated(1, ("rule", r["name"], r["n"]))
        ok[q] = bool(good)
        if not good:
            rep.violation(key, f"library rule {r['name']}({r['n']}) differs from the specification's definition: points {np.asarray(g.points).tolist()} weights {g.weights.tolist()} domain {g.domain}; spec nodes {xs.tolist()} weights {ws.tolist()} domain {dom}")
    return ok


def other_rules(tier, rng):
    """Rules taken from the library (nodes/weights are NOT judged here - property C01)."""
    import grid.onedgrid as od
    from grid.basegrid import OneDGrid
    names = []
    for name, c in inspect.getmembers(od, inspect.isclass):
        if not (issubclass(c, OneDGrid) and c is not OneDGrid and c.__module__ == od.__name__):
            continue
        pars = list(inspect.signature(c.__init__).parameters.values())[1:]
        if any(p.default is inspect.Parameter.empty for p in pars[1:]) or name == "ExpSinh":
            continue
        names.append(name)
    if tier == "quick":
        names = [n for n in names if n in ("GaussLegendre", "ClenshawCurtis", "GaussChebyshev", "GaussLaguerre", "TanhSinh", "UniformInteger")]
        sizes = [1, 5, 10]
    else:
        sizes = [1, 2, 3, 4, 5, 6, 8, 10, 12, 16, 20, 25, 30, 40]
    out = []
    for name in names:
        for n in sizes:
            g, exc = lib_rule(name, n)
            if exc is not None:
                g, exc = lib_rule(name, n + 1)
                if exc is not None:
                    continue
            if any(nm == name and sz == g.size for nm, sz, _ in out):
                continue        # (a rule without a one-point version falls back to two points: already there)
            out.append((name, g.size, g))
    # hand-made grids whose node array has an INTEGER dtype (a OneDGrid accepts any array): Simpson and
    # trapezoid on [-1, 1], three integer nodes on [0, inf)
    hand = [("HandMadeSimpson[int nodes]", np.array([-1, 0, 1]), np.array([1.0, 4.0, 1.0]) / 3, (-1, 1)),
            ("HandMadeTrapezoid[int nodes]", np.array([-1, 1]), np.array([1.0, 1.0]), (-1, 1)),
            ("HandMade[int nodes, half line]", np.array([0, 1, 2, 5]), np.array([0.5, 1.0, 2.0, 1.5]), (0, np.inf)),
            # nodes that approach the singular end of the maps: the Jacobian there is FINITE but huge (beyond the 1e16 that
            # trim_inf substitutes for infinity), the image still moderate - as for the outermost nodes of large
            # Gauss / tanh-sinh rules
            ("HandMade[nodes 1e-k from +1]", 1.0 - np.array([1.5, 1.0, 1e-3, 1e-5, 1e-6, 1e-8, 1e-10]),
             np.array([0.5, 0.25, 0.125, 0.0625, 0.03125, 0.015625, 0.0078125]), (-1, 1))]
    for name, xs, ws, dom in hand:
        try:
            g = OneDGrid(xs, ws, dom)
            out.append((name, g.size, g))
        except Exception:  # noqa: BLE001
            pass
    return out


# ---------------------------------------------------------------------------------------------
# judging one transformed grid

def _cmp(out, key, what, obs, tree, tenv, var, case):
    j = rtx.judge(obs, tree, tenv, var)
    if j is None:
        return None
    ok, fexp, err, tol, ratio = j
    out.n += 1
    out.last_expected = fexp
    if ok:
        if ratio > out.max_ratio:
            out.max_ratio = ratio
            out.worst = {"what": what, "observed": float(obs), "expected": fexp, "err": err, "tol": tol}
        return tol
    c = dict(case)
    c.update(observed=float(obs), expected=fexp, abs_err=err, tolerance=tol)
    out.viol.append((key, f"{what}: observed {float(obs)!r}, specification {fexp!r} (|err| {err:.3g} > tol {tol:.3g})", c))
    return None


def positive_integrand(r):
    with np.errstate(all="ignore"):
        return np.exp(-r) / (1.0 + r * r) + 1.0 / (1.0 + r * r) ** 2


def positive_integrand_mp(r):
    return mp.exp(-r) / (1 + r * r) + 1 / (1 + r * r) ** 2


def limit_at_inf(tree, tenv):
    """Limit of a monotone spec map at x -> +inf (value at 10^2000; unbounded -> +-inf)."""
    v = ev(tree, dict(tenv, x=mp.mpf(10) ** 2000))
    if v is None:
        return None
    big = mp.mpf(10) ** 100
    return mp.inf if v > big else -mp.inf if v < -big else v


def judge_grid(out, pre, esfx, trees, wtree, decl, tenv, xs, ws, rdom, got, exc, trim, trim_value, direction, case,
               tlc_grid=None, expect_dom=None, sing_at=None, sing_w=None):
    """Compare a transformed grid with Transform1D of the specification.

    trees: F / d1 of the role; wtree: w |D(F)| as a tree in x and w; decl: declared data of the role;
    xs, ws, rdom: source grid (floats); got: the OneDGrid returned (exc: the exception raised)."""
    from grid.basegrid import OneDGrid
    kb = f"transform_1d_grid:{pre}{esfx}"
    out.grids += 1
    if exc is not None:
        what = "exception"
        if trim and expect_dom is None and isinstance(exc, ValueError) and "domain" in str(exc):
            # a finite node image larger than the number that stands for infinity?
            big = [ev(trees["F"], dict(tenv, x=rtx._mpf(x))) for x in xs]
            if any(v is not None and not mp.isinf(v) and abs(v) > trim_value for v in big):
                what = "node-beyond-trimmed-infinity"
        out.viol.append((f"{kb}:{what}", f"transform_1d_grid raised {type(exc).__name__}: {exc} for an admissible pair", case))
        return
    if not isinstance(got, OneDGrid) or got.size != len(xs):
        out.viol.append((f"{kb}:type", f"result is {type(got).__name__} of size {getattr(got, 'size', None)}, expected OneDGrid of size {len(xs)}", case))
        return
    try:
        pts = np.asarray(got.points, dtype=float)
        wts = np.asarray(got.weights, dtype=float)
        assert pts.shape == (len(xs),) and wts.shape == (len(xs),)
    except Exception:  # noqa: BLE001
        out.viol.append((f"{kb}:type", "points / weights of the result are not float arrays of the rule's size", case))
        return
    n = len(xs)
    # declared singular ends: a reference end point whose codomain end is infinite (forward role only)
    sing_given = sing_at is not None
    sing_at = dict(sing_at or {})
    if expect_dom is None and not sing_given:
        refs = [ev(t, tenv) for t in decl["ref"]]
        cods = [ev(t, tenv) for t in decl["cod"]]
        if direction < 0:
            cods = cods[::-1]
        for rf, cd in zip(refs, cods):
            if cd is not None and mp.isinf(cd) and rf is not None and not mp.isinf(rf):
                sing_at[float(rf)] = 1 if cd > 0 else -1
    singular = np.zeros(n, bool)
    node_tol = np.zeros(n)
    weight_tol = np.zeros(n)
    node_exp = np.full(n, np.nan)       # the specification's nodes / signed weights (as floats), where accepted
    weight_exp = np.full(n, np.nan)
    accepted = True
    for i in range(n):
        te = dict(tenv, x=rtx._mpf(xs[i]), w=rtx._mpf(ws[i]))
        out.keys.add((pre + esfx, "node", case.get("tag"), case.get("trim_inf"), i))
        if float(xs[i]) in sing_at:
            # singular end node: the image is +-inf, represented by +-trim when trimming is on
            singular[i] = True
            want = sing_at[float(xs[i])] * (trim_value if trim else math.inf)
            out.n += 1
            if not (pts[i] == want):
                out.viol.append((f"{kb}:singular-node", f"node x={xs[i]!r} is a singular end point of the map; its image must be {want!r} (trim_inf={trim}), got {pts[i]!r}", dict(case, index=i)))
            # the Jacobian is infinite there: the weight of a node with w != 0 is infinite or enormous (w
            # times the number that stands for infinity, or w times the value of the Jacobian formula one
            # rounding error away from the pole, >= R / eps ~ 1e14 for the parameter ranges used here; the
            # classes do not agree on trimming their derivative) - never nan, never an ordinary number.
            # Threshold 1e10 w.
            if ws[i] != 0:
                out.n += 1
                mag = abs(wts[i])
                w_in = abs(ws[i] if sing_w is None else sing_w[i])      # weight of the grid handed to the map
                if math.isnan(mag) or mag < 1e10 * w_in:
                    out.viol.append((f"{kb}:singular-weight", f"node x={xs[i]!r} is a singular end point of the map (infinite Jacobian); the weight of that node is {wts[i]!r} for rule weight {ws[i]!r} (trim_inf={trim})", dict(case, index=i)))
            continue
        t = _cmp(out, f"{kb}:points", f"node {i}: transform_1d_grid(...).points[{i}] for x={xs[i]!r}", pts[i], trees["F"], te, "x", dict(case, index=i))
        if t is None:
            accepted = False
        else:
            node_tol[i] = t
            node_exp[i] = out.last_expected
    # sign of the weights: non-negative weights stay non-negative
    out.n += 1
    neg = [i for i in range(n) if ws[i] >= 0 and (wts[i] < 0)]
    if neg:
        out.viol.append((f"{kb}:negative-weights", f"{len(neg)} of {n} weights are negative although the rule's weights are non-negative (map direction {direction}); e.g. weight[{neg[0]}] = {wts[neg[0]]!r} for rule weight {ws[neg[0]]!r}", dict(case, indices=neg[:5], weights=wts[:5].tolist())))
    # a NEGATIVE weight of the rule stays non-positive (the Jacobian enters by its magnitude).  For a
    # decreasing map this is the known sign defect seen from the other side: reported under the same key.
    out.n += 1
    pos = [i for i in range(n) if ws[i] < 0 and (wts[i] > 0)]
    if pos:
        what = "negative-weights" if direction < 0 else "weight-sign"
        out.viol.append((f"{kb}:{what}", f"{len(pos)} of {n} weights changed their sign (map direction {direction}); e.g. weight[{pos[0]}] = {wts[pos[0]]!r} for rule weight {ws[pos[0]]!r}", dict(case, indices=pos[:5], weights=wts[:5].tolist())))
        neg = neg or pos
    # magnitude of the weights: w_i |D(F)(x_i)|
    for i in range(n):
        if singular[i]:
            continue
        te = dict(tenv, x=rtx._mpf(xs[i]), w=rtx._mpf(ws[i]))
        wv = ev(wtree, te)
        if wv is None or mp.isinf(wv):
            continue        # infinite Jacobian at a domain end (e.g. Knowles with k < 1 at x = -1)
        obs = abs(wts[i]) if ws[i] >= 0 else -abs(wts[i])
        out.keys.add((pre + esfx, "weight", case.get("tag"), case.get("trim_inf"), i))
        t = _cmp(out, f"{kb}:weights", f"|weight {i}| for x={xs[i]!r}, w={ws[i]!r}", obs, wtree, te, "x", dict(case, index=i))
        if t is None:
            accepted = False
        else:
            weight_tol[i] = t
            weight_exp[i] = out.last_expected
    # domain
    dom = got.domain
    out.n += 1
    out.keys.add((pre + esfx, "domain", case.get("tag"), case.get("trim_inf")))
    try:
        d0, d1 = float(dom[0]), float(dom[1])
        dom_ok = len(dom) == 2
    except Exception:  # noqa: BLE001
        dom_ok = False
    if not dom_ok:
        out.viol.append((f"{kb}:domain", f"domain is {dom!r}", case))
        return
    if math.isnan(d0) or math.isnan(d1):
        out.viol.append((f"{kb}:domain-nan", f"domain is {(d0, d1)!r}", dict(case, domain=[d0, d1])))
    else:
        end_env = {}
        if expect_dom is None and sing_given:
            refs = [ev(t, tenv) for t in decl["ref"]]
            cods = [ev(t, tenv) for t in decl["cod"]]
            if direction < 0:
                cods = cods[::-1]
        if expect_dom is None:
            # ordered image of (rule domain) cut to the domain of use.  An end that is a reference end
            # point of the map goes to the corresponding codomain end (TLC: EndPoints); any other end
            # is evaluated (a limit for +inf: the maps are monotone).
            tl, th = ev(decl["use"][0], tenv), ev(decl["use"][1], tenv)
            lo = max(rtx._mpf(rdom[0]), tl)
            hi = min(rtx._mpf(rdom[1]), th)
            ends = []
            for e_, rf, cd in ((lo, refs[0], cods[0]), (hi, refs[1], cods[1])):
                if e_ == rf:
                    v = cd
                elif mp.isinf(e_):
                    v = limit_at_inf(trees["F"], tenv)
                else:
                    v = ev(trees["F"], dict(tenv, x=e_))
                    if v is not None:
                        end_env[v] = dict(tenv, x=e_)   # an evaluated end: judged with the tree's error budget
                ends.append(v)
            if any(v is None for v in ends):
                out.mach.append(f"{kb}: cannot evaluate the image of the domain end for {case}")
                return
            expect_dom = sorted(ends)
        want = []
        for v in expect_dom:
            fv = float(v)
            if math.isinf(fv) and trim:
                fv = math.copysign(trim_value, fv)
            want.append(fv)
        if not (d0 <= d1):
            out.viol.append((f"{kb}:domain-order", f"domain {(d0, d1)!r} is not ascending", dict(case, domain=[d0, d1])))
        good = True
        for o, w, v in zip((d0, d1), want, expect_dom):
            envv = end_env.get(v) if not (math.isinf(float(v))) else None
            if envv is not None:
                # same conditioning-aware judgement as for the nodes (e.g. Knowles near x = -1: log(1 - eps))
                good = good and rtx.judge(o, trees["F"], envv, "x")[0]
            else:
                good = good and rtx.judge_value(o, rtx._mpf(w))[0]
        if not good:
            out.viol.append((f"{kb}:domain", f"domain is {(d0, d1)!r}, the ordered image of the rule's domain {tuple(rdom)!r} is {tuple(want)!r} (trim_inf={trim})", dict(case, domain=[d0, d1], expected=want)))
        slack = 1e-9
        fin = pts[np.isfinite(pts)]
        if fin.size and (fin.min() < d0 - slack * max(1.0, abs(d0)) or fin.max() > d1 + slack * max(1.0, abs(d1))):
            out.viol.append((f"{kb}:nodes-outside-domain", f"nodes range [{fin.min()!r}, {fin.max()!r}] is not inside the domain {(d0, d1)!r}", dict(case, domain=[d0, d1])))
    # sum rule and positivity for a positive integrand (grids without singular nodes whose nodes and
    # weights were accepted): sum_new g(r_j) w_j = sum_old g(F(x_i)) |F'(x_i)| w_i.  The tolerance is
    # what the accepted node / weight tolerances allow (|g'| <= 4 on r >= -1/2).
    if accepted and not singular.any() and np.all(np.isfinite(pts)) and np.all(np.isfinite(wts)) and np.all(np.asarray(ws) >= 0) \
            and np.any(np.asarray(ws) > 0) and pts.min() >= -0.5:
        gv = positive_integrand(pts)
        val, exc = rtx.call(got.integrate, gv)
        out.n += 1
        out.keys.add((pre + esfx, "sum", case.get("tag"), case.get("trim_inf")))
        if exc is not None:
            out.viol.append((f"{kb}:integrate:exception", f"integrate raised {type(exc).__name__}: {exc}", case))
            return
        ref = mp.mpf(0)
        for i in range(n):
            te = dict(tenv, x=rtx._mpf(xs[i]), w=rtx._mpf(ws[i]))
            ref += ev(wtree, te) * positive_integrand_mp(ev(trees["F"], te))
        ref = float(ref)
        tol = 1e-9 * abs(ref) + float(np.sum(weight_tol * gv + np.abs(wts) * 4.0 * node_tol))
        if abs(val - ref) > tol and not neg:
            out.viol.append((f"{kb}:sum-rule", f"sum over the new grid of a positive integrand is {val!r}; the old rule applied to g(F(x))|F'(x)| gives {ref!r} (tolerance {tol:.3g})", dict(case, observed=float(val), expected=ref)))
        if not (val > 0) and not neg:
            out.viol.append((f"{kb}:nonpositive-integral", f"integral of a positive function is {val!r}", case))
    # the same for the family of integrands of the specification (Transform1DExt.tla: sign-changing,
    # polynomial, rational, oscillating; one product handed to integrate as two arrays); negative rule
    # weights allowed
    if accepted and not singular.any() and np.all(np.isfinite(pts)) and np.all(np.isfinite(wts)) and not neg \
            and _G.get("ext") is not None and case.get("integrands", True) and family_sample(case):
        integrand_family(out, kb, got, pts, wts, ws, node_exp, weight_exp, node_tol, weight_tol, case)


# ---------------------------------------------------------------------------------------------
# integrands of the specification (Transform1DExt.tla: IntegrandSeq)

def np_expr(t):
    """Python / numpy source text of a spec tree in the single variable r."""
    op = t["op"]
    if op == "c":
        return f"({int(t['n'])}/{int(t['d'])})"
    if op == "v":
        return "r"
    if op == "neg":
        return f"(-{np_expr(t['a'])})"
    if op == "abs":
        return f"np.abs({np_expr(t['a'])})"
    if op in ("add", "sub", "mul", "div", "pow"):
        sym = {"add": "+", "sub": "-", "mul": "*", "div": "/", "pow": "**"}[op]
        return f"({np_expr(t['a'])} {sym} {np_expr(t['b'])})"
    if op == "powi":
        return f"({np_expr(t['a'])} ** {int(t['k'])})"
    if op in ("exp", "log", "sin", "cos", "sqrt"):
        return f"np.{op}({np_expr(t['a'])})"
    raise tlc.MachineryError(f"np_expr: node {op!r}")


def np_fn(t):
    """float64 function r (array) -> value of the spec tree at every element (a constant tree broadcasts)."""
    f = eval("lambda r: " + np_expr(t), {"np": np})     # noqa: S307 - text generated above from a spec tree
    return lambda r: np.asarray(f(r), dtype=float) + np.zeros(np.shape(r))


def np_eval(t, r):
    return np_fn(t)(np.asarray(r, dtype=float))


def family_sample(case):
    """Which grids get the integrand family: all of them in the quick tier; in the thorough tier (140 000 grids
    whose nodes and weights are judged one by one anyway) the grids of the rational rules, of the second
    model and every fourth drawn pair, default trim setting only."""
    if _G.get("tier") != "thorough":
        return True
    tag = str(case.get("tag", ""))
    if case.get("trim_inf") is False or tag.endswith(":sub"):
        return False
    if tag.startswith("random:"):
        return int(tag.split(":")[1]) % 4 == 0
    return True


def integrand_items(ext):
    """[(name, positive, [(g, dg), ...])]: the integrands of the specification, plus the product of the
    first and the fifth one handed to integrate as two arrays."""
    ig = ext["integrands"]
    fn = [(np_fn(d["g"]), np_fn(d["dg"])) for d in ig]
    items = [(d["name"], bool(d["positive"]), [fn[k]]) for k, d in enumerate(ig)]
    a, b = ig[0], ig[4]
    items.append((f"({a['name']})*({b['name']}) as two arrays", False, [fn[0], fn[4]]))
    return items


def integrand_family(out, kb, got, pts, wts, ws, node_exp, weight_exp, node_tol, weight_tol, case):
    """sum_new g(r_j) w'_j = sum_old w_i |D(F)(x_i)| g(F(x_i)) for every integrand g of the specification.

    node_exp / weight_exp: F(x_i) and w_i |D(F)(x_i)| of the specification (50-digit values rounded to
    double; grids whose nodes and weights were all accepted).  The right-hand side is evaluated in double
    precision: its rounding error, ~1e-16 sum_i |W_i| (|g| + |g' F_i|), is seven orders below the budget.
    Error budget (first order, factor 4): the nodes were accepted within node_tol_i (>= 1e-9 |F_i|) and the
    weights within weight_tol_i, so the observed sum may differ from the specification's by
    sum_i weight_tol_i |g(r_i)| + |w'_i| |g'(r_i)| node_tol_i (g' = D(g) of the specification), plus the
    rounding of the sums, 1e-9 sum_i |w'_i g(r_i)|."""
    if not (np.all(np.isfinite(node_exp)) and np.all(np.isfinite(weight_exp))):
        return
    # magnitudes at which products of three doubles (weight, two integrand factors) cannot overflow
    if max(float(np.max(np.abs(pts))), float(np.max(np.abs(wts))), float(np.max(np.abs(node_exp))), float(np.max(np.abs(weight_exp)))) > 1e75:
        return
    nonneg = bool(np.all(np.asarray(ws) >= 0) and np.any(np.asarray(ws) > 0))
    for name, positive, parts in _G["integrand_items"]:
        with np.errstate(all="ignore"):
            vals = [g(pts) for g, _ in parts]
            dvals = [dg(pts) for _, dg in parts]
            refs = [g(node_exp) for g, _ in parts]
        if not all(np.all(np.isfinite(v)) for v in vals + dvals + refs):
            continue
        val, exc = rtx.call(got.integrate, *vals)
        out.n += 1
        out.keys.add((kb, "sum", name, case.get("tag"), case.get("trim_inf")))
        if exc is not None:
            out.viol.append((f"{kb}:integrate:exception", f"integrate raised {type(exc).__name__}: {exc} for the integrand {name}", case))
            return
        terms = weight_exp * np.prod(refs, axis=0)
        ref = math.fsum(terms.tolist())
        scale = float(np.sum(np.abs(terms)))
        gabs = np.abs(np.prod(vals, axis=0))
        if len(parts) == 1:
            dabs = np.abs(dvals[0])
        else:
            dabs = np.abs(dvals[0] * vals[1]) + np.abs(vals[0] * dvals[1])
        tol = 1e-9 * max(scale, float(np.sum(np.abs(wts) * gabs))) + 4.0 * float(np.sum(weight_tol * gabs + np.abs(wts) * dabs * node_tol))
        if not (math.isfinite(tol) and math.isfinite(ref)):
            continue
        err = abs(float(val) - ref)
        if err <= tol and tol > 0:
            out.sum_ratio = max(out.sum_ratio, err / tol)
        if not err <= tol:
            out.viol.append((f"{kb}:sum-rule[{name}]", f"sum over the new grid of g(r) = {name} is {float(val)!r}; the old rule applied to g(F(x))|F'(x)| gives {ref!r} (tolerance {tol:.3g})", dict(case, integrand=name, observed=float(val), expected=ref)))
        elif positive and nonneg and ref > 1e-250 and not (float(val) > 0):     # (not when every term underflows)
            out.viol.append((f"{kb}:nonpositive-integral", f"integral of the positive function {name} is {float(val)!r}", dict(case, integrand=name)))


# ---------------------------------------------------------------------------------------------
# jobs

def _tenv(inst, fenv, expo, bmax=None):
    e = dict(fenv)
    if inst.binfer and "b" not in e:
        e["b"] = bmax
    t = rtx.tree_env(e)
    if inst.ename and not inst.ip:
        t[inst.ename] = rtx._mpf(expo)
    return t, e


def _esfx(inst, expo):
    if not inst.ename:
        return ""
    return f":{inst.ename}={expo}" if float(expo).is_integer() else f":{inst.ename}=non-integer"


def run_pair(out, inst, fenv, expo, rule_name, make_rule, tag, trim_value, direction, tlc_grid=None, inverse=True, sub=True):
    """transform_1d_grid of one (transform, rule) pair for every trim setting (+ inverse wrapper)."""
    from grid.basegrid import OneDGrid
    from grid.rtransform import InverseRTransform
    if sub:
        # the same rule restricted to a strict sub-interval of its domain: "the new domain is the ordered
        # image of the OLD one" (of the grid's domain, not of the transformation's whole domain)
        def make_sub():
            r0 = make_rule()
            xs0 = np.asarray(r0.points, dtype=float)
            ws0 = np.asarray(r0.weights, dtype=float)
            o = np.argsort(xs0)
            xs0, ws0 = xs0[o], ws0[o]
            a, b = (xs0[0] + xs0[1]) / 2, (xs0[-2] + xs0[-1]) / 2
            keep = (xs0 > a) & (xs0 < b)
            return OneDGrid(xs0[keep].copy(), ws0[keep].copy(), (float(a), float(b)))
        try:
            ok = make_rule().size >= 4 and make_sub().size >= 2
        except Exception:  # noqa: BLE001
            ok = False
        if ok:
            run_pair(out, inst, fenv, expo, rule_name + "[sub-interval]", make_sub, tag + ":sub", trim_value, direction,
                     tlc_grid=None, inverse=False, sub=False)
    lbl = LIB[inst.cls]
    esfx = _esfx(inst, expo)
    for trim in ((True, False) if inst.trims else (None,)):
        rule = make_rule()
        xs = np.asarray(rule.points, dtype=float).copy()
        ws = np.asarray(rule.weights, dtype=float).copy()
        rdom = tuple(float(v) for v in rule.domain)
        tenv, full = _tenv(inst, fenv, expo, float(xs.max()))
        # precondition of Transform1D: every node inside the domain of use (a library rule may put a
        # node one ulp beyond -1 or 1)
        ulo, uhi = (ev(t, tenv) for t in inst.decl["use"])
        if not (rtx._mpf(float(xs.min())) >= ulo and rtx._mpf(float(xs.max())) <= uhi):
            out.skipped_pairs += 1
            return
        case = {"class": lbl, "params": fenv, "exponent": expo, "trim_inf": trim, "rule": rule_name, "n": int(rule.size), "tag": tag}
        tf, exc = rtx.call(rtx.make_tf, inst, fenv, expo, trim)
        if exc is not None:
            out.viol.append((f"transform_1d_grid:{lbl}{esfx}:constructor", f"{type(exc).__name__}: {exc}", case))
            return
        snap = snapshot(rule)
        got, exc = rtx.call(tf.transform_1d_grid, rule)
        judge_grid(out, lbl, esfx, inst.trees, inst.wtree, inst.decl, tenv, xs, ws, rdom, got, exc, trim, trim_value,
                   direction, case, tlc_grid)
        relations(out, f"transform_1d_grid:{lbl}{esfx}", tf, rule, snap, got, exc, case)
        # a rule handed over WITHOUT a domain (OneDGrid's domain is optional): same nodes and weights, and nothing is
        # known about the interval, so the transformed grid has no domain either ("the new domain is the ordered image
        # of the old one")
        if exc is None and trim in (True, None):
            bare, exc0 = rtx.call(OneDGrid, xs.copy(), ws.copy())
            if exc0 is None:
                got0, exc0 = rtx.call(tf.transform_1d_grid, bare)
                out.n += 1
                key0 = f"transform_1d_grid:{lbl}{esfx}:rule-without-domain"
                if exc0 is not None:
                    out.viol.append((key0 + ":raises", f"transform_1d_grid of a OneDGrid built without a domain raised {type(exc0).__name__}: {exc0}", case))
                elif got0.domain is not None:
                    out.viol.append((key0 + ":domain", f"a rule without a domain came back with domain {got0.domain!r} (the image of its node span, not of an interval the rule belongs to)", case))
                elif not (np.array_equal(got0.points, got.points, equal_nan=True) and np.array_equal(got0.weights, got.weights, equal_nan=True)):
                    out.viol.append((key0 + ":values", "nodes / weights differ from those of the same rule handed over with its domain", case))
        try:
            p1 = np.asarray(got.points, float)
            w1 = np.abs(np.asarray(got.weights, float))
            d1 = tuple(float(v) for v in got.domain)
        except Exception:  # noqa: BLE001  (already reported by judge_grid)
            continue
        if len(out.samples) < 1:
            out.samples.append(dict(case, points=p1[:3].tolist(), weights=np.asarray(got.weights)[:3].tolist(), domain=list(d1)))
        # role swap: InverseRTransform(tf) applied to the transformed grid returns to the x side.
        # Only for the default trim setting, finite nodes and a nan-free domain; the input weights are
        # made non-negative so that the two steps are judged separately.
        if not inverse or trim is False:
            continue
        if rule_name.startswith("HandMade[nodes 1e-k"):
            # the wrapper evaluates 1 / tf.deriv(tf.inverse(r)): one ulp in the recovered x is a relative 1e-8 of the
            # distance to the pole for these nodes - conditioning of that route, not what this clause judges
            continue
        if not (np.all(np.isfinite(p1)) and np.all(np.isfinite(w1)) and not any(math.isnan(v) for v in d1)) or np.any(p1 >= 1e15):
            continue
        if not (p1.min() > d1[0] and p1.max() < d1[1] and np.all(w1 > 0)):
            continue        # end nodes / zero Jacobians: the inverse map is singular there
        # precondition of Transform1D for the wrapper: grid domain inside its domain (= codomain of tf)
        idom = [ev(t, tenv) for t in inst.inv_decl["dom"]]
        if not (rtx._mpf(d1[0]) >= idom[0] and rtx._mpf(d1[1]) <= idom[1]):
            out.skipped_inverse += 1
            continue
        inv, exc = rtx.call(InverseRTransform, tf)
        if exc is not None:
            out.viol.append((f"transform_1d_grid:InverseRTransform({lbl}){esfx}:constructor", f"{type(exc).__name__}: {exc}", case))
            continue
        g1, exc = rtx.call(OneDGrid, p1.copy(), w1.copy(), d1)
        if exc is not None:
            continue
        got2, exc = rtx.call(inv.transform_1d_grid, g1)
        # expected domain: the images of the two ends of d1 under G, ordered (inf stays inf)
        ends = []
        for v in d1:
            if math.isinf(v):
                e_ = limit_at_inf(inst.inv_trees["F"], tenv)
            else:
                e_ = ev(inst.inv_trees["F"], dict(tenv, x=rtx._mpf(v)))
            ends.append(e_)
        if any(e_ is None for e_ in ends):
            continue
        judge_grid(out, f"InverseRTransform({lbl})", esfx, inst.inv_trees, inst.inv_wtree, inst.inv_decl, tenv, p1, w1, d1,
                   got2, exc, None, trim_value, direction, dict(case, object="InverseRTransform"), None, expect_dom=sorted(ends))


def snapshot(rule):
    return (np.array(rule.points, copy=True), np.array(rule.weights, copy=True), tuple(rule.domain),
            rule.points.dtype, rule.weights.dtype)


def same_array(a, b):
    a, b = np.asarray(a), np.asarray(b)
    return a.shape == b.shape and a.dtype == b.dtype and bool(np.array_equal(a, b, equal_nan=True))


def relations(out, kb, tf, rule, snap, got, exc, case):
    """Harness-only relations (no model needed): the call leaves the rule it was given untouched, and
    calling again with the same objects returns the same grid (an object that took b from its first
    grid keeps it)."""
    out.relations += 1
    out.n += 1
    p0, w0, d0, tp, tw = snap
    try:
        same = same_array(rule.points, p0) and same_array(rule.weights, w0) and tuple(rule.domain) == d0 \
            and rule.points.dtype == tp and rule.weights.dtype == tw
    except Exception:  # noqa: BLE001
        same = False
    if not same:
        out.viol.append((f"{kb}:input-modified", f"transform_1d_grid changed the grid it was given: points {np.asarray(rule.points).tolist()[:4]} (were {p0.tolist()[:4]}), weights {np.asarray(rule.weights).tolist()[:4]} (were {w0.tolist()[:4]}), domain {rule.domain!r} (was {d0!r})", case))
        return
    if exc is not None:
        return
    got2, exc2 = rtx.call(tf.transform_1d_grid, rule)
    out.n += 1
    if exc2 is not None:
        out.viol.append((f"{kb}:not-repeatable", f"the second call with the same objects raised {type(exc2).__name__}: {exc2}", case))
        return
    try:
        same = same_array(got.points, got2.points) and same_array(got.weights, got2.weights) \
            and same_array(np.asarray(got.domain, float), np.asarray(got2.domain, float))
    except Exception:  # noqa: BLE001
        same = False
    if not same:
        out.viol.append((f"{kb}:not-repeatable", f"the second call with the same objects returned a different grid: points {np.asarray(got2.points).tolist()[:4]} vs {np.asarray(got.points).tolist()[:4]}, weights {np.asarray(got2.weights).tolist()[:4]} vs {np.asarray(got.weights).tolist()[:4]}, domain {got2.domain!r} vs {got.domain!r}", case))


# ---------------------------------------------------------------------------------------------
# second model (Transform1DExt.tla): hand-made rules, chains, object reuse

class Ext:
    """What the second TLC run emitted: hand rules, integrands, composed trees, HAND / CHAIN / REUSE records."""

    def __init__(self, res, path):
        with open(path) as f:
            d = json.load(f)
        self.hand = d["hand"]
        self.integrands = d["integrands"]
        self.chain = d["chain"]
        self.inner_tree = d["inner_tree"]
        self.chain_rules = d["chain_rules"]
        self.reuse_rules = d["reuse_rules"]
        self.pullback = d["pullback"]
        self.params5 = [[rtx._env(e) for e in ps] for ps in d["params5"]]
        self.recs = {}
        for tag in ("HAND", "CHAIN", "REUSE"):
            for t in rtx.tagged(res.stdout, tag):
                self.recs.setdefault((t[1], t[2]), []).append(t)

    def __getitem__(self, k):       # the emission as a mapping (integrand_items)
        return getattr(self, k)


def model_ext(tier: str, wd):
    cfg = "MC_Transform1DExt_thorough.cfg" if tier == "thorough" else "MC_Transform1DExt.cfg"
    res = tlc.run_tlc("Transform1DExt", cfg, wd, workers=2 if tier == "thorough" else 4, timeout=1500).require_ok(cfg)
    if res.status == "violation":
        raise tlc.MachineryError(
            f"Transform1DExt.tla (Spec5) is not self-consistent: invariant(s) {res.violated} violated; last state {tlc.last_state(res)}")
    return res, Ext(res, wd / "transform1d_ext.json")


def _q(v):
    return Fraction(v[0], v[1])


def cross_check(out, label, nodes_t, weights_t, ftree, wtree, qenv, xq, wq):
    """The evaluator reproduces the exact nodes / weights TLC printed (machinery, not a verdict)."""
    for i in range(len(xq)):
        for what, t, tree in (("node", nodes_t[i], ftree), ("weight", weights_t[i], wtree)):
            tv = rtx.dec(t)
            if tv is None:
                out.tlc_undecided += 1
                continue
            mine = ev(tree, rtx.tree_env({}, **qenv, x=xq[i], w=wq[i]))
            out.tlc_values += 1
            if mine is None:
                if isinstance(tv, Fraction) or not mp.isinf(tv):
                    out.mach.append(f"{label} {what} {i}: TLC {tv}, evaluator singular")
                continue
            a = rtx._mpf(tv)
            if not (a == mine or abs(a - mine) <= mp.mpf(10) ** -35 * max(1, abs(a))):
                out.mach.append(f"{label} {what} {i}: TLC {a}, evaluator {mine}, env {qenv}")


HAND_VARIANTS = ("float64", "int-nodes", "longdouble", "list-domain", "ndarray-domain", "read-only", "strided")


def hand_grid(h, variant):
    """A hand-made OneDGrid with the nodes / weights / domain of hand rule h of the specification."""
    from grid.basegrid import OneDGrid
    xs = np.array([float(_q(v)) for v in h["nodes"]])
    ws = np.array([float(_q(v)) for v in h["weights"]])
    dom = tuple(float(ev(t, {})) for t in h["domain"])
    if variant == "int-nodes":
        if not all(_q(v).denominator == 1 for v in h["nodes"]):
            return None
        xs = np.array([int(_q(v)) for v in h["nodes"]])
        dom = tuple(int(v) if math.isfinite(v) and float(v).is_integer() else v for v in dom)
    elif variant == "longdouble":
        xs, ws = xs.astype(np.longdouble), ws.astype(np.longdouble)
    elif variant == "list-domain":
        dom = list(dom)
    elif variant == "ndarray-domain":
        dom = np.array(dom)
    elif variant == "read-only":
        xs.flags.writeable = False
        ws.flags.writeable = False
    elif variant == "strided":
        xs = np.repeat(xs, 2)[::2]
        ws = np.column_stack([ws, -ws])[:, 0]
    return OneDGrid(xs, ws, dom)


def typed_env(fenv, expo, ints):
    """Parameter values as Python floats, or as Python ints where integral (ints=True)."""
    if not ints:
        return dict(fenv), expo
    e = {k: (int(v) if float(v).is_integer() else v) for k, v in fenv.items()}
    return e, (int(expo) if expo is not None and float(expo).is_integer() else expo)


def job_ext(arg):
    """All HAND / CHAIN / REUSE records of one (instance, parameter set) of the second model."""
    from grid.rtransform import LinearFiniteRTransform
    j, p = arg
    em, ext, tier = _G["em"], _G["ext"], _G["tier"]
    inst = em.instances[j - 1]
    out = Out()
    env = ext.params5[j - 1][p - 1]
    fenv0 = rtx.float_env(env)
    expo = inst.ip if inst.ename else None
    lbl = LIB[inst.cls]
    esfx = _esfx(inst, expo)
    integral = all(v.denominator == 1 for v in env.values()) and len(env) > 0
    thorough = tier == "thorough"
    for rec in ext.recs.get((j, p), []):
        if rec[0] == "HAND":
            _, _, _, hidx, nodes_t, weights_t, dom_t, direction = rec
            h = ext.hand[hidx - 1]
            xq = [_q(v) for v in h["nodes"]]
            wq = [_q(v) for v in h["weights"]]
            qenv = dict(env)
            if inst.binfer and "b" not in qenv:
                qenv["b"] = max(xq)
            cross_check(out, f"{inst.label} hand rule {h['name']}", nodes_t, weights_t, inst.trees["F"], inst.wtree, qenv, xq, wq)
            extra = [v for v in HAND_VARIANTS[1:] if hand_grid(h, v) is not None]
            variants = ["float64"] + (extra if thorough else [extra[(j + p + hidx) % len(extra)]])
            for variant in variants:
                for ints in ((False, True) if integral and variant == "float64" else (False,)):
                    # plain float64 arrays: trimming on and off; every other variant with the DEFAULT trim
                    # setting (keyword omitted; judged as trimming on); integer-typed parameters: trimming on
                    trims = ((True,) if ints else (True, False) if variant == "float64" else ("default",)) if inst.trims else (None,)
                    for trim in trims:
                        rule = hand_grid(h, variant)
                        xs = np.array([float(v) for v in xq])
                        ws = np.array([float(v) for v in wq])
                        rdom = tuple(float(ev(t, {})) for t in h["domain"])
                        tenv, _ = _tenv(inst, fenv0, expo, float(xs.max()))
                        pe, pexpo = typed_env(fenv0, expo, ints)
                        case = {"class": lbl, "params": fenv0, "exponent": expo, "trim_inf": trim, "rule": h["name"], "n": len(xq),
                                "tag": f"hand:{p}:{hidx}:{variant}{':int-params' if ints else ''}", "hand_rule": hidx, "variant": variant,
                                "int_params": ints}
                        tf, exc = rtx.call(rtx.make_tf, inst, pe, pexpo, None if trim == "default" else trim)
                        if exc is not None:
                            out.viol.append((f"transform_1d_grid:{lbl}{esfx}:constructor", f"{type(exc).__name__}: {exc}", case))
                            continue
                        snap = snapshot(rule)
                        got, exc = rtx.call(tf.transform_1d_grid, rule)
                        judge_grid(out, lbl, esfx, inst.trees, inst.wtree, inst.decl, tenv, xs, ws, rdom, got, exc,
                                   True if trim == "default" else trim, em.trim, direction, case)
                        relations(out, f"transform_1d_grid:{lbl}{esfx}", tf, rule, snap, got, exc, case)
                        if len(out.samples) < 1 and exc is None and variant != "float64":
                            out.samples.append(dict(case, points=np.asarray(got.points, float)[:3].tolist(),
                                                    weights=np.asarray(got.weights, float)[:3].tolist(), domain=[float(v) for v in got.domain]))
        elif rec[0] == "CHAIN":
            _, _, _, q, c, nodes_t, weights_t, dom_t, direction = rec
            r = ext.chain_rules[q - 1]
            ct = ext.chain[j - 1]
            lo, hi = (_q(v) for v in ct["inner"][c - 1])
            rule, exc = lib_rule(r["name"], r["n"])
            if exc is not None:
                continue
            spec_rule = next((s for s in em.rules if s["name"] == r["name"] and s["n"] == r["n"]), None)
            qenv = dict(env, lo=lo, hi=hi)
            if inst.binfer and "b" not in qenv and spec_rule is not None:
                qenv["b"] = max(rtx.ev_exact(ext.inner_tree, {"lo": lo, "hi": hi, "x": _q(v)}) for v in spec_rule["nodes"])
            if spec_rule is not None:
                cross_check(out, f"{inst.label} o LinearFinite({lo},{hi}) {r['name']}({r['n']})", nodes_t, weights_t, ct["F"], ct["wtree"],
                            qenv, [_q(v) for v in spec_rule["nodes"]], [_q(v) for v in spec_rule["weights"]])
            for trim in ((True, False) if inst.trims else (None,)):
                run_chain(out, inst, fenv0, expo, float(lo), float(hi), lambda r=r: lib_rule(r["name"], r["n"])[0], r["name"],
                          f"chain:{p}:{q}:{c}", trim, em.trim, direction)
        elif rec[0] == "REUSE":
            _, _, _, q1, q2, b_t, nodes_t, weights_t, dom_t, direction = rec
            r1, r2 = ext.reuse_rules[q1 - 1], ext.reuse_rules[q2 - 1]
            b = _q(b_t)
            spec2 = next((s for s in em.rules if s["name"] == r2["name"] and s["n"] == r2["n"]), None)
            if spec2 is not None:
                cross_check(out, f"{inst.label} reuse {r1['n']}->{r2['n']}", nodes_t, weights_t, inst.trees["F"], inst.wtree, dict(env, b=b),
                            [_q(v) for v in spec2["nodes"]], [_q(v) for v in spec2["weights"]])
            run_reuse(out, inst, fenv0, expo, r1, r2, float(b), f"reuse:{p}:{q1}:{q2}", em.trim, direction)
    return out


def chain_domain(inst, tenv, lo, hi, direction):
    """(expected domain, singular x) of outer o LinearFinite(lo, hi) on [-1, 1]: the images of lo and hi under the
    outer map (a reference end point goes to its codomain end), ordered; x = -1 / +1 is singular when lo / hi
    is a reference end point of the outer map whose image is infinite."""
    refs = [ev(t, tenv) for t in inst.decl["ref"]]
    cods = [ev(t, tenv) for t in inst.decl["cod"]]
    if direction < 0:
        cods = cods[::-1]
    ends, sing = [], {}
    for xend, e_ in ((-1.0, rtx._mpf(lo)), (1.0, rtx._mpf(hi))):
        v = None
        for rf, cd in zip(refs, cods):
            if rf is not None and e_ == rf:
                v = cd
        if v is None:
            v = ev(inst.trees["F"], dict(tenv, x=e_))
        if v is None:
            return None, None
        if mp.isinf(v):
            sing[xend] = 1 if v > 0 else -1
        ends.append(v)
    return sorted(ends), sing


def run_chain(out, inst, fenv, expo, lo, hi, make_rule, rule_name, tag, trim, trim_value, direction):
    """outer.transform_1d_grid(LinearFiniteRTransform(lo, hi).transform_1d_grid(rule)) against the composed tree."""
    from grid.rtransform import LinearFiniteRTransform
    ext = _G["ext"]
    ct = ext.chain[inst.idx - 1]
    lbl = LIB[inst.cls]
    esfx = _esfx(inst, expo)
    rule = make_rule()
    xs = np.asarray(rule.points, dtype=float).copy()
    ws = np.asarray(rule.weights, dtype=float).copy()
    case = {"class": lbl, "params": fenv, "exponent": expo, "trim_inf": trim, "rule": rule_name, "n": int(rule.size), "tag": tag,
            "chain": {"inner": "LinearFiniteRTransform", "rmin": lo, "rmax": hi}, "integrands": False}
    inner, exc = rtx.call(LinearFiniteRTransform, lo, hi)
    mid, exc2 = rtx.call(lambda: inner.transform_1d_grid(rule)) if exc is None else (None, exc)
    if exc2 is not None:
        out.viol.append(("transform_1d_grid:LinearFiniteRTransform:exception", f"inner map of a chain raised {type(exc2).__name__}: {exc2}", case))
        return
    # b of a b-scaled outer map given without b: the largest node of the INTERMEDIATE grid (exact value)
    bmax = None
    if inst.binfer and "b" not in fenv:
        bmax = max(ev(ext.inner_tree, rtx.tree_env({}, lo=lo, hi=hi, x=float(x))) for x in xs)
    tenv, _ = _tenv(inst, fenv, expo, bmax)
    tenv = dict(tenv, lo=rtx._mpf(lo), hi=rtx._mpf(hi))
    ulo, uhi = (ev(t, tenv) for t in inst.decl["use"])
    mids = [ev(ext.inner_tree, dict(tenv, x=rtx._mpf(float(x)))) for x in xs]
    if not (min(mids) >= ulo and max(mids) <= uhi):
        out.skipped_pairs += 1
        return
    expect_dom, sing = chain_domain(inst, tenv, lo, hi, direction)
    if expect_dom is None:
        out.skipped_pairs += 1
        return
    if sing:
        # an end of the inner interval is a POLE of the outer map: the composition is infinitely
        # ill-conditioned there, so the case is admissible only if the inner map reproduces that end exactly
        # in double precision (it does for the dyadic intervals of the specification; a drawn interval may
        # give 1 - 1 ulp, whose outer image is a huge finite number instead of infinity)
        try:
            exact = all(float(mid.domain[k]) == e_ for k, (xend, e_) in enumerate(((-1.0, lo), (1.0, hi))) if xend in sing) and \
                all(float(m_) == (lo if x_ == -1.0 else hi) for x_, m_ in zip(xs, np.asarray(mid.points, float)) if x_ in sing)
        except Exception:  # noqa: BLE001
            exact = False
        if not exact:
            out.skipped_pairs += 1
            return
    tf, exc = rtx.call(rtx.make_tf, inst, fenv, expo, trim)
    if exc is not None:
        out.viol.append((f"transform_1d_grid:{lbl}{esfx}:constructor", f"{type(exc).__name__}: {exc}", case))
        return
    snap = snapshot(mid)
    got, exc = rtx.call(tf.transform_1d_grid, mid)
    judge_grid(out, lbl, esfx, {"F": ct["F"], "d1": ct["d1"]}, ct["wtree"], inst.decl, tenv, xs, ws, (-1.0, 1.0), got, exc, trim,
               trim_value, direction, case, None, expect_dom=expect_dom, sing_at=sing,
               sing_w=np.abs(np.asarray(mid.weights, dtype=float)))
    relations(out, f"transform_1d_grid:{lbl}{esfx}", tf, mid, snap, got, exc, case)


def run_reuse(out, inst, fenv, expo, r1, r2, b, tag, trim_value, direction):
    """One transform object built WITHOUT b transforms rule 1, then rule 2: the second grid is mapped with the b
    of the first (state machine PickFirst / PickSecond of Transform1DExt.tla)."""
    lbl = LIB[inst.cls]
    esfx = _esfx(inst, expo)
    kb = f"transform_1d_grid:{lbl}{esfx}"
    case = {"class": lbl, "params": fenv, "exponent": expo, "trim_inf": None, "rule": r2["name"], "n": r2["n"], "tag": tag,
            "first_rule": dict(r1), "b_of_first_grid": b}
    tf, exc = rtx.call(rtx.make_tf, inst, fenv, expo, None)
    if exc is not None:
        out.viol.append((f"{kb}:constructor", f"{type(exc).__name__}: {exc}", case))
        return
    rule1 = lib_rule(r1["name"], r1["n"])[0]
    rule2 = lib_rule(r2["name"], r2["n"])[0]
    g1, exc = rtx.call(tf.transform_1d_grid, rule1)
    if exc is not None:
        return          # reported by the first model's replay
    out.n += 1
    try:
        bobs = float(tf.b)
    except Exception:  # noqa: BLE001
        bobs = None
    if bobs != b:
        out.viol.append((f"{kb}:inferred-b", f"after transforming {r1['name']}({r1['n']}) an object built without b has b = {getattr(tf, 'b', None)!r}; the largest node of its first grid is {b!r}", case))
    xs = np.asarray(rule2.points, dtype=float).copy()
    ws = np.asarray(rule2.weights, dtype=float).copy()
    tenv, _ = _tenv(inst, fenv, expo, b)
    snap = snapshot(rule2)
    got, exc = rtx.call(tf.transform_1d_grid, rule2)
    judge_grid(out, lbl, esfx, inst.trees, inst.wtree, inst.decl, tenv, xs, ws, tuple(float(v) for v in rule2.domain), got, exc,
               None, trim_value, direction, case)
    relations(out, kb, tf, rule2, snap, got, exc, case)
    # back to the first rule: the same grid as the first time
    g1b, exc = rtx.call(tf.transform_1d_grid, rule1)
    out.n += 1
    if exc is not None or not (same_array(g1.points, g1b.points) and same_array(g1.weights, g1b.weights)):
        out.viol.append((f"{kb}:not-repeatable", f"transforming {r1['name']}({r1['n']}) again after {r2['name']}({r2['n']}) with the same object gives a different grid ({exc!r})", case))


def job_chain_random(arg):
    """Library rules (non-rational nodes) through LinearFinite(lo, hi) with float lo, hi, then a drawn outer map."""
    from grid.rtransform import LinearFiniteRTransform
    import grid.onedgrid as od
    j, rname, n, seed = arg
    em = _G["em"]
    inst = em.instances[j - 1]
    out = Out()
    rng = random.Random(seed)
    unit = inst.cls in ("Becke", "LinearFinite", "MultiExp", "Knowles", "Handy", "HandyMod")
    if unit:
        lo = rng.choice([-1.0, rng.uniform(-0.9, 0.2)])
        hi = rng.choice([1.0, rng.uniform(lo + 0.3, 0.95)])
    else:
        lo = rng.choice([0.0, rng.uniform(0.05, 1.0)])
        hi = lo + rng.uniform(0.5, 6.0)
    mk = lambda: getattr(od, rname)(n)      # noqa: E731
    mid, exc = rtx.call(lambda: LinearFiniteRTransform(lo, hi).transform_1d_grid(mk()))
    if exc is not None:
        return out
    d = draw_env(rng, inst, mid)
    if d is None:
        return out
    fenv, expo = d
    bmax = float(np.max(mid.points))
    tenv, _ = _tenv(inst, fenv, expo, bmax)
    direction = map_direction(inst, tenv)
    if direction == 0:
        return out
    for trim in ((True, False) if inst.trims else (None,)):
        run_chain(out, inst, fenv, expo, lo, hi, mk, rname, f"chain-random:{seed}", trim, em.trim, direction)
    return out


def job_tlc(arg):
    """All TLC grids of one (instance, parameter set)."""
    j, p = arg
    em, grids, rules_ok = _G["em"], _G["grids"], _G["rules_ok"]
    inst = em.instances[j - 1]
    out = Out()
    env = inst.params4[p - 1]
    fenv = rtx.float_env(env)
    expo = inst.ip if inst.ename else None
    for (jj, pp, q), tg in sorted(grids.items()):
        if (jj, pp) != (j, p) or not rules_ok.get(q, False):
            continue
        r = em.rules[q - 1]
        nodes, weights, dom, direction = tg
        # (a) the evaluator reproduces TLC's exact grid
        xq = [Fraction(v[0], v[1]) for v in r["nodes"]]
        wq = [Fraction(v[0], v[1]) for v in r["weights"]]
        e0 = dict(env)
        if inst.binfer and "b" not in e0:
            e0["b"] = max(xq)
        for i in range(r["n"]):
            for what, t, tree in (("node", nodes[i], inst.trees["F"]), ("weight", weights[i], inst.wtree)):
                tv = rtx.dec(t)
                if tv is None:
                    out.tlc_undecided += 1
                    continue
                mine = ev(tree, rtx.tree_env({}, **{k: v for k, v in e0.items()}, x=xq[i], w=wq[i]))
                out.tlc_values += 1
                if mine is None:
                    if isinstance(tv, Fraction) or not mp.isinf(tv):
                        out.mach.append(f"{inst.label} {r['name']}({r['n']}) {what} {i}: TLC {tv}, evaluator singular")
                    continue
                a, b = rtx._mpf(tv), mine
                if not (a == b or abs(a - b) <= mp.mpf(10) ** -35 * max(1, abs(a))):
                    out.mach.append(f"{inst.label} {r['name']}({r['n']}) {what} {i}: TLC {a}, evaluator {b}, env {env}")
        run_pair(out, inst, fenv, expo, r["name"], lambda r=r: lib_rule(r["name"], r["n"])[0], f"tlc:{p}:{q}",
                 em.trim, direction, tg, inverse=True)
    return out


def draw_env(rng, inst, rule):
    """Random admissible float parameters for a (transform, rule) pair, or None."""
    from .c03 import draw_env as d3
    for _ in range(50):
        d = d3(rng, inst)
        if d is None:
            continue
        fenv, expo = d
        xmax = float(np.max(rule.points))
        if inst.cls == "Hyperbolic":
            # every node inside the domain of use x < 1/b, and the library's own size condition
            bmax = min(0.9 / max(xmax, 1e-9), 0.999 / max(rule.size - 1, 1))
            fenv["b"] = rng.uniform(0.2, 1.0) * bmax
        elif inst.binfer and rng.random() < 0.5:
            del fenv["b"]          # b inferred from the grid
            if xmax <= 0:
                continue
        return fenv, expo
    return None


def map_direction(inst, tenv):
    """Sign of D(F) (spec tree) at an interior point of the domain of use."""
    lo, hi = (ev(t, tenv) for t in inst.decl["use"])
    x = lo + 1 if mp.isinf(hi) else lo + (hi - lo) * mp.mpf(37) / 100
    dv = ev(inst.trees["d1"], dict(tenv, x=x))
    if dv is None or dv == 0:
        return 0
    return 1 if dv > 0 else -1


def job_random(arg):
    j, ridx, seed = arg
    em, rules = _G["em"], _G["other"]
    inst = em.instances[j - 1]
    name, n, rule = rules[ridx]
    out = Out()
    rng = random.Random(seed)
    d = draw_env(rng, inst, rule)
    if d is None:
        return out
    fenv, expo = d
    tenv, _ = _tenv(inst, fenv, expo, float(np.max(rule.points)))
    direction = map_direction(inst, tenv)
    if direction == 0:
        return out
    import grid.onedgrid as od
    if name.startswith("HandMade"):
        from grid.basegrid import OneDGrid
        xs0, ws0, dom0 = np.array(rule.points), np.array(rule.weights), tuple(rule.domain)   # keeps the integer dtype
        mk = (lambda: OneDGrid(xs0.copy(), ws0.copy(), dom0))
    else:
        C = getattr(od, name)
        mk = (lambda: C(n))
    run_pair(out, inst, fenv, expo, name, mk, f"random:{seed}", em.trim, direction, None, inverse=(seed % 2 == 0))
    return out


def gl_obligations(rep, em, tier, rng):
    """LinearFinite(rmin, rmax) o GaussLegendre(n) integrates r^k exactly, k <= 2n-1."""
    from grid.onedgrid import GaussLegendre
    inst = em.by("LinearFinite", 0)
    envs = [rtx.float_env(e) for e in inst.params4]
    for _ in range(6 if tier == "quick" else 40):
        a = rng.choice([0.0, rng.uniform(0, 3), -rng.uniform(0, 2)])
        envs.append({"rmin": a, "rmax": a + math.exp(rng.uniform(math.log(0.3), math.log(60.0)))})
    worst = 0.0
    nob = 0
    for ob in em.gl:
        n = ob["n"]
        for fenv in envs:
            tf, exc = rtx.call(rtx.make_tf, inst, fenv, None, None)
            g, exc2 = rtx.call(lambda: tf.transform_1d_grid(GaussLegendre(n)))
            if exc is not None or exc2 is not None:
                rep.violation("gl-exactness:exception", f"LinearFinite{fenv} o GaussLegendre({n}) raised {exc or exc2}")
                continue
            pts = np.asarray(g.points, float)
            wts = np.asarray(g.weights, float)
            te = {k: Fraction(v) for k, v in fenv.items()}     # exact binary values of the floats
            for k, mt in enumerate(ob["moments"]):
                exact = rtx.ev_exact(mt, te)
                val, exc = rtx.call(g.integrate, pts ** k)
                nob += 1
                rep.evaluated(1, ("gl", n, k))
                if exc is not None:
                    rep.violation("gl-exactness:exception", f"integrate raised {exc}")
                    break
                scale = float(np.sum(np.abs(wts) * np.abs(pts) ** k))     # conditioning of the sum
                err = abs(float(rtx._mpf(val) - rtx._mpf(exact)))
                tol = 1e-9 * max(scale, abs(float(exact)))
                worst = max(worst, err / tol if tol > 0 else 0.0)
                if not err <= tol:
                    rep.violation(f"gl-exactness:n={n}:k={k}",
                                  f"LinearFinite({fenv['rmin']!r}, {fenv['rmax']!r}) applied to GaussLegendre({n}) integrates r^{k} to {val!r}; exact {float(exact)!r} (|err| {err:.3g} > {tol:.3g})",
                                  {"params": fenv, "n": n, "k": k, "observed": float(val), "expected": float(exact)})
                    break
    rep.set("gl_obligations_discharged", nob)
    rep.set("gl_max_err_over_tolerance", worst)


def check(rep: Report, tier: str, modelled, ext=None) -> None:
    res, em, grids = modelled
    rng = random.Random(rep.seed)
    rules_ok = bind_rules(rep, em)
    other = other_rules(tier, rng)
    _G.update(em=em, grids=grids, rules_ok=rules_ok, other=other, tier=tier, ext=ext,
              integrand_items=integrand_items(ext) if ext is not None else [])
    jobs = sorted({(j, p) for (j, p, q) in grids})
    rjobs = []
    nper = 1 if tier == "quick" else 4
    for i in em.instances:
        dom_unit = i.cls in ("Becke", "LinearFinite", "MultiExp", "Knowles", "Handy", "HandyMod")
        for ridx, (name, n, rule) in enumerate(other):
            if (float(rule.domain[0]) == -1.0) != dom_unit:
                continue
            if tier == "quick" and i.ip not in (0, 1, 3):
                continue
            for s in range(nper):
                rjobs.append((i.idx, ridx, rep.seed * 1000003 + i.idx * 10007 + ridx * 101 + s))
    # second model: hand-made rules, chains, object reuse (+ chains of library rules with float intervals)
    ejobs, cjobs = [], []
    if ext is not None:
        ejobs = sorted(ext.recs)
        crules = [("GaussLegendre", 5), ("ClenshawCurtis", 6)] if tier == "quick" else \
            [("GaussLegendre", 5), ("GaussLegendre", 12), ("ClenshawCurtis", 6), ("GaussChebyshev", 9), ("Trapezoidal", 7)]
        for i in em.instances:
            if tier == "quick" and i.ip not in (0, 1, 3):
                continue
            for k, (rname, n) in enumerate(crules):
                for s_ in range(1 if tier == "quick" else 3):
                    cjobs.append((i.idx, rname, n, rep.seed * 1000003 + i.idx * 10007 + k * 131 + s_ + 77))
    import multiprocessing as mpc
    with mpc.get_context("fork").Pool(8) as pool:
        outs = pool.map(job_tlc, jobs, chunksize=1)
        outs += pool.map(job_random, rjobs, chunksize=8)
        eouts = pool.map(job_ext, ejobs, chunksize=1) + pool.map(job_chain_random, cjobs, chunksize=4)
    outs += eouts
    mach = [m for o in outs for m in o.mach]
    if mach:
        raise tlc.MachineryError("specification / evaluator inconsistency (not a verdict about the library):\n" + "\n".join(mach[:20]))
    # non-vacuity from what TLC printed: a decreasing map, an infinite node, an inferred b
    if not any(g[3] == -1 for g in grids.values()):
        raise tlc.MachineryError("vacuity: TLC met no decreasing map")
    if not any(any(v and v[0] == "pinf" for v in g[0]) for g in grids.values()):
        raise tlc.MachineryError("vacuity: TLC met no singular end node")
    if not any(em.instances[j - 1].binfer and "b" not in em.instances[j - 1].params4[p - 1] for (j, p, q) in grids):
        raise tlc.MachineryError("vacuity: TLC met no grid with inferred b")
    if ext is not None:
        allrecs = [t for ts in ext.recs.values() for t in ts]
        hands = [t for t in allrecs if t[0] == "HAND"]
        if not any(any(len(v) == 2 and isinstance(v[0], int) and v[0] < 0 for v in t[5]) for t in hands):
            raise tlc.MachineryError("vacuity: TLC met no negative weight of a hand-made rule")
        if not any(ext.hand[t[3] - 1]["permuted"] for t in hands) or not any(len(t[4]) == 1 for t in hands):
            raise tlc.MachineryError("vacuity: TLC met no permuted / single-node hand-made rule")
        if not any(t[0] == "CHAIN" and any(v and v[0] == "pinf" for v in t[5]) for t in allrecs):
            raise tlc.MachineryError("vacuity: TLC met no chain with a singular end node")
        if not any(t[0] == "REUSE" and ext.reuse_rules[t[4] - 1]["n"] > ext.reuse_rules[t[3] - 1]["n"] for t in allrecs):
            raise tlc.MachineryError("vacuity: TLC met no second grid longer than the first (reuse of an inferred b)")
        rep.set("ext_hand_grids", len(hands))
        rep.set("ext_chain_grids", sum(1 for t in allrecs if t[0] == "CHAIN"))
        rep.set("ext_reuse_sequences", sum(1 for t in allrecs if t[0] == "REUSE"))
        rep.set("ext_random_chains", len(cjobs))
        rep.set("ext_grids_replayed", sum(o.grids for o in eouts))
        rep.set("ext_hand_rules", [h["name"] for h in ext.hand])
        rep.set("ext_integrands", [name for name, _, _ in _G["integrand_items"]])
        rep.set("sum_rule_max_err_over_tolerance", max([o.sum_ratio for o in outs] + [0.0]))
        rep.set("relations_checked", sum(o.relations for o in outs))
    gl_obligations(rep, em, tier, rng)
    keys = set()
    for o in outs:
        for v in o.viol:
            rep.violation(*v)
        keys |= o.keys
        for s in o.samples:
            rep.sample(s)
    n = sum(o.n for o in outs)
    rep.evaluated(n, None)
    rep._nontrivial |= keys
    rep.set("tlc_grids", len(grids))
    rep.set("tlc_exact_values_reproduced_by_evaluator", sum(o.tlc_values for o in outs))
    rep.set("tlc_values_undecided_32bit", sum(o.tlc_undecided for o in outs))
    rep.set("grids_replayed", sum(o.grids for o in outs))
    rep.set("random_pairs", len(rjobs))
    rep.set("inverse_round_trips_skipped_precondition", sum(o.skipped_inverse for o in outs))
    rep.set("pairs_skipped_node_outside_domain", sum(o.skipped_pairs for o in outs))
    rep.set("library_rules_used", sorted({name for name, _, _ in other}))
    rep.set("float_observations", n)
    rep.set("max_err_over_tolerance_accepted", max([o.max_ratio for o in outs] + [0.0]))
    worst = sorted((o for o in outs if o.worst), key=lambda o: -o.max_ratio)[:3]
    rep.set("closest_accepted_observations", [dict(o.worst, ratio=o.max_ratio) for o in worst])
    rep.set("traces_validated_against_impl", sum(o.grids for o in outs))
    rep.set("rule", "one case = one float observation (node, |weight|, sign of the weights, domain, sum rule, "
                    "Gauss-Legendre moment) of a grid returned by transform_1d_grid, compared with Transform1D of the "
                    "specification; distinct = distinct (object, quantity, pair tag, index)")


def models(tier: str, name: str):
    """Both TLC runs, side by side (4 workers each)."""
    from concurrent.futures import ThreadPoolExecutor
    wd, wd2 = tlc.scratch(name), tlc.scratch(name + "-ext")
    with ThreadPoolExecutor(2) as ex:
        f1 = ex.submit(model, tier, wd)
        f2 = ex.submit(model_ext, tier, wd2)
        return f1.result(), f2.result()


def run(tier: str) -> int:
    rep = Report(PROP, tier, "model_checking")
    modelled, (res2, ext) = models(tier, f"{PROP}-{tier}")
    rep.tlc(modelled[0], "MC_Transform1D" + ("_thorough" if tier == "thorough" else ""))
    rep.tlc(res2, "MC_Transform1DExt" + ("_thorough" if tier == "thorough" else ""))
    check(rep, tier, modelled, ext)
    rep.set("exhaustive", False)
    rep.assume("nodes and weights of the library's non-rational rules are taken as given (property C01 judges them)")
    rep.assume("vf/expr_eval.py (generic tree evaluator) is trusted; cross-checked against every exact value TLC printed")
    if os.environ.get("CALIB"):
        print("calibration:", {k: rep.cov.get(k) for k in ("float_observations", "max_err_over_tolerance_accepted", "gl_max_err_over_tolerance")})
    return rep.finish()


def replay(path: str) -> int:
    with open(path) as f:
        v = json.load(f)
    c = v.get("case") or {}
    if "class" not in c or "rule" not in c:
        return run("quick")
    tag = str(c.get("tag", ""))
    if tag.split(":")[0] in ("hand", "chain", "reuse", "chain-random") or "variant" in c:
        # a case of the second model: replay the block of records (or the drawn chain) it belongs to
        tier = v.get("tier", "quick")
        modelled, (_, ext) = models(tier, f"{PROP}-replay")
        em = modelled[1]
        _G.update(em=em, ext=ext, tier=tier, integrand_items=integrand_items(ext))
        cls = next(k for k, n in LIB.items() if n == c["class"])
        expo = c.get("exponent")
        outs = []
        if tag.startswith("chain-random"):
            seed = int(tag.split(":")[1])
            for i in em.instances:
                if i.cls == cls:
                    outs.append(job_chain_random((i.idx, c["rule"], c["n"], seed)))
        else:
            pidx = int(tag.split(":")[1])
            for i in em.instances:
                if i.cls == cls and (not i.ename or (expo is not None and float(expo).is_integer() and i.ip == int(expo))):
                    outs.append(job_ext((i.idx, pidx)))
        keys = sorted({k for o in outs for k, _, _ in o.viol})
        for k in keys:
            print("replay:", k)
        return 1 if v.get("key") in keys or (keys and not v.get("key")) else 0
    wd = tlc.scratch(f"{PROP}-replay")
    _, em, _ = model("quick", wd)
    cls = next(k for k, n in LIB.items() if n == c["class"])
    expo = c.get("exponent")
    ip = int(expo) if expo is not None and float(expo).is_integer() else 0
    inst = em.by(cls, ip if cls in ("Knowles", "Handy", "HandyMod") else 0)
    import grid.onedgrid as od
    out = Out()
    fenv = {k: float(x) for k, x in c["params"].items()}
    rule = getattr(od, c["rule"])(c["n"])
    tenv, _ = _tenv(inst, fenv, expo, float(np.max(rule.points)))
    run_pair(out, inst, fenv, expo, c["rule"], lambda: getattr(od, c["rule"])(c["n"]), "replay", em.trim, map_direction(inst, tenv))
    for k, what, _ in out.viol:
        print("replay:", k, what)
    return 1 if out.viol else 0


# ---------------------------------------------------------------------------------------------
# selftest: in-process mutants of the library (never touches /repo)

MUTANTS = {}


def _mutant(name):
    def deco(f):
        MUTANTS[name] = f
        return f
    return deco


def _t1d(body):
    """Build a transform_1d_grid replacement from a function (self, grid) -> (points, weights, domain)."""
    from grid.basegrid import OneDGrid

    def t1d(self, oned_grid):
        if not isinstance(oned_grid, OneDGrid):
            raise TypeError("not a OneDGrid")
        if oned_grid.domain[0] < self.domain[0] or oned_grid.domain[1] > self.domain[1]:
            raise ValueError("domain")
        return OneDGrid(*body(self, oned_grid))
    return t1d


@_mutant("weights use deriv at the TRANSFORMED points")
def _m1(rt):
    def body(self, g):
        p = self.transform(g.points)
        return p, self.deriv(p) * g.weights, tuple(np.sort(self.transform(np.array(g.domain))))
    rt.BaseTransform.transform_1d_grid = _t1d(body)


@_mutant("domain not sorted (issue #125 regression)")
def _m2(rt):
    def body(self, g):
        return self.transform(g.points), self.deriv(g.points) * g.weights, tuple(self.transform(np.array(g.domain)))
    rt.BaseTransform.transform_1d_grid = _t1d(body)


@_mutant("domain left untransformed")
def _m3(rt):
    def body(self, g):
        return self.transform(g.points), self.deriv(g.points) * g.weights, g.domain
    rt.BaseTransform.transform_1d_grid = _t1d(body)


@_mutant("Jacobian dropped for the last node (off-by-one slice)")
def _m4(rt):
    def body(self, g):
        w = g.weights.copy()
        d = self.deriv(g.points)
        w[:-1] = w[:-1] * d[:-1]
        return self.transform(g.points), w, tuple(np.sort(self.transform(np.array(g.domain))))
    rt.BaseTransform.transform_1d_grid = _t1d(body)


@_mutant("abs() of the whole weight array but points reversed for decreasing maps (nodes/weights misaligned)")
def _m5(rt):
    def body(self, g):
        p = self.transform(g.points)
        w = np.abs(self.deriv(g.points) * g.weights)
        if p[0] > p[-1]:
            p = p[::-1]
        return p, w, tuple(np.sort(self.transform(np.array(g.domain))))
    rt.BaseTransform.transform_1d_grid = _t1d(body)


@_mutant("inferred b taken as the number of points instead of the largest point")
def _m6(rt):
    def bad(self, x):
        if self.b is None:
            self._b = float(np.size(x))
    for c in (rt.LinearInfiniteRTransform, rt.ExpRTransform, rt.PowerRTransform):
        c.set_maximum_parameter_b = bad


@_mutant("new domain taken from the range of the new points instead of the image of the old domain")
def _m7(rt):
    def body(self, g):
        p = self.transform(g.points)
        return p, self.deriv(g.points) * g.weights, (float(np.min(p)), float(np.max(p)))
    rt.BaseTransform.transform_1d_grid = _t1d(body)


@_mutant("LinearFinite.deriv: (rmax - rmin)/2 -> (rmax + rmin)/2 (invisible when rmin = 0)")
def _m8(rt):
    from numbers import Number

    def bad(self, x):
        if isinstance(x, Number):
            return (self._rmax + self._rmin) / 2
        return np.ones(x.size) * (self._rmax + self._rmin) / 2
    rt.LinearFiniteRTransform.deriv = bad


@_mutant("domain check compares the wrong ends (grid domain must EXCEED the transform domain)")
def _m9(rt):
    from grid.basegrid import OneDGrid

    def t1d(self, oned_grid):
        if oned_grid.domain[0] > self.domain[0] or oned_grid.domain[1] < self.domain[1]:
            raise ValueError("domain")
        return OneDGrid(self.transform(oned_grid.points), self.deriv(oned_grid.points) * oned_grid.weights,
                        tuple(np.sort(self.transform(np.array(oned_grid.domain)))))
    rt.BaseTransform.transform_1d_grid = t1d


# ---- mutants for the clauses of the second model and the harness-only relations ----------------

def _bg():
    import grid.basegrid as bg
    return bg


@_mutant("integrate takes the magnitude of the integrand (invisible for positive integrands)")
def _m10(rt):
    bg = _bg()
    orig = bg.Grid.integrate

    def bad(self, *value_arrays):
        return orig(self, *(np.abs(a) for a in value_arrays))
    bg.Grid.integrate = bad


@_mutant("integrate uses only the first of several value arrays")
def _m11(rt):
    bg = _bg()
    orig = bg.Grid.integrate

    def bad(self, *value_arrays):
        return orig(self, value_arrays[0])
    bg.Grid.integrate = bad


@_mutant("nodes are sorted before they are mapped, weights keep their order (invisible for ascending rules)")
def _m12(rt):
    def body(self, g):
        x = np.sort(g.points)
        return self.transform(x), self.deriv(x) * g.weights, tuple(np.sort(self.transform(np.array(g.domain))))
    rt.BaseTransform.transform_1d_grid = _t1d(body)


@_mutant("magnitude of the whole product deriv * weights (negative rule weights become positive)")
def _m13(rt):
    def body(self, g):
        return self.transform(g.points), np.abs(self.deriv(g.points) * g.weights), tuple(np.sort(self.transform(np.array(g.domain))))
    rt.BaseTransform.transform_1d_grid = _t1d(body)


@_mutant("nodes of weight zero are dropped from the new grid")
def _m14(rt):
    def body(self, g):
        keep = g.weights != 0
        return self.transform(g.points)[keep], (self.deriv(g.points) * g.weights)[keep], tuple(np.sort(self.transform(np.array(g.domain))))
    rt.BaseTransform.transform_1d_grid = _t1d(body)


@_mutant("equal nodes are merged (np.unique), their weights added")
def _m15(rt):
    def body(self, g):
        x, inv = np.unique(g.points, return_inverse=True)
        if x.size == g.points.size:
            x, w = g.points, g.weights
        else:
            w = np.zeros(x.size)
            np.add.at(w, inv, g.weights)
        return self.transform(x), self.deriv(x) * w, tuple(np.sort(self.transform(np.array(g.domain))))
    rt.BaseTransform.transform_1d_grid = _t1d(body)


@_mutant("a grid with a single node is rejected")
def _m16(rt):
    def body(self, g):
        if g.size < 2:
            raise ValueError("need at least two points")
        return self.transform(g.points), self.deriv(g.points) * g.weights, tuple(np.sort(self.transform(np.array(g.domain))))
    rt.BaseTransform.transform_1d_grid = _t1d(body)


@_mutant("an omitted b, taken from the first grid, grows when a later grid reaches further (not kept from the first one)")
def _m17(rt):
    def bad(self, x):
        fin = np.asarray(x, dtype=float)
        fin = fin[np.isfinite(fin)]
        if self.b is None:
            self._b = np.max(x)
            self._b_inferred = True
        elif getattr(self, "_b_inferred", False) and fin.size and np.max(fin) > self._b:
            self._b = np.max(fin)
    for c in (rt.LinearInfiniteRTransform, rt.ExpRTransform, rt.PowerRTransform):
        c.set_maximum_parameter_b = bad


@_mutant("the weights of the grid handed in are scaled in place")
def _m18(rt):
    def body(self, g):
        w = g.weights
        w *= self.deriv(g.points)
        return self.transform(g.points), w, tuple(np.sort(self.transform(np.array(g.domain))))
    rt.BaseTransform.transform_1d_grid = _t1d(body)


@_mutant("a domain that is not a tuple (list, array) is rejected")
def _m19(rt):
    def body(self, g):
        if not isinstance(g.domain, tuple):
            raise TypeError("domain must be a tuple")
        return self.transform(g.points), self.deriv(g.points) * g.weights, tuple(np.sort(self.transform(np.array(g.domain))))
    rt.BaseTransform.transform_1d_grid = _t1d(body)


@_mutant("LinearFinite.deriv builds its array with the dtype of the parameters (integer rmin, rmax truncate (rmax-rmin)/2)")
def _m20(rt):
    from numbers import Number

    def bad(self, x):
        if isinstance(x, Number):
            return (self._rmax - self._rmin) / 2
        return np.full(x.size, (self._rmax - self._rmin) / 2, dtype=np.result_type(self._rmax, self._rmin))
    rt.LinearFiniteRTransform.deriv = bad


@_mutant("the default of trim_inf becomes False (Becke)")
def _m21(rt):
    orig = rt.BeckeRTransform.__init__

    def bad(self, rmin, R, trim_inf=False):
        orig(self, rmin, R, trim_inf)
    rt.BeckeRTransform.__init__ = bad


@_mutant("inferred b = number of points - 1 (right for UniformInteger grids only)")
def _m22(rt):
    def bad(self, x):
        if self.b is None:
            self._b = float(np.size(x) - 1)
            if self._b < 1e-16:
                raise ValueError("b")
    for c in (rt.LinearInfiniteRTransform, rt.ExpRTransform, rt.PowerRTransform):
        c.set_maximum_parameter_b = bad


@_mutant("Becke.deriv is nan at the singular end x = 1 (0/0 in a rewritten formula)")
def _m23(rt):
    orig = rt.BeckeRTransform.deriv

    def bad(self, x):
        d = orig(self, x)
        if isinstance(d, np.ndarray):
            d = np.where(np.asarray(x) == 1, np.nan, d)
        return d
    rt.BeckeRTransform.deriv = bad


@_mutant("the domain check accepts only grids on the WHOLE domain of the map (sub-interval grids, chains rejected)")
def _m24(rt):
    from grid.basegrid import OneDGrid

    def t1d(self, oned_grid):
        if float(oned_grid.domain[0]) != float(self.domain[0]) or float(oned_grid.domain[1]) != float(self.domain[1]):
            raise ValueError("domain")
        return OneDGrid(self.transform(oned_grid.points), self.deriv(oned_grid.points) * oned_grid.weights,
                        tuple(np.sort(self.transform(np.array(oned_grid.domain)))))
    rt.BaseTransform.transform_1d_grid = t1d


@_mutant("a grid that shares exactly ONE end with the map's domain gets the image of the map's whole domain")
def _m25(rt):
    def body(self, g):
        lo, hi = float(g.domain[0]) == float(self.domain[0]), float(g.domain[1]) == float(self.domain[1])
        dom = self.domain if lo != hi else g.domain
        return self.transform(g.points), self.deriv(g.points) * g.weights, tuple(np.sort(self.transform(np.array(dom, dtype=float))))
    rt.BaseTransform.transform_1d_grid = _t1d(body)


def selftest(tier: str) -> int:
    import grid.rtransform as rt
    modelled, (_, ext) = models("quick", f"{PROP}-selftest")
    import grid.basegrid as bg
    classes = [getattr(rt, c) for c in dir(rt) if isinstance(getattr(rt, c), type) and getattr(rt, c).__module__ == rt.__name__]
    classes += [bg.Grid, bg.OneDGrid]
    saved = {c: dict(vars(c)) for c in classes}
    killed, missed = [], []
    for name, patch in MUTANTS.items():
        patch(rt)
        try:
            rep = Report(PROP, "quick", "model_checking")
            check(rep, "quick", modelled, ext)
            new = sorted({v["key"] for v in rep.violations if rep._match_known(v["key"]) is None})
        finally:
            for c, d in saved.items():
                for k, v in d.items():
                    if vars(c).get(k) is not v:
                        setattr(c, k, v)
        (killed if new else missed).append(name)
        print(f"selftest mutant {'KILLED' if new else 'MISSED'}: {name}" + (f"  [{len(new)} distinct keys, e.g. {new[:3]}]" if new else ""))
    print(f"selftest: {len(killed)}/{len(MUTANTS)} mutants killed")
    return 0 if not missed else 1
