"""C18 - multi-domain integration equals the iterated product quadrature.

Flow (DESIGN.md section 5, C18; specification /verif/spec/NGrid.tla):
 1. the tier parameters (catalogue of integer grids - 1-D scalar points and 3-D vector points,
    sizes 1..3 (thorough: 1..4) -, maximal number of domains, bound on the total size) are
    written to Gen_ngrid.tla; TLC (module Emit_ngrid, constant-level) emits the configuration
    list NGrid!Configs and, for every configuration and every integrand of the specification's
    family, the table  multi-index -> integrand value                        -> ngrid_cases.json
 2. every configuration is built as MultiDomainGrid(grid_list[, num_domains]); recorded are
    num_domains, size, list(points), list(weights) and the integrals of every integrand:
    vectorised, point-by-point with the default chunk size, point-by-point with EVERY chunk size
    1..total+1.  The integrand handed to the library is a lookup in the TLC-emitted table by
    the coordinates it is called with (no integrand formula exists on the Python side).
    Everything is integer-valued, so the float results are exact integers        -> obs_ngrid.json
 3. ONE TLC run over NGrid.tla: for every configuration, integrand, route and chunk size the
    step-by-step algorithm (odometer product, chunked generators, zip, vectorised loop,
    single-domain shortcut) is executed and checked against the definition (ResultIsNestedSum,
    SeparableIsProduct, Aligned, VAligned, NothingDropped, AllConsumed, SizeLaw, OdometerOrder,
    ShortcutOnlyForOneDomain), and every recorded observation is judged (ObsCfgConforms,
    ObsRunConforms; all mismatches are printed and reported).
No tolerance is involved: |values| < 2^31, sums of products of small integers are exact in
binary64; a float result that is not an exact integer is itself reported.

Audit extension (all stated in NGrid.tla, sections "C18 audit"):
 * catalogue: a planar (2-D points) grid and a grid WITHOUT points (size 0: empty product, integral 0);
 * chunk size Huge = 10^9 next to 1..total+1 (model run and observation);
 * the instance is enumerated a second time after all integrals, with half-consumed generators of the first
   enumeration still alive (ObsReEnumConforms);
 * "separable => product of single-grid integrals" on the implementation: Grid.integrate of every domain on
   the TLC-emitted factor values must be NGrid!Single and their product the observed multi-domain integral
   (ObsSinglesConform);
 * LARGE configurations (NGrid!BigCfgs; quick: one grid of 20 points three times = 8000 points; thorough also 90 x 90
   and 20 x 90 x 4): more points than the default integration_chunk_size, so the default point-by-point call works in
   several chunks; chunk sizes NGrid!BigChunks; judged against the definition (ObsBigConforms);
 * FORMS (NGrid!FormOf, drawn per configuration from pools in the specification as a function of VERIF_SEED):
   dtype of weight / point arrays (f8, i8, i4, f4, longdouble), dyadic non-integer weights w/2^a, affine
   non-integer points, dyadic integrand values, 1-D points as (n,1) columns, class of the grid objects
   (Grid/OneDGrid, LocalGrid, a subclass that overrides `points` the way AtomGrid does), ONE object for equal
   list entries, return type of the integrand (python float/int, numpy scalars, 0-d, int / float32 /
   longdouble / non-contiguous / read-only arrays), call form (keywords, positional, numpy scalars; the
   vectorised call with explicit non_vectorized=False and a chunk size), order enumeration <-> integrals.
   Law: observation * 2^(known exponent) = NestedSum - still exact, no tolerance (dyadic scaling is exact in
   binary floating point; binary32 everywhere is excluded by the specification because it cannot hold the sums).
"""
from __future__ import annotations

import json
import random

import numpy as np

from .. import tlc
from ..evidence import Report

PROP = "C18"
BAD = -2000000000          # marks "exception / not an integer" in the integer observation arrays
INVARIANTS = ("ResultIsNestedSum SeparableIsProduct Aligned VAligned NothingDropped AllConsumed "
              "ShortcutOnlyForOneDomain SizeLaw OdometerOrder ObsCfgConforms ObsRunConforms "
              "ObsReEnumConforms ObsSinglesConform FormsWellFormed ObsFormCfgConforms ObsFormRunConforms "
              "BigWellFormed ObsBigConforms").split()
HUGE = 10 ** 9             # NGrid!Huge
WORKERS = 8
NF = 6
FNAMES = {1: "one", 2: "prod S(p_d)", 3: "prod (Q(p_d)+d)", 4: "sum d*S(p_d)", 5: "sum_d prod_{e<=d} S(p_e)",
          6: "(sum S(p_d))^2 - Q(p_n)"}

CAT_QUICK = [
    {"pd": 1, "w": [2, 3], "p": [[-1], [2]]},
    {"pd": 3, "w": [5], "p": [[1, -2, 2]]},
    {"pd": 1, "w": [1, 4, -2], "p": [[3], [0], [-2]]},
    {"pd": 3, "w": [3, 1], "p": [[0, 1, -1], [2, 0, 1]]},
    {"pd": 3, "w": [2, 1, 3], "p": [[1, 1, 0], [-1, 0, 2], [0, -2, 1]]},
]
# audit: a planar grid (2-D points) and a grid without points
CAT_EXTRA = [
    {"pd": 2, "w": [-1, 3], "p": [[2, -1], [0, 1]]},
    {"pd": 1, "w": [], "p": []},
]


def _random_grid(rng, pd, n):
    pts = set()
    while len(pts) < n:          # magnitudes keep every nested sum of the family far below 2^31 (TLC integers)
        pts.add(tuple(rng.randint(-2, 2) for _ in range(pd)))
    pts = list(pts)
    rng.shuffle(pts)
    return {"pd": pd, "w": [rng.choice([-2, -1, 1, 2, 3, 4]) for _ in range(n)], "p": [list(p) for p in pts]}


def _big_grids():
    """Two deterministic larger grids (appended to the catalogue; far too large for the exhaustive list): 1-D with 20
    unsorted points, 3-D with 90 points.  Magnitudes keep sum |W||F| of every integrand below 2^31 (TLC integers)."""
    rng = random.Random(18)
    p1 = list(range(-10, 10))
    rng.shuffle(p1)
    lattice = [(a, b, c) for a in range(-2, 3) for b in range(-2, 3) for c in range(-2, 3)]
    rng.shuffle(lattice)
    w1 = [[1, -1, 2, 1][i % 4] for i in range(20)]
    w3 = [[1, 2, -1, 1, -2, 3][i % 6] for i in range(90)]
    return [{"pd": 1, "w": w1, "p": [[v] for v in p1]}, {"pd": 3, "w": w3, "p": [list(v) for v in lattice[:90]]}]


def params(tier, seed):
    """Cat = the NSmall exhaustively combined grids + the two big grids (indices nb+1, nb+2: only in BigCfgs)."""
    if tier == "quick":
        cat = CAT_QUICK + CAT_EXTRA
        nb = len(cat)
        return dict(Cat=cat + _big_grids(), NSmall=nb, MaxDomains=3, MaxTotal=27,
                    BigCfgs=[{"rep": True, "nd": 3, "gl": [nb + 1]}])
    rng = random.Random(seed)
    cat = [CAT_QUICK[0], CAT_QUICK[1], CAT_QUICK[4],
           _random_grid(rng, 1, 4), _random_grid(rng, 3, 4), _random_grid(rng, 1, 3), _random_grid(rng, 3, 2),
           _random_grid(rng, 2, 3), CAT_EXTRA[1]]
    nb = len(cat)
    return dict(Cat=cat + _big_grids(), NSmall=nb, MaxDomains=4, MaxTotal=36,
                BigCfgs=[{"rep": True, "nd": 3, "gl": [nb + 1]}, {"rep": False, "nd": 2, "gl": [nb + 2, nb + 2]},
                         {"rep": False, "nd": 3, "gl": [nb + 1, nb + 2, 4]}])


def write_gen(wd, par, obs_file=None, skew=0, seed=0, obsf_file=None, obsb_file=None):
    lines = ["---- MODULE Gen_ngrid ----",
             "\\* generated by vf/props/c18.py: tier parameters and recorded observations",
             "EXTENDS Integers, Sequences, TLC, Json",
             "Cat == " + tlc.tla([{"pd": g["pd"], "w": g["w"], "p": g["p"]} for g in par["Cat"]]),
             f"MaxDomains == {par['MaxDomains']}", f"MaxTotal == {par['MaxTotal']}", f"Skew == {skew}",
             f"Seed == {int(seed) % 1000003}", f"NSmall == {par.get('NSmall', len(par['Cat']))}",
             "BigCfgs == " + tlc.tla([{"rep": bool(c["rep"]), "nd": c["nd"], "gl": c["gl"]} for c in par.get("BigCfgs", [])])]
    lines.append(f'Obs == JsonDeserialize("{obs_file}")' if obs_file else "Obs == <<>>")
    lines.append(f'ObsF == JsonDeserialize("{obsf_file}")' if obsf_file else "ObsF == <<>>")
    lines.append(f'ObsBig == JsonDeserialize("{obsb_file}")' if obsb_file else "ObsBig == <<>>")
    lines.append("====")
    (wd / "Gen_ngrid.tla").write_text("\n".join(lines) + "\n")


EMIT = r"""---- MODULE Emit_ngrid ----
\* generated by vf/props/c18.py: configurations and integrand tables for the replay harness
EXTENDS NGrid
CfgJson(k) ==
    LET cf == Configs[k] IN
    [rep |-> cf.rep, nd |-> cf.nd, gl |-> cf.gl, total |-> Total(cf),
     ftab |-> [fi \in 1..NF |-> [t \in 1..Total(cf) |-> <<EnumDecl(cf)[t], FVal(cf, fi, EnumDecl(cf)[t])>>]],
     fact |-> [fi \in 1..3 |-> [d \in 1..cf.nd |-> [i \in 1..GSize(Dom(cf)[d]) |-> Factor(fi, d, Cat[Dom(cf)[d]].p[i])]]],
     form |-> FormOf(k), we |-> WE(cf, FormOf(k))]
BigJson(b) ==
    LET cf == BigCfgs[b] IN
    [rep |-> cf.rep, nd |-> cf.nd, gl |-> cf.gl, total |-> Total(cf), chunks |-> BigChunks(cf),
     ftab |-> [fi \in 1..NF |-> [t \in 1..Total(cf) |-> <<EnumDecl(cf)[t], FVal(cf, fi, EnumDecl(cf)[t])>>]]]
ASSUME JsonSerialize("ngrid_cases.json", [cat |-> Cat, cfgs |-> [k \in 1..Len(Configs) |-> CfgJson(k)],
                                          bigs |-> [b \in 1..Len(BigCfgs) |-> BigJson(b)]])
====
"""


def emit_cases(wd):
    (wd / "Emit_ngrid.tla").write_text(EMIT)
    (wd / "Emit.cfg").write_text("SPECIFICATION Spec\nCONSTRAINT StaticOnly\n")
    res = tlc.run_tlc("Emit_ngrid", wd / "Emit.cfg", wd, workers=1, timeout=900).require_ok("Emit_ngrid")
    if res.status != "ok":
        raise tlc.MachineryError("Emit_ngrid: " + res.stdout[-2000:])
    with open(wd / "ngrid_cases.json") as fh:
        return json.load(fh), res


# ---------------------------------------------------------------------------------------------
# driving the implementation

def _key(p):
    return tuple(int(round(float(v))) for v in np.atleast_1d(np.asarray(p, dtype=float)))


def _point_fn(table):
    def f(*pts):
        return float(table[tuple(_key(p) for p in pts)])
    return f


def _vec_fn(table):
    """A tabulated integrand ("for all integrands"): the value array for fixed leading arguments is computed once
    and the SAME float array is handed out on every later evaluation, as a caller's lookup table would be."""
    memo = {}

    def f(*args):
        pre = tuple(_key(p) for p in args[:-1])
        x = np.asarray(args[-1], dtype=float)
        rows = x.reshape(len(x), -1) if len(x) else []
        k = (pre, tuple(_key(r) for r in rows))
        if k not in memo:
            memo[k] = np.array([float(table[pre + (kr,)]) for kr in k[1]])
        return memo[k]
    return f


def _to_int(x):
    try:
        v = float(x)
    except Exception:
        return BAD
    if not np.isfinite(v) or v != round(v) or abs(v) >= 2 ** 31 - 1:
        return BAD
    return int(round(v))


def _arrays(c):
    pts = np.array(c["p"], dtype=float).reshape(len(c["p"]), c["pd"])
    return pts, np.array(c["w"], dtype=float)


def _build(cat, cfg):
    from grid.basegrid import Grid, OneDGrid
    from grid.ngrid import MultiDomainGrid
    grids = []
    for g in cfg["gl"]:
        c = cat[g - 1]
        pts, w = _arrays(c)
        if c["pd"] == 1:   # 1-D grids: scalar points; catalogue entries 1, 5, ... as OneDGrid (a Grid subclass)
            grids.append(OneDGrid(pts[:, 0].copy(), w) if g % 4 == 1 else Grid(pts[:, 0].copy(), w))
        else:
            grids.append(Grid(pts, w))
    return MultiDomainGrid(grids, num_domains=cfg["nd"]) if cfg["rep"] else MultiDomainGrid(grids)


def _tables(cat, cfg):
    doms = cfg["gl"] * cfg["nd"] if cfg["rep"] else cfg["gl"]
    out = []
    for fi in range(1, NF + 1):
        table = {}
        for mi, val in cfg["ftab"][fi - 1]:
            table[tuple(tuple(cat[doms[d] - 1]["p"][i - 1]) for d, i in enumerate(mi))] = val
        out.append(table)
    return out


def observe(cat, cfg):
    """Observation record of one configuration; exceptions become BAD entries."""
    total = cfg["total"]
    nd = cfg["nd"]
    o = {"st": "ok", "nd": BAD, "size": BAD, "pts": [], "wts": [], "vec": [BAD] * NF, "dflt": [BAD] * NF,
         "pbp": [[BAD] * (total + 2) for _ in range(NF)],          # chunk sizes 1..total+1 and HUGE
         "size2": BAD, "pts2": [], "wts2": [], "single": [[BAD] * nd for _ in range(3)]}
    notes = []
    try:
        mg = _build(cat, cfg)
    except Exception as e:
        o["st"] = f"ctor:{type(e).__name__}"
        return o, [f"constructor: {type(e).__name__}: {e}"]
    alive = []
    try:
        o["nd"] = _to_int(mg.num_domains)
        o["size"] = _to_int(mg.size)
        o["pts"] = [[list(_key(p)) for p in tup] for tup in mg.points]
        o["wts"] = [_to_int(w) for w in mg.weights]
        # generators of a further enumeration that stay half-consumed while everything below happens
        alive = [mg.points, mg.weights]
        for it in alive:
            next(it, None)
    except Exception as e:
        o["st"] = f"enum:{type(e).__name__}"
        notes.append(f"size/points/weights: {type(e).__name__}: {e}")
    for fi, table in enumerate(_tables(cat, cfg), start=1):
        fpt, fvec = _point_fn(table), _vec_fn(table)
        try:
            first = _to_int(mg.integrate(fvec))
            # evaluated a second time, the tabulated integrand returns the arrays it returned before
            again = _to_int(mg.integrate(fvec))
            o["vec"][fi - 1] = again if again == first else BAD
            if again != first:
                notes.append(f"integrate(vectorised) f{fi}: {first} on the first evaluation, {again} on the second "
                             "(same grid, same tabulated integrand)")
        except Exception as e:
            notes.append(f"integrate(vectorised) f{fi}: {type(e).__name__}: {e}")
        try:
            o["dflt"][fi - 1] = _to_int(mg.integrate(fpt, non_vectorized=True))
        except Exception as e:
            notes.append(f"integrate(non_vectorized, default chunk) f{fi}: {type(e).__name__}: {e}")
        for pos, c in enumerate(list(range(1, total + 2)) + [HUGE]):
            try:
                o["pbp"][fi - 1][pos] = _to_int(mg.integrate(fpt, non_vectorized=True, integration_chunk_size=c))
            except Exception as e:
                if len(notes) < 6:
                    notes.append(f"integrate(non_vectorized, chunk={c}) f{fi}: {type(e).__name__}: {e}")
    # separable integrands: the single-grid integrals of the factors (factor values emitted by TLC)
    for fi in range(1, 4):
        for d in range(nd):
            try:
                gd = mg.grid_list[0] if cfg["rep"] else mg.grid_list[d]
                o["single"][fi - 1][d] = _to_int(gd.integrate(np.array(cfg["fact"][fi - 1][d], dtype=float)))
            except Exception as e:
                if len(notes) < 6:
                    notes.append(f"Grid.integrate of domain {d + 1}, factor of f{fi}: {type(e).__name__}: {e}")
    # the same instance enumerated again, after all the integrals
    try:
        o["size2"] = _to_int(mg.size)
        o["pts2"] = [[list(_key(p)) for p in tup] for tup in mg.points]
        o["wts2"] = [_to_int(w) for w in mg.weights]
        for it in alive:
            next(it, None)
    except Exception as e:
        notes.append(f"second enumeration: {type(e).__name__}: {e}")
    return o, notes


# ---------------------------------------------------------------------------------------------
# forms (NGrid!FormOf): the same configuration presented differently

_DT = {"f8": np.float64, "i8": np.int64, "i4": np.int32, "f4": np.float32, "f16": np.longdouble}
_CLS = {}


def _shift_classes():
    """Subclasses that keep centred points and override the `points` property, as AtomGrid does."""
    if not _CLS:
        from grid.basegrid import Grid, OneDGrid

        class ShiftGrid(Grid):
            def __init__(self, points, weights, center):
                super().__init__(points - center, weights)
                self._center = center

            @property
            def points(self):
                return self._points + self._center

        class ShiftOneDGrid(OneDGrid):
            def __init__(self, points, weights, center):
                super().__init__(points - center, weights)
                self._center = center

            @property
            def points(self):
                return self._points + self._center
        _CLS.update(ShiftGrid=ShiftGrid, ShiftOneDGrid=ShiftOneDGrid)
    return _CLS


def _form_grid(c, g, form):
    from grid.basegrid import Grid, LocalGrid, OneDGrid
    pts, w = _arrays(c)
    w = (w / 2.0 ** form["wsh"][g - 1]).astype(_DT[form["wdt"]])
    pts = (pts / 2.0 ** form["psh"] + form["pof"] / 8.0).astype(_DT[form["pdt"]])
    flat = c["pd"] == 1 and not form["col"]
    if flat:
        pts = pts[:, 0].copy()
    cls = form["cls"]
    if cls == "Local":
        center = pts.dtype.type(0) if flat else np.zeros(pts.shape[1], dtype=pts.dtype)
        return LocalGrid(pts, w, center)
    if cls == "Shift":
        center = pts.dtype.type(3) if flat else np.arange(3, 3 + pts.shape[1]).astype(pts.dtype)
        k = _shift_classes()
        return (k["ShiftOneDGrid"] if flat and g % 2 else k["ShiftGrid"])(pts, w, center)
    return OneDGrid(pts, w) if flat and g % 4 == 1 else Grid(pts, w)


def _build_form(cat, cfg, form):
    from grid.ngrid import MultiDomainGrid
    grids, made = [], {}
    for g in cfg["gl"]:
        if form["alias"] and g in made:
            grids.append(made[g])        # ONE object for equal entries of the list
            continue
        made[g] = _form_grid(cat[g - 1], g, form)
        grids.append(made[g])
    if form["call"] == "pos":          # the constructor follows the call form as well
        return MultiDomainGrid(grids, cfg["nd"]) if cfg["rep"] else MultiDomainGrid(grids)
    if form["call"] == "kw":
        return MultiDomainGrid(grid_list=grids, num_domains=cfg["nd"] if cfg["rep"] else None)
    return MultiDomainGrid(grids, num_domains=cfg["nd"]) if cfg["rep"] else MultiDomainGrid(grids, None)


def _fkey(p, form):
    a = np.atleast_1d(np.asarray(p, dtype=float))
    return tuple(int(round(float(v))) for v in (a - form["pof"] / 8.0) * 2.0 ** form["psh"])


_RETP = {"float": float, "int": lambda v: int(round(v)), "f8": np.float64, "f4": np.float32,
         "0d": lambda v: np.array(v), "f16": np.longdouble}


def _ret_array(vals, kind):
    if kind == "i8":
        return vals.astype(np.int64)
    if kind == "f4":
        return vals.astype(np.float32)
    if kind == "f16":
        return vals.astype(np.longdouble)
    if kind == "strided":
        return np.repeat(vals, 2)[::2]
    if kind == "readonly":
        vals = vals.copy()
        vals.setflags(write=False)
    return vals


def _form_point_fn(table, form):
    conv, sc = _RETP[form["retp"]], 2.0 ** form["fshp"]

    def f(*pts):
        return conv(table[tuple(_fkey(p, form) for p in pts)] / sc)
    return f


def _form_vec_fn(table, form):
    memo, sc = {}, 2.0 ** form["fshv"]

    def f(*args):
        pre = tuple(_fkey(p, form) for p in args[:-1])
        x = np.asarray(args[-1], dtype=float)
        rows = x.reshape(len(x), -1) if len(x) else []
        k = (pre, tuple(_fkey(r, form) for r in rows))
        if k not in memo:
            memo[k] = _ret_array(np.array([table[pre + (kr,)] / sc for kr in k[1]], dtype=float), form["retv"])
        return memo[k]
    return f


def observe_form(cat, cfg):
    """Observation of the configuration in its form cfg["form"]; every number is multiplied by the power of two the
    specification names (exact), so that integers are handed to the judge."""
    form, we, total = cfg["form"], cfg["we"], cfg["total"]
    o = {"st": "ok", "nd": BAD, "size": BAD, "pts": [], "wts": [], "vec": [BAD] * NF, "vecx": [BAD] * NF,
         "pbp": [[BAD] * 3 for _ in range(NF)]}
    notes = []
    try:
        mg = _build_form(cat, cfg, form)
    except Exception as e:
        o["st"] = f"ctor:{type(e).__name__}"
        return o, [f"constructor: {type(e).__name__}: {e}"]

    def enum():
        try:
            o["nd"] = _to_int(mg.num_domains)
            o["size"] = _to_int(mg.size)
            o["pts"] = [[list(_fkey(p, form)) for p in tup] for tup in mg.points]
            o["wts"] = [_to_int(w * 2.0 ** we) for w in mg.weights]
        except Exception as e:
            o["st"] = f"enum:{type(e).__name__}"
            notes.append(f"size/points/weights: {type(e).__name__}: {e}")

    call = form["call"]
    c1 = form["chunks"][0]

    def vec_again(f):
        if call == "kw":
            return mg.integrate(f, non_vectorized=False, integration_chunk_size=c1)
        if call == "pos":
            return mg.integrate(f, False, c1)
        return mg.integrate(f, np.False_, np.int64(c1))

    def pbp(f, c):
        if call == "kw":
            return mg.integrate(f, non_vectorized=True, integration_chunk_size=c)
        if call == "pos":
            return mg.integrate(f, True, c)
        return mg.integrate(f, np.True_, np.int64(c))

    if form["first"] == "enum":
        enum()
    for fi, table in enumerate(_tables(cat, cfg), start=1):
        fpt, fvec = _form_point_fn(table, form), _form_vec_fn(table, form)
        sv, sp = 2.0 ** (we + form["fshv"]), 2.0 ** (we + form["fshp"])
        try:
            o["vec"][fi - 1] = _to_int(mg.integrate(fvec) * sv)
        except Exception as e:
            notes.append(f"integrate(vectorised) f{fi}: {type(e).__name__}: {e}")
        try:
            o["vecx"][fi - 1] = _to_int(vec_again(fvec) * sv)
        except Exception as e:
            notes.append(f"integrate(non_vectorized=False, chunk={c1}; {call}) f{fi}: {type(e).__name__}: {e}")
        for pos, c in enumerate(form["chunks"]):
            try:
                o["pbp"][fi - 1][pos] = _to_int(pbp(fpt, c) * sp)
            except Exception as e:
                if len(notes) < 6:
                    notes.append(f"integrate(non_vectorized, chunk={c}; {call}) f{fi}: {type(e).__name__}: {e}")
    if form["first"] != "enum":
        enum()
    return o, notes


def observe_big(cat, cfg):
    """A configuration with more points than the default integration_chunk_size: enumeration, vectorised (twice),
    point-by-point with the default chunk size (several chunks!) and with the chunk sizes NGrid!BigChunks."""
    o = {"st": "ok", "nd": BAD, "size": BAD, "pts": [], "wts": [], "vec": [BAD] * NF, "dflt": [BAD] * NF,
         "pbp": [[BAD] * len(cfg["chunks"]) for _ in range(NF)]}
    notes = []
    try:
        mg = _build(cat, cfg)
        o["nd"] = _to_int(mg.num_domains)
        o["size"] = _to_int(mg.size)
        o["pts"] = [[list(_key(p)) for p in tup] for tup in mg.points]
        o["wts"] = [_to_int(w) for w in mg.weights]
    except Exception as e:
        o["st"] = f"enum:{type(e).__name__}"
        return o, [f"constructor/size/points/weights: {type(e).__name__}: {e}"]
    for fi, table in enumerate(_tables(cat, cfg), start=1):
        fpt, fvec = _point_fn(table), _vec_fn(table)
        try:
            first = _to_int(mg.integrate(fvec))
            again = _to_int(mg.integrate(fvec))
            o["vec"][fi - 1] = again if again == first else BAD
        except Exception as e:
            notes.append(f"integrate(vectorised) f{fi}: {type(e).__name__}: {e}")
        try:
            o["dflt"][fi - 1] = _to_int(mg.integrate(fpt, non_vectorized=True))
        except Exception as e:
            notes.append(f"integrate(non_vectorized, default chunk) f{fi}: {type(e).__name__}: {e}")
        for pos, c in enumerate(cfg["chunks"]):
            try:
                o["pbp"][fi - 1][pos] = _to_int(mg.integrate(fpt, non_vectorized=True, integration_chunk_size=c))
            except Exception as e:
                if len(notes) < 6:
                    notes.append(f"integrate(non_vectorized, chunk={c}) f{fi}: {type(e).__name__}: {e}")
    return o, notes


def form_name(form):
    return (f"w={form['wdt']}/2^{max(form['wsh'])},p={form['pdt']}/2^{form['psh']}+{form['pof']}/8,"
            f"{'col,' if form['col'] else ''}{form['cls']}{',alias' if form['alias'] else ''},ret={form['retv']}/{form['retp']},"
            f"call={form['call']},first={form['first']}")


def _worker(args):
    cat, chunk = args
    if chunk and chunk[0][0] < 0:          # a big configuration (index -b)
        return [(k, *observe_big(cat, cfg), None, None) for k, cfg in chunk]
    return [(k, *observe(cat, cfg), *observe_form(cat, cfg)) for k, cfg in chunk]


def cfg_name(cat, cfg):
    gs = ",".join(f"{cat[g - 1]['pd']}D*{len(cat[g - 1]['w'])}#{g}" for g in cfg["gl"])
    return f"grids=[{gs}]:num_domains={cfg['nd'] if cfg['rep'] else None}"


# ---------------------------------------------------------------------------------------------

def run(tier: str) -> int:
    rep = Report(PROP, tier, "model_checking")
    _execute(rep, tier)
    return rep.finish()


def _execute(rep, tier, skew=0, tag=None):
    par = params(tier, rep.seed)
    wd = tlc.scratch(f"{PROP}-{tag or tier}")
    write_gen(wd, par, seed=rep.seed)
    data, r_emit = emit_cases(wd)
    rep.tlc(r_emit, "Emit_ngrid")
    cat, cfgs = data["cat"], data["cfgs"]

    bigs = data.get("bigs", [])
    jobs = [(cat, [(-(b + 1), bigs[b])]) for b in range(len(bigs))]          # the long jobs first
    jobs += [(cat, [(k, cfgs[k]) for k in range(i, len(cfgs), 48)]) for i in range(48)]
    obs = [None] * len(cfgs)
    obsb = [None] * len(bigs)
    bnotes = {}
    obsf = [None] * len(cfgs)
    notes, fnotes = {}, {}
    import multiprocessing as mp
    with mp.get_context("fork").Pool(WORKERS) as pool:
        for part in pool.imap_unordered(_worker, jobs):
            for k, o, nt, of, fnt in part:
                if k < 0:
                    obsb[-k - 1] = o
                    bnotes[-k - 1] = nt
                    continue
                obs[k], obsf[k] = o, of
                if nt:
                    notes[k] = nt
                if fnt:
                    fnotes[k] = fnt
    ncalls = 0
    for k, cfg in enumerate(cfgs):
        n = NF * (cfg["total"] + 4) + 3 * cfg["nd"] + NF * 5
        ncalls += n
        rep.evaluated(n + 3, (cfg["rep"], cfg["nd"], tuple(cfg["gl"])))
    for b, cfg in enumerate(bigs):
        n = NF * (len(cfg["chunks"]) + 3)
        ncalls += n
        rep.evaluated(n + 1, ("big", cfg["rep"], cfg["nd"], tuple(cfg["gl"])))
    (wd / "obsb_ngrid.json").write_text(json.dumps(obsb))
    rep.set("large_configurations", [f"{cfg_name(cat, c)}: {c['total']} points, chunk sizes {c['chunks']}" for c in bigs])
    rep.set("configurations", len(cfgs))
    rep.set("integrate_calls", ncalls)
    (wd / "obs_ngrid.json").write_text(json.dumps(obs))
    (wd / "obsf_ngrid.json").write_text(json.dumps(obsf))
    for k in (0, len(cfgs) // 3, len(cfgs) // 2, len(cfgs) - 1):
        rep.sample({"config": cfg_name(cat, cfgs[k]), "total": cfgs[k]["total"], "size": obs[k]["size"],
                    "weights": obs[k]["wts"][:8], "vectorised": obs[k]["vec"], "point_by_point_chunk1": [r[0] for r in obs[k]["pbp"]],
                    "form": form_name(cfgs[k]["form"]), "form_vectorised_scaled": obsf[k]["vec"]})
    pools = {}
    for cfg in cfgs:
        for fld in ("wdt", "pdt", "cls", "retv", "retp", "call", "first", "col", "alias"):
            pools.setdefault(fld, {}).setdefault(str(cfg["form"][fld]), 0)
            pools[fld][str(cfg["form"][fld])] += 1
    rep.set("forms_drawn", pools)

    write_gen(wd, par, obs_file="obs_ngrid.json", skew=skew, seed=rep.seed, obsf_file="obsf_ngrid.json", obsb_file="obsb_ngrid.json")
    (wd / "MC_NGrid.cfg").write_text("SPECIFICATION Spec\n" + "".join(f"INVARIANT {i}\n" for i in INVARIANTS))
    res = tlc.run_tlc("NGrid", wd / "MC_NGrid.cfg", wd, workers=WORKERS, timeout=3000, coverage=(tier == "quick")).require_ok("MC_NGrid")
    rep.tlc(res, "MC_NGrid")
    if res.status == "ok" and tier == "quick":   # vacuity guard (action coverage is collected in the quick tier only: it costs ~50% CPU): every action of the algorithm was taken
        idle = [a for a in ("PickCfg", "PickRun", "Start", "VStep", "PNextW", "PNextV", "PAcc") if res.coverage.get(a, (0, 0))[0] == 0]
        if idle:
            raise tlc.MachineryError(f"NGrid: actions never taken: {idle} (coverage {res.coverage})")
    if res.status == "violation":
        st = tlc.last_state(res)
        k = st.get("n_k")
        name = cfg_name(cat, cfgs[k - 1]) if isinstance(k, int) and 1 <= k <= len(cfgs) else "?"
        rep.violation(f"model:{','.join(res.violated)}:{name}:f={st.get('n_fi')}:{st.get('n_route')}:chunk={st.get('n_chunk')}",
                      f"TLC: invariant(s) {res.violated} of NGrid.tla violated (algorithm of ngrid.py vs. nested-sum definition)", st)
    for t in tlc.tagged(res.stdout, "MISMATCH"):
        k = t[2]
        if t[1] in ("bigcfg", "bigrun"):
            cfg, o = bigs[k - 1], obsb[k - 1]
            name = cfg_name(cat, cfg)
            nt = "; ".join((bnotes.get(k - 1) or [])[:3])
            slim = {f: o[f] for f in ("st", "nd", "size", "vec", "dflt", "pbp")}
            if t[1] == "bigcfg":
                rep.violation(f"large-enumeration:{name}",
                              f"{cfg['total']} points: num_domains/size/points/weights differ from the product set in product order: status "
                              f"{o['st']}, num_domains {o['nd']}, size {o['size']}, weights {o['wts'][:8]} {nt}",
                              {"big": {f: cfg[f] for f in ("rep", "nd", "gl", "total", "chunks")}, "tier": tier, "observed": slim})
            else:
                fi, exp = t[3], t[4]
                rep.violation(f"large-integrate:f={fi}:{name}",
                              f"{cfg['total']} points (more than the default chunk size 6000), integrand {FNAMES[fi]}: nested sum {exp}; "
                              f"vectorised {o['vec'][fi - 1]}, point-by-point default chunk {o['dflt'][fi - 1]}, chunk sizes "
                              f"{cfg['chunks']}: {o['pbp'][fi - 1]} ({BAD} = exception or non-integer) {nt}",
                              {"big": {f: cfg[f] for f in ("rep", "nd", "gl", "total", "chunks")}, "tier": tier, "fi": fi, "expected": exp,
                               "observed": slim})
            continue
        cfg = cfgs[k - 1]
        name = cfg_name(cat, cfg)
        nt = "; ".join(notes.get(k - 1, [])[:3])
        fnt = "; ".join(fnotes.get(k - 1, [])[:3])
        o, of = obs[k - 1], obsf[k - 1]
        if t[1] == "cfg":
            rep.violation(f"enumeration:{name}",
                          f"num_domains/size/points/weights of MultiDomainGrid differ from the product set in product order: "
                          f"status {o['st']}, num_domains {o['nd']}, size {o['size']} (specification: {cfg['nd']}, {cfg['total']}), "
                          f"weights {o['wts'][:12]} {nt}", {"config": cfg, "cat": cat, "observed": o})
        elif t[1] == "cfg2":
            rep.violation(f"re-enumeration:{name}",
                          f"size/points/weights enumerated again after the integrals (half-consumed generators alive) differ from the "
                          f"product set: size {o['size2']} (specification: {cfg['total']}), weights {o['wts2'][:12]} {nt}",
                          {"config": cfg, "cat": cat, "observed": o})
        elif t[1] == "single":
            _, _, _, _, fi, exp, got, vec = t
            rep.violation(f"separable:f={fi}:{name}",
                          f"separable integrand {FNAMES[fi]}: single-grid integrals (Grid.integrate per domain) {got}, specification {exp}; "
                          f"their product must be the multi-domain integral, observed {vec} {nt}",
                          {"config": cfg, "cat": cat, "fi": fi, "kind": "single", "expected": exp, "observed": o})
        elif t[1] == "fcfg":
            rep.violation(f"form-enumeration:{name}:{form_name(cfg['form'])}",
                          f"num_domains/size/points/weights (weights * 2^{cfg['we']}) in this form differ from the product set: status "
                          f"{of['st']}, num_domains {of['nd']}, size {of['size']} (specification: {cfg['nd']}, {cfg['total']}), "
                          f"weights {of['wts'][:12]} {fnt}", {"config": cfg, "cat": cat, "kind": "form", "observed": of})
        elif t[1] == "frun":
            _, _, _, _, fi, route, chunk, exp, got = t
            what = (f"vectorised: integrate(f) and integrate(f, False, {cfg['form']['chunks'][0]})" if route == "vec"
                    else f"non_vectorized, integration_chunk_size={chunk} (entries for chunk sizes {cfg['form']['chunks']})")
            rep.violation(f"form-integrate:{route}:chunk={chunk}:f={fi}:{name}:{form_name(cfg['form'])}",
                          f"integrate ({what}) of integrand {FNAMES[fi]} in this form: nested sum is {exp}, implementation returned "
                          f"(times the power of two of the form) {got} ({BAD} = exception or not the exact value) {fnt}",
                          {"config": cfg, "cat": cat, "kind": "form", "fi": fi, "route": route, "chunk": chunk, "expected": exp,
                           "observed": of})
        else:
            _, _, _, _, fi, route, chunk, exp, got = t
            what = "vectorised / non_vectorized default chunk" if route == "vec" else f"non_vectorized, integration_chunk_size={chunk}"
            rep.violation(f"integrate:{route}:chunk={chunk}:f={fi}:{name}",
                          f"integrate ({what}) of integrand {FNAMES[fi]}: nested sum is {exp}, implementation returned {got} "
                          f"({BAD} = exception or non-integer) {nt}",
                          {"config": cfg, "cat": cat, "fi": fi, "route": route, "chunk": chunk, "expected": exp, "observed": got})
    rep.set("traces_validated_against_impl", ncalls + 3 * len(cfgs))
    rep.set("exhaustive", True)
    rep.set("rule", "one case = one call of MultiDomainGrid.integrate (vectorised | non_vectorized with one chunk size) or one "
                    "enumeration of size/points/weights, on a configuration listed by TLC, judged by TLC against "
                    "NGrid!NestedSum / NGrid!EnumDecl; distinct = distinct configuration (mode, num_domains, grid list)")
    rep.assume("NumPy sums of products of small integers (times powers of two) are exact in binary64 (|values| < 2^31)")
    rep.assume("Grid.integrate on the last domain is modelled as sum_j w_j v_j (its own correctness belongs to the base grid)")


def replay(path: str) -> int:
    with open(path) as f:
        v = json.load(f)
    return _replay_case(v.get("case") or {}, v)


def _replay_case(c, v):
    if "big" in c:
        print("replay: large configuration; rerunning the check")
        return run(c.get("tier") or v.get("tier", "quick"))
    if "config" in c and "cat" in c:
        if c.get("kind") == "form":
            o, notes = observe_form(c["cat"], c["config"])
            print("replay:", cfg_name(c["cat"], c["config"]), form_name(c["config"]["form"]), "size", o["size"], "vec", o["vec"], notes[:3])
            if "fi" in c:
                got = ([o["vec"][c["fi"] - 1], o["vecx"][c["fi"] - 1]] if c["route"] == "vec"
                       else [o["pbp"][c["fi"] - 1][i] for i, ch in enumerate(c["config"]["form"]["chunks"]) if ch == c["chunk"]])
                return 0 if all(g == c["expected"] for g in got) else 1
            return 1 if o == c.get("observed") else 0
        o, notes = observe(c["cat"], c["config"])
        print("replay:", cfg_name(c["cat"], c["config"]), "size", o["size"], "vec", o["vec"], notes[:3])
        if c.get("kind") == "single":
            vec = o["vec"][c["fi"] - 1]
            got = o["single"][c["fi"] - 1]
            return 0 if got == c["expected"] and int(np.prod(got)) == vec else 1
        if "fi" in c:
            total = c["config"]["total"]
            got = o["vec"][c["fi"] - 1] if c["route"] == "vec" else o["pbp"][c["fi"] - 1][total + 1 if c["chunk"] == HUGE else c["chunk"] - 1]
            return 0 if got == c["expected"] else 1
        return 1 if o == c.get("observed") else 0
    print("replay: model-level violation; rerunning the check")
    return run(v.get("tier", "quick"))


# ---------------------------------------------------------------------------------------------
# sensitivity

class _Quiet(Report):
    def finish(self):
        return [v for v in self.violations if self._match_known(v["key"]) is None]


def _mutants():
    from grid import ngrid
    M = ngrid.MultiDomainGrid
    return [
        ("values_chunk_size_plus_one", M, "integrate", "chunked_values = _chunked_iterator(values, integration_chunk_size)",
         "chunked_values = _chunked_iterator(values, integration_chunk_size + 1)", "different chunk sizes for the two generators"),
        ("partial_chunk_dropped", ngrid, "_chunked_iterator", "if not chunk:", "if len(chunk) < size:",
         "generator stops at the first short chunk (wrong only when the chunk size does not divide the total)"),
        ("size_times_instead_of_power", M, "size", "self.grid_list[0].size ** self.num_domains",
         "self.grid_list[0].size * self.num_domains", "size formula in repeated-grid mode"),
        ("last_weights_twice", M, "integrate", "self.grid_list[-1].integrate(np.array(values))",
         "self.grid_list[-1].integrate(np.array(values) * self.grid_list[-1].weights)", "last-domain weights applied twice"),
        ("last_domain_is_first_grid", M, "integrate", "values = np.array(partial_integrand(self.grid_list[-1].points))",
         "values = np.array(partial_integrand(self.grid_list[0].points))", "wrong grid for the last domain (heterogeneous lists only)"),
        ("weights_product_reversed", M, "weights", "itertools.product(*[grid.weights for grid in self.grid_list])",
         "itertools.product(*[grid.weights for grid in self.grid_list[::-1]])", "weights enumerated first-domain-fastest"),
        ("repeat_count", M, "integrate", "self.grid_list[0].weights, repeat=self.num_domains - 1",
         "self.grid_list[0].weights, repeat=max(self.num_domains - 2, 1)", "repeat count of the fixed weights (num_domains >= 3 only)"),
        ("shortcut_without_weights", M, "integrate", "return self.grid_list[0].integrate(values)", "return np.sum(values)",
         "single-domain shortcut forgets the weights"),
        ("chunk_sum_of_products_split", M, "integrate", "integral_value += np.sum(values_array * weights_array)",
         "integral_value += np.sum(values_array) * np.sum(weights_array) / len(weights_array)",
         "chunk contribution mean(w)*sum(v): right for chunk size 1 only"),
        ("num_domains_off_for_list_of_one", M, "num_domains", "else len(self.grid_list)", "else max(len(self.grid_list), 2)",
         "a single grid without num_domains counts as two domains"),
        # ---- audit: mutants that need the new dimensions
        ("pbp_weights_cast_to_int", M, "integrate", "weights_array = np.array(list(chunk_weights))",
         "weights_array = np.array(list(chunk_weights), dtype=int)", "non-integer (dyadic) weights only"),
        ("vec_values_cast_to_int", M, "integrate", "values = np.array(partial_integrand(self.grid_list[-1].points))",
         "values = np.array(partial_integrand(self.grid_list[-1].points), dtype=int)", "non-integer integrand values only"),
        ("non_vectorized_is_True", M, "integrate", "if non_vectorized:", "if non_vectorized is True:",
         "numpy bool for non_vectorized only"),
        ("explicit_chunk_implies_chunked_route", M, "integrate", "if non_vectorized:",
         "if non_vectorized or integration_chunk_size != 6000:", "vectorised call with an explicit chunk size only"),
        ("private_points_of_last_grid", M, "integrate", "values = np.array(partial_integrand(self.grid_list[-1].points))",
         "values = np.array(partial_integrand(self.grid_list[-1]._points))",
         "grids whose `points` property is not the stored array (AtomGrid-like subclasses) only"),
        ("aliased_grids_deduplicated", M, "weights", "*[grid.weights for grid in self.grid_list]",
         "*[grid.weights for grid in dict.fromkeys(self.grid_list)]", "the same grid OBJECT at several list positions only"),
        ("empty_product_has_size_one", M, "size", "return np.prod([grid.size for grid in self.grid_list])",
         "return max(np.prod([grid.size for grid in self.grid_list]), 1)", "a grid without points only"),
        ("huge_chunk_wraps", ngrid, "_chunked_iterator", "islice(iterator, size)", "islice(iterator, size % 1000000)",
         "chunk sizes >= 10^6 only"),
        ("chunk_sum_in_binary32", M, "integrate", "integral_value += np.sum(values_array * weights_array)",
         "integral_value += np.sum(values_array * weights_array, dtype=np.float32)",
         "exact for the small configurations; only sums beyond 2^24 (the large configuration) are lost"),
        ("writes_into_integrand_array", M, "integrate", "values = np.array(partial_integrand(self.grid_list[-1].points))",
         "values = partial_integrand(self.grid_list[-1].points); values *= 1.0",
         "harmless arithmetic, but fails on read-only / integer arrays returned by the integrand"),
    ]


def selftest(tier: str = "quick") -> int:
    from ..srcmutant import mutate
    base = _Quiet(PROP, "quick", "model_checking")
    _execute(base, "quick", tag="selftest")
    if base.finish():
        print("selftest: unmutated library is reported - fix the check first", base.finish()[:2])
        return 2
    results = []
    for name, owner, attr, old, new, what in _mutants():
        orig = mutate(owner, attr, old, new)
        try:
            rep = _Quiet(PROP, "quick", "model_checking")
            _execute(rep, "quick", tag="selftest")
            v = rep.finish()
        finally:
            setattr(owner, attr, orig)
        results.append((name, len(v)))
        print(f"selftest mutant {name}: {'KILLED' if v else 'survived'} ({len(v)} violations) {v[0]['key'][:120] if v else ''}")
    rep = _Quiet(PROP, "quick", "model_checking")
    _execute(rep, "quick", skew=1, tag="selftest")
    v = [x for x in rep.finish() if x["key"].startswith("model:")]
    results.append(("spec:skewed_chunk_sizes", len(v)))
    print(f"selftest specification variant Skew=1 (value chunks one longer than weight chunks): "
          f"{'REFUTED by TLC' if v else 'not refuted'} {v[0]['key'][:160] if v else ''}")
    bad = [r[0] for r in results if r[1] == 0]
    print(f"selftest: {len(results) - len(bad)} of {len(results)} mutants reported; survivors: {bad}")
    return 1 if bad else 0
