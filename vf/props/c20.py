"""C20 - library calls never modify the caller's arrays, dictionaries or callback results.

 1. vf/api_table.py declares the public operations (slots, shareable slot pairs, callback modes);
    Tables_api.tla is generated from it.  TLC checks CallFrame.tla: the program space
    op x sharing pattern x read-only mask x callback-return mode is enumerated completely
    (Complete, ProgramsWellFormed), the frame property holds on the design model and the
    as-shipped variant (ODE solvers write the callback's array, Poisson solvers write ode_params)
    is refuted.  Every program is emitted.
 2. Each emitted program is executed against the library: byte-wise snapshots of every caller
    buffer before/after (arrays, lists, dicts, arrays inside passed grid objects, every array a
    callback returned), write-protection where the mask says so, and the result is compared with
    the baseline program (distinct, writable, fresh callback arrays).
 3. The recorded outcomes are judged by TLC (CallFrameTrace.tla, Verdict).
"""
from __future__ import annotations

import copy
import json
import random
import warnings

import numpy as np

from .. import api_table, tlc
from ..evidence import Report

PROP = "C20"


def _arrays_of(obj, depth=0, seen=None):
    """All ndarray buffers reachable from a caller-owned value (arrays, containers, objects)."""
    seen = set() if seen is None else seen
    out = []
    if id(obj) in seen or depth > 3:
        return out
    seen.add(id(obj))
    if isinstance(obj, np.ndarray):
        out.append(obj)
    elif isinstance(obj, (list, tuple)):
        for x in obj:
            out += _arrays_of(x, depth + 1, seen)
    elif isinstance(obj, dict):
        for x in obj.values():
            out += _arrays_of(x, depth + 1, seen)
    elif hasattr(obj, "__dict__") and type(obj).__module__.startswith("grid"):
        for k, x in vars(obj).items():
            if k in ("_kdtree", "_basis"):
                continue   # lazily built private caches of the object, not caller data
            out += _arrays_of(x, depth + 1, seen)
    return out


def _snap(val):
    """Structural snapshot: container shape + array bytes."""
    if isinstance(val, np.ndarray):
        return ("A", val.shape, val.dtype.str, val.tobytes())
    if isinstance(val, (list, tuple)):
        return ("L", tuple(_snap(x) for x in val))
    if isinstance(val, dict):
        return ("D", tuple((repr(k), _snap(v)) for k, v in val.items()))
    if hasattr(val, "__dict__") and type(val).__module__.startswith("grid"):
        return ("G", type(val).__name__, tuple((a.shape, a.tobytes()) for a in _arrays_of(val)))
    if callable(val):
        return ("F",)
    return ("V", repr(val))


def _digest(res):
    out = []
    for r in res:
        a = np.asarray(r, dtype=float)
        out.append(a)
    return out


def _same(d1, d2):
    if len(d1) != len(d2):
        return False
    for a, b in zip(d1, d2):
        if a.shape != b.shape or not np.allclose(a, b, rtol=1e-9, atol=1e-11, equal_nan=True):
            return False
    return True


DTYPES = {"f8": np.float64, "f4": np.float32, "g": np.longdouble}


def execute(o, share, ro, cbmode, share_copy=False, dt="f8"):
    """Run one program; returns the logged outcome.  share_copy: bind the second slot of the
    shared pair to an equal-valued COPY (the baseline a shared program is compared with).
    dt: floating type in which the float64 array arguments are handed over."""
    with warnings.catch_warnings():
        warnings.simplefilter("ignore")
        np.seterr(all="ignore")
        vals = o.make()
        if dt != "f8":
            vals = [v.astype(DTYPES[dt]) if (kd == "A" and isinstance(v, np.ndarray) and v.dtype == np.float64) else v
                    for v, kd in zip(vals, o.kinds)]
        if share != (0, 0):
            vals[share[1] - 1] = copy.deepcopy(vals[share[0] - 1]) if share_copy else vals[share[0] - 1]
        names = [f"slot{i + 1}:{k}" for i, k in enumerate(o.kinds)]
        before = [_snap(v) for v in vals]
        prot = []
        if ro != 0:
            for i, v in enumerate(vals):
                if o.kinds[i] in ("A", "G") and (ro >> i) & 1:
                    for a in _arrays_of(v):
                        if a.flags.writeable:
                            a.flags.writeable = False
                            prot.append(a)
        cb = api_table.Callbacks(cbmode if cbmode != "none" else "fresh")
        out = {"changed": [], "exc": "", "same": True}
        digest = None
        try:
            digest = _digest(o.call(vals, cb))
        except Exception as ex:  # noqa: BLE001
            msg = str(ex)
            out["exc"] = "read-only" if ("read-only" in msg or "readonly" in msg or "not writeable" in msg) else type(ex).__name__
            out["msg"] = msg[:200]
        for a in prot:
            a.flags.writeable = True
        after = [_snap(v) for v in vals]
        out["changed"] = [names[i] for i in range(len(vals)) if before[i] != after[i]]
        if cbmode != "none" and cb.changed():
            out["changed"].append("callback-result")
        return out, digest


class _Timeout(Exception):
    pass


def _run_op(k, prs):
    """Child process: all programs of one operation."""
    import resource
    import signal
    resource.setrlimit(resource.RLIMIT_AS, (8 << 30, 8 << 30))

    def onalarm(sig, frm):
        raise _Timeout()
    # the per-program limit counts CPU time of this process (a machine shared with other jobs must not turn a slow
    # program into a verdict); a wall-clock alarm ten times as long only bounds a program that sleeps
    signal.signal(signal.SIGALRM, onalarm)
    signal.signal(signal.SIGVTALRM, onalarm)
    ops = api_table.load()
    o = ops[k - 1]
    limit = 240 if o.heavy else 60
    baselines = {}
    out_recs = []

    def guarded(*a, **kw):
        signal.setitimer(signal.ITIMER_VIRTUAL, limit)
        signal.alarm(10 * limit)
        try:
            return execute(o, *a, **kw)
        except _Timeout:
            return {"changed": [], "exc": "timeout", "same": True}, None
        except MemoryError:
            return {"changed": [], "exc": "MemoryError", "same": True}, None
        finally:
            signal.setitimer(signal.ITIMER_VIRTUAL, 0)
            signal.alarm(0)
    for (_, share, ro, cbm, dt) in prs:
        fun = "const" if cbm == "cached" else "ident"
        bkey = (share, fun if cbm != "none" else "none", dt)
        if bkey not in baselines:
            bmode = "none" if cbm == "none" else ("fresh-const" if fun == "const" else "fresh")
            baselines[bkey] = guarded(share, 0, bmode, share_copy=True, dt=dt)
        out, dig = guarded(share, ro, cbm, dt=dt)
        bout, bdig = baselines[bkey]
        if out["exc"] == "" and bout["exc"] == "" and bdig is not None and dig is not None:
            out["same"] = _same(dig, bdig)
        rec = {"k": k, "share": list(share), "ro": ro, "cb": cbm, "dt": dt, "changed": out["changed"], "exc": out["exc"],
               "same": bool(out["same"]), "basexc": bout["exc"]}
        if dt == "f8" and out["exc"] and out["exc"] != "read-only" and bout["exc"] == out["exc"] and share == (0, 0) and ro == 0 and cbm in ("none", "fresh"):
            rec["fixture_broken"] = True
        out_recs.append(rec)
    return out_recs


def _dts(o):
    """Floating types, besides float64, in which an operation's array arguments are also handed over: every
    operation that takes an array, except the heavy ones (run time) and those that opt out in the table."""
    d = getattr(o, "dts", None)
    if d is not None:
        return tuple(d)
    return () if (o.heavy or "A" not in o.kinds) else ("f4", "g")


def _write_tables(wd, ops):
    lines = ["---- MODULE Tables_api ----", "\\* generated from vf/api_table.py", "EXTENDS Integers, Sequences",
             "Api == <<"]
    rows = []
    for o in ops:
        rows.append("  " + tlc.tla({"op": o.name, "kinds": list(o.kinds), "pairs": set(o.pairs), "cbs": set(o.cbs), "dts": set(_dts(o))}))
    lines.append(",\n".join(rows))
    lines += [">>", "===="]
    (wd / "Tables_api.tla").write_text("\n".join(lines) + "\n")


def run(tier: str) -> int:
    rep = Report(PROP, tier, "model_checking")
    rng = random.Random(rep.seed)
    wd = tlc.scratch(f"{PROP}-{tier}")
    ops = api_table.load()
    _write_tables(wd, ops)
    cfg = "MC_CallFrame_full.cfg" if tier == "thorough" else "MC_CallFrame.cfg"
    res = tlc.run_tlc("CallFrame", cfg, wd, workers=4, coverage=True).require_ok("MC_CallFrame")
    rep.tlc(res, "MC_CallFrame")
    if res.status == "violation":
        rep.violation("model:" + ",".join(res.violated), f"CallFrame model violates {res.violated}", tlc.last_state(res))
    r2 = tlc.run_tlc("CallFrame", "MC_CallFrame_asShipped.cfg", wd, workers=4).require_ok("asShipped")
    rep.set("as_shipped_variant_refuted", r2.status == "violation")
    if r2.status != "violation":
        raise tlc.MachineryError("as-shipped variant (solvers write caller buffers) is not refuted")
    progs = sorted((p[1], tuple(p[3]), p[4], p[5], p[6]) for p in tlc.tagged(res.stdout, "PROG"))
    rep.set("programs_in_specification", len(progs))
    if len(progs) < len(ops):
        raise tlc.MachineryError(f"only {len(progs)} programs emitted")

    # selection: quick = every op with every pattern except that heavy ops only get {distinct} x {0,-1}
    sel = []
    for k, share, ro, cbm, dt in progs:
        o = ops[k - 1]
        allmask = sum(1 << i for i, kd in enumerate(o.kinds) if kd in ("A", "G"))
        if o.heavy and (share != (0, 0) or ro not in (0, allmask)):
            continue     # heavy operations (Poisson solvers, molecular interpolation): no sharing, nothing / everything protected
        sel.append((k, share, ro, cbm, dt))
    # programs are executed in forked children (one task per operation) with an address-space limit
    # and a per-program alarm: a library that starts to diverge on an aliased input must not take
    # the harness down with it
    by_op = {}
    for pr in sel:
        by_op.setdefault(pr[0], []).append(pr)
    import multiprocessing as mp
    obs = []
    with mp.get_context("fork").Pool(8, maxtasksperchild=1) as pool:
        jobs = [(k, pool.apply_async(_run_op, (k, prs))) for k, prs in sorted(by_op.items())]
        for k, job in jobs:
            try:
                recs = job.get(timeout=6000)
            except Exception as ex:  # noqa: BLE001  child died (memory limit, crash)
                recs = [{"k": k, "share": list(sh), "ro": ro, "cb": cbm, "dt": dt, "changed": [], "exc": "child-" + type(ex).__name__,
                         "same": True, "basexc": ""} for (_, sh, ro, cbm, dt) in by_op[k]]
            for r in recs:
                if r.pop("fixture_broken", False):
                    raise tlc.MachineryError(f"fixture of {ops[k - 1].name} fails without any aliasing: {r['exc']}")
                obs.append(r)
                rep.evaluated(1, (r["k"], tuple(r["share"]), r["ro"], r["cb"], r["dt"]))
    with open(wd / "obs_c20.json", "w") as f:
        json.dump(obs, f)
    j = tlc.run_tlc("CallFrameTrace", "Trace_CallFrame.cfg", wd, workers=1).require_ok("Trace_CallFrame")
    rep.tlc(j, "Trace_CallFrame")
    judged = tlc.tagged(j.stdout, "JUDGED")
    if not judged or judged[0][1] != len(obs):
        raise tlc.MachineryError(f"TLC judged {judged} of {len(obs)} programs")
    for _, pos, opname, verdict in tlc.tagged(j.stdout, "REJECT"):
        r = obs[pos - 1]
        rep.violation(f"{opname}:{verdict}:{','.join(r['changed']) or r['exc'] or 'result'}" + ("" if r["dt"] == "f8" else f":arrays={r['dt']}"),
                      f"{opname} with sharing {r['share']}, read-only mask {r['ro']}, callback mode {r['cb']}, array type {r['dt']}: {verdict}; "
                      f"changed buffers {r['changed']}, exception {r['exc']!r}",
                      {"op": opname, **r})
    if tier == "thorough":
        # every public call made by the faster half of the repository's tests, with byte-wise snapshots
        from .. import record
        fast = ["test_grid", "test_becke", "test_cubic", "test_utils", "test_coulomb", "test_ngrid", "test_periodicgrid",
                "test_transform", "test_rtransform", "test_onedgrid", "test_radial", "test_ode", "test_molgrid"]
        record.judge_suite(rep, wd, "frame", [f"src/grid/tests/{t}.py" for t in fast], "frame")
    rep.set("traces_validated_against_impl", len(obs))
    rep.set("operations", len(ops))
    rep.set("exhaustive", tier == "thorough")
    for r in obs[:3] + obs[len(obs) // 2: len(obs) // 2 + 2]:
        rep.sample({"op": ops[r["k"] - 1].name, **r})
    rep.set("rule", "one case = one program (operation, shared slot pair, read-only mask, callback-return mode, floating type of the array arguments) emitted by TLC, executed "
                    "with byte-wise snapshots, judged by TLC; distinct = distinct programs")
    rep.assume("the operation table vf/api_table.py covers the public operations that take arrays/lists/dicts/callbacks; operations not in the table are not checked")
    return rep.finish()


def replay(path: str) -> int:
    with open(path) as f:
        v = json.load(f)
    c = v["case"]
    ops = api_table.load()
    o = [x for x in ops if x.name == c["op"]][0]
    out, _ = execute(o, tuple(c["share"]), c["ro"], c["cb"], dt=c.get("dt", "f8"))
    print("replay:", c["op"], c["share"], c["ro"], c["cb"], c.get("dt", "f8"), "->", out)
    return 1 if (out["changed"] or out["exc"]) else 0


def selftest(tier: str = "quick") -> int:
    from ..evidence import patched, run_mutants
    import grid.ode as ode
    import grid.poisson as po
    import grid.basegrid as bg
    import grid.becke as bk
    import grid.utils as ut

    def ode_inplace():   # the defect repaired by 4615105
        def rearr(y, coeff_b, fx):
            result = fx
            for i, b in enumerate(coeff_b[:-1]):
                result -= b * y[i]
            return result / coeff_b[-1]
        return patched(ode, "_rearrange_to_explicit_ode", rearr)

    def integrate_inplace():   # Grid.integrate multiplies into its first argument
        def integ(self, *value_arrays):
            acc = value_arrays[0]
            for a in value_arrays[1:]:
                acc *= a
            return np.einsum("i,i", acc, self.weights)
        return patched(bg.Grid, "integrate", integ)

    def sph_wraps_theta():   # spherical harmonics normalise the angle array in place
        orig = ut.generate_real_spherical_harmonics

        def g(l_max, theta, phi):
            theta %= 2 * np.pi
            return orig(l_max, theta, phi)
        return patched(ut, "generate_real_spherical_harmonics", g)

    def becke_sorts_select():
        orig = bk.BeckeWeights.generate_weights

        def g(self, points, atcoords, atnums, *, select=None, pt_ind=None):
            if isinstance(select, list):
                select.sort(reverse=True)
                select.sort()
                select.append(select.pop())
                pt_ind.append(pt_ind.pop() + 0)
                atcoords += 0.0
                atcoords[0, 0] += 1e-9
            return orig(self, points, atcoords, atnums, select=select, pt_ind=pt_ind)
        return patched(bk.BeckeWeights, "generate_weights", g)

    def poisson_setdefault():   # the defect repaired by 667b7d1
        orig = po._solve_poisson_bvp_atomgrid

        def s(atomgrid, func_vals, transform, boundary=None, include_origin=True, remove_large_pts=1e6, ode_params=None):
            if ode_params is not None:
                ode_params.setdefault("max_nodes", 50000)
            return orig(atomgrid, func_vals, transform, boundary, include_origin, remove_large_pts, ode_params)
        return patched(po, "_solve_poisson_bvp_atomgrid", s)

    def coulomb_aliases_extended_input():   # asarray(..., dtype=longdouble) copies float64 input but aliases extended-precision input
        import grid.coulomb as co
        orig = co.coulomb_gaussian_s

        def g(r, alpha, normalized=True):
            rr = np.atleast_1d(np.asarray(r, dtype=np.longdouble))
            rr += 1e-30     # "avoid the division by zero"
            return orig(rr, alpha, normalized)
        return patched(co, "coulomb_gaussian_s", g)

    def moments_single_precision_alias():   # same for float32 function values
        orig = bg.Grid.integrate

        def integ(self, *value_arrays):
            first = np.asarray(value_arrays[0], dtype=np.float32)
            first *= 1.0000001
            return orig(self, *value_arrays)
        return patched(bg.Grid, "integrate", integ)

    muts = [("extended-precision-input-aliased", coulomb_aliases_extended_input), ("single-precision-input-aliased", moments_single_precision_alias),
            ("ode-accumulates-into-fx", ode_inplace), ("integrate-multiplies-in-place", integrate_inplace),
            ("harmonics-wrap-theta-in-place", sph_wraps_theta), ("becke-touches-atcoords", becke_sorts_select),
            ("poisson-setdefault", poisson_setdefault)]
    return run_mutants(PROP, run, muts, tier)
