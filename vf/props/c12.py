"""C12 - degree/size requests resolve to the smallest supported angular grid not below.

Flow (DESIGN.md section 5, C12):
 1. extract the tables and the data-directory listing from /repo  -> Tables_angular.tla
 2. drive the implementation through its public routes for the requests of the tier and
    record what it built                                           -> obs_angular.json
 3. TLC checks Angular.tla on EVERY request -1..max+2 of every method and kind:
    algorithm = declarative definition, pair/file/minimality invariants, and - the
    conformance direction - every recorded observation equals the specification's result.
"""
from __future__ import annotations

import json
import random
import warnings

import numpy as np

from .. import extract, tlc
from ..evidence import Report

PROP = "C12"


def _observe_ctor(m, kind, q):
    from grid.angular import AngularGrid
    try:
        with warnings.catch_warnings():
            warnings.simplefilter("ignore")
            # the request in the forms a caller may hold it: Python int, numpy integer, and (size requests) together
            # with a degree that the documentation says is then ignored - even one that could not be served
            v = q if q % 3 == 0 else (np.int64(q) if q % 3 == 1 else np.int32(q))
            spell = m if q % 5 else m.upper()
            if kind == "degree":
                g = AngularGrid(degree=v, method=spell, cache=bool(q % 2))
            elif q % 4 == 2:
                g = AngularGrid(degree=(q * 7) % 300, size=v, method=spell)
            else:
                g = AngularGrid(size=v, method=spell, cache=bool(q % 2))
        d, s = int(g.degree), int(g.size)
        if len(g.points) != s or len(g.weights) != s:
            return ("ctor", d, -9)  # advertised size is not the number of points
        return ("ctor", d, s)
    except ValueError:
        return ("ctor", -1, -1)
    except Exception as e:  # any other exception: neither built nor rejected as documented
        return ("ctor:%s" % type(e).__name__, -7, -7)


def _requests(tabs, tier, rng):
    """Requests replayed through the constructor route."""
    req = {}
    for m, t in tabs.items():
        maxd = max(k for k, _ in t["deg"])
        maxs = max(k for k, _ in t["size"])
        req[(m, "degree")] = list(range(-1, maxd + 3))
        allsizes = range(-1, maxs + 3)
        if tier == "thorough" or m in ("lebedev", "ahrens_beylkin"):
            req[(m, "size")] = list(allsizes)
        else:
            sel = {-1, 0, 1, maxs + 1, maxs + 2}
            for s, _ in t["size"]:
                sel.update((s - 1, s, s + 1))
            sel.update(rng.sample(range(0, maxs + 1), 1500))
            req[(m, "size")] = sorted(x for x in sel if -1 <= x <= maxs + 2)
    return req


def _worker(args):
    m, kind, qs = args
    return m, kind, [(q, _observe_ctor(m, kind, q)) for q in qs]


def run(tier: str) -> int:
    rep = Report(PROP, tier, "model_checking")
    rng = random.Random(rep.seed)
    wd = tlc.scratch(f"{PROP}-{tier}")
    tabs = extract.angular_tables()

    # ---- observations -----------------------------------------------------------------
    obs = {m: {"degree": [[] for _ in range(max(k for k, _ in t["deg"]) + 3)],
               "size": [[] for _ in range(max(k for k, _ in t["size"]) + 3)]} for m, t in tabs.items()}
    neg = {m: {"degree": [], "size": []} for m in tabs}

    def put(m, kind, q, o):
        o = [o[0], int(o[1]), int(o[2])]
        slot = neg[m][kind] if q == -1 else obs[m][kind][q]
        if o not in slot:
            slot.append(o)
        rep.evaluated(1, (m, kind, q, o[0]))

    req = _requests(tabs, tier, rng)
    jobs = []
    for (m, kind), qs in req.items():
        n = 8 if len(qs) > 4000 else 1
        for i in range(n):
            jobs.append((m, kind, qs[i::n]))
    import multiprocessing as mp
    with mp.get_context("fork").Pool(16) as pool:
        for m, kind, res in pool.imap_unordered(_worker, jobs):
            for q, o in res:
                put(m, kind, q, o)
    rep.set("ctor_requests", sum(len(v) for v in req.values()))

    from grid.angular import AngularGrid
    from grid.atomgrid import AtomGrid
    from grid.basegrid import OneDGrid
    with warnings.catch_warnings():
        warnings.simplefilter("ignore")
        # converter: one vectorised call with every admissible size, then the rejections one by one
        for m, t in tabs.items():
            maxs = max(k for k, _ in t["size"])
            sizes = np.arange(0, maxs + 1)
            try:
                degs = AngularGrid.convert_angular_sizes_to_degrees(sizes, method=m)
                for s, d in zip(sizes.tolist(), np.asarray(degs).tolist()):
                    put(m, "size", s, ("conv", d, 0))
            except Exception as e:  # the converter must accept all admissible sizes
                rep.violation(f"conv:{m}:all-admissible-sizes", f"converter raised {type(e).__name__}: {e}")
            for s in (-1, maxs + 1, maxs + 2):
                try:
                    d = AngularGrid.convert_angular_sizes_to_degrees(np.array([s]), method=m)
                    put(m, "size", s, ("conv", int(d[0]), 0))
                except ValueError:
                    put(m, "size", s, ("conv", -1, -1))
            # short sequences: duplicates, unsorted, list and ndarray
            nseq = 40 if tier == "quick" else 400
            for _ in range(nseq):
                seq = [rng.randint(0, maxs) for _ in range(rng.randint(1, 6))]
                seq += rng.sample(seq, min(len(seq), rng.randint(0, 2)))
                rng.shuffle(seq)
                arg = np.array(seq) if rng.random() < 0.5 else list(seq)
                before = list(seq)
                try:
                    degs = AngularGrid.convert_angular_sizes_to_degrees(arg, method=m)
                except Exception as e:
                    rep.violation(f"conv:{m}:seq={before}", f"converter raised {type(e).__name__}: {e}")
                    continue
                if len(degs) != len(before):
                    rep.violation(f"conv:{m}:seq={before}", f"result length {len(degs)}")
                    continue
                for s, d in zip(before, np.asarray(degs).tolist()):
                    put(m, "size", s, ("conv", d, 0))
        # atomic grids: per-shell degree / size requests (small ones; the grid is really built)
        natom = 25 if tier == "quick" else 250
        for m, t in tabs.items():
            small_d = [k for k, v in t["deg"] if v <= 400]
            small_s = [k for k, v in t["size"] if k <= 400]
            for _ in range(natom):
                n = rng.randint(1, 5)
                rg = OneDGrid(np.arange(1, n + 1) * 0.5, np.ones(n), (0, np.inf))
                if rng.random() < 0.5:
                    seq = [rng.randint(0, max(small_d)) for _ in range(rng.choice([1, n]))]
                    try:
                        g = AtomGrid(rg, degrees=list(seq), method=m)
                        got = np.asarray(g.degrees).tolist()
                        idx = np.asarray(g.indices)
                        full = seq if len(seq) == n else seq * n
                        sizes = np.diff(idx).tolist()
                        for qd, d, s in zip(full, got, sizes):
                            put(m, "degree", qd, ("atom", d, s))
                    except Exception as e:
                        rep.violation(f"atom:{m}:degrees={seq}", f"AtomGrid raised {type(e).__name__}: {e}")
                else:
                    seq = [rng.randint(0, max(small_s)) for _ in range(rng.choice([1, n]))]
                    try:
                        g = AtomGrid(rg, sizes=list(seq), method=m)
                        got = np.asarray(g.degrees).tolist()
                        full = seq if len(seq) == n else seq * n
                        sizes = np.diff(np.asarray(g.indices)).tolist()
                        for qs, d, s in zip(full, got, sizes):
                            put(m, "size", qs, ("atom", d, s))
                    except Exception as e:
                        rep.violation(f"atom:{m}:sizes={seq}", f"AtomGrid raised {type(e).__name__}: {e}")

        # pruned atomic grids: every sector asks for the same degree (size) q, so every shell must carry
        # exactly the grid the rule prescribes for q, whatever sector it falls into
        for m, t in tabs.items():
            small_d = [k for k, v in t["deg"] if v <= 400]
            small_s = [k for k, v in t["size"] if k <= 400]
            for _ in range(10 if tier == "quick" else 120):
                rg = OneDGrid(np.array([0.2, 0.7, 1.4, 2.5]), np.ones(4), (0, np.inf))
                for kind, hi in (("degree", max(small_d)), ("size", max(small_s))):
                    q = rng.randint(0, hi)
                    try:
                        if kind == "degree":
                            g = AtomGrid.from_pruned(rg, 1.0, r_sectors=[0.5, 1.0], d_sectors=[q, q, q], method=m)
                        else:
                            g = AtomGrid.from_pruned(rg, 1.0, r_sectors=[0.5, 1.0], d_sectors=None, s_sectors=[q, q, q], method=m)
                        for d, sz in zip(np.asarray(g.degrees).tolist(), np.diff(np.asarray(g.indices)).tolist()):
                            put(m, kind, q, ("pruned", d, sz))
                    except Exception as e:
                        rep.violation(f"pruned:{m}:{kind}={q}", f"AtomGrid.from_pruned raised {type(e).__name__}: {e}")

        # molecular grids of a given angular size (Lebedev only: from_size has no method argument): every shell of
        # every atom carries the grid the rule prescribes for that size
        from grid.becke import BeckeWeights
        from grid.molgrid import MolGrid
        t = tabs["lebedev"]
        for _ in range(6 if tier == "quick" else 60):
            q = rng.randint(0, 400)
            rg = OneDGrid(np.array([0.3, 0.9, 2.0]), np.ones(3), (0, np.inf))
            try:
                mg = MolGrid.from_size(np.array([1, 8]), np.array([[0.0, 0.0, 0.0], [0.0, 0.0, 2.0]]), np.int64(q) if q % 2 else q,
                                       rg, BeckeWeights(order=3), rotate=0, store=True)
                for ag in mg.atgrids:
                    for d, sz in zip(np.asarray(ag.degrees).tolist(), np.diff(np.asarray(ag.indices)).tolist()):
                        put("lebedev", "size", q, ("mol", d, sz))
            except Exception as e:
                rep.violation(f"mol:lebedev:size={q}", f"MolGrid.from_size raised {type(e).__name__}: {e}")

        # preset atomic grids: the shipped preset tables ask, per radial sector, for a number of points; each shell
        # must carry the grid the rule prescribes for that size IN THE REQUESTED METHOD.  The radial points are put
        # at the midpoints of the sectors (one below the first and one above the last boundary), so which sector a
        # shell belongs to is not in question here (that is C05's subject).
        from importlib.resources import files as _files
        presets = ["coarse", "sg_1", "sg_0"] if tier == "quick" else \
            ["coarse", "medium", "fine", "veryfine", "ultrafine", "insane", "sg_0", "sg_1", "sg_2", "sg_3", "g1", "g4", "g7"]
        for pre in presets:
            try:
                data = np.load(_files("grid.data.prune_grid").joinpath(f"prune_grid_{pre}.npz"))
            except Exception as e:
                rep.violation(f"preset:{pre}:file", f"preset table unreadable: {type(e).__name__}: {e}")
                continue
            zs = sorted(int(k.split("_")[0]) for k in data.files if k.endswith("_npt"))
            pick = [z for z in (1, 8, 20) if z in zs] if tier == "quick" else rng.sample(zs, min(8, len(zs)))
            for z in pick:
                rad, npt = np.asarray(data[f"{z}_rad"]), np.asarray(data[f"{z}_npt"]).astype(int)
                if np.issubdtype(rad.dtype, np.integer) and len(rad) == len(npt):   # sector = number of shells
                    asked = [int(npt[i]) for i in range(len(rad)) for _ in range(int(rad[i]))]
                    rpts = 0.05 * np.arange(1, len(asked) + 1)
                elif len(npt) == len(rad) + 1:                                       # sector = radius interval
                    asked = npt.tolist()
                    rpts = np.concatenate([[rad[0] / 2], (rad[:-1] + rad[1:]) / 2, [rad[-1] * 1.5]])
                else:
                    continue
                rg = OneDGrid(rpts, np.ones(len(rpts)), (0, np.inf))
                for m, t in tabs.items():
                    if max(asked) > max(k for k, _ in t["size"]):
                        continue
                    try:
                        g = AtomGrid.from_preset(atnum=z, preset=pre, rgrid=rg, method=m)
                        got, sizes = np.asarray(g.degrees).tolist(), np.diff(np.asarray(g.indices)).tolist()
                        if len(got) != len(asked):
                            rep.violation(f"preset:{m}:{pre}:Z={z}:shells", f"{len(got)} shells for {len(asked)} radial points")
                            continue
                        for a, d, sz in zip(asked, got, sizes):
                            put(m, "size", a, ("preset", d, sz))
                    except Exception as e:
                        rep.violation(f"preset:{m}:{pre}:Z={z}", f"AtomGrid.from_preset raised {type(e).__name__}: {e}")

    with open(wd / "obs_angular.json", "w") as f:
        json.dump({"obs": obs, "neg": neg}, f)
    extract.write_tables_angular(wd, tabs, "obs_angular.json")

    # ---- TLC: model + conformance ----------------------------------------------------------
    for law in ("TablesSorted", "TablesInverse", "TablesComonotone", "TableFilesExist"):
        (wd / f"Static_{law}.cfg").write_text(f"SPECIFICATION Spec\nINVARIANT {law}\nCONSTRAINT StaticOnly\n")
        r0 = tlc.run_tlc("Angular", wd / f"Static_{law}.cfg", wd, workers=1, timeout=300).require_ok(law)
        rep.tlc(r0, law)
        if r0.status == "violation":
            rep.violation(f"catalogue:{law}", f"TLC: catalogue law {law} is false on the tables/data directories extracted from /repo")
    res = tlc.run_tlc("Angular", "MC_Angular.cfg", wd, workers=16, timeout=1500).require_ok("MC_Angular")
    rep.tlc(res, "MC_Angular")
    if res.status == "violation":
        st = tlc.last_state(res)
        key = f"model:{','.join(res.violated)}:{st.get('cm')}:{st.get('ck')}:{st.get('cq')}"
        rep.violation(key, f"TLC: invariant(s) {res.violated} violated on the tables extracted from /repo; last state {st}", st)
    for t in tlc.tagged(res.stdout, "MISMATCH"):
        _, m, kind, q, spec, o = t
        rep.violation(f"{o[0]}:{m}:{kind}:{q}",
                      f"request {kind}={q} method={m}: specification says <<degree,size>>={spec} "
                      f"(<<-1,-1>> = rejected), route {o[0]} produced degree={o[1]} size={o[2]} "
                      f"(-7 = unexpected exception, -9 = advertised size is not the number of points)",
                      {"method": m, "kind": kind, "request": q, "spec": spec, "observed": o})
    nreq = sum(max(k for k, _ in t["deg"]) + 4 + max(k for k, _ in t["size"]) + 4 for t in tabs.values())
    rep.set("requests_in_model", nreq)
    rep.set("traces_validated_against_impl", rep.evaluations)
    rep.set("exhaustive", tier == "thorough")
    rep.set("rule", "one case = one (route, method, kind, request) observation of the implementation, judged by TLC "
                    "against Angular!Expected; distinct = distinct (method, kind, request, route)")
    rep.sample({"method": "lebedev", "kind": "size", "request": 7, "observed": obs["lebedev"]["size"][7]})
    rep.sample({"method": "maxdet", "kind": "degree", "request": 200, "observed": obs["maxdet"]["degree"][200]})
    rep.sample({"method": "spherical", "kind": "size", "request": 52978, "observed": obs["spherical"]["size"][52978]})
    rep.assume("bisect_left is transcribed in Angular.tla (BisectStep/BisectEnd); the implementation is bound to it by the observations")
    return rep.finish()


def replay(path: str) -> int:
    with open(path) as f:
        v = json.load(f)
    c = v.get("case") or {}
    if "request" in c:
        o = _observe_ctor(c["method"], c["kind"], c["request"])
        print("replay:", c, "-> now observed", o)
        return 0 if [o[1], o[2]] == c["spec"] else 1
    print("replay: model-level violation; rerun ./check C12")
    return run("quick")


def selftest(tier: str = "quick") -> int:
    """In-process mutants of grid.angular / grid.atomgrid (the files in /repo are never touched)."""
    from ..mutants import run_mutants, src
    A, T = "grid.angular", "grid.atomgrid"
    rb = [(T, "AngularGrid")]
    mutants = [
        ("degree-rounds-down-to-the-previous-supported", src(A, "ang_degs[bisect_left(ang_degs, degree)]",
                                                             "ang_degs[bisect_left(ang_degs, degree) - 1]", rb)),
        ("size-skips-one-supported-grid", src(A, "ang_npts[bisect_left(ang_npts, size)]",
                                              "ang_npts[min(bisect_left(ang_npts, size) + 1, len(ang_npts) - 1)]", rb)),
        ("degree-above-maximum-not-rejected", src(A, "if degree < 0 or degree > max_degree:", "if degree < 0 or degree > max_degree + 1:", rb)),
        ("size-above-maximum-served-by-largest", src(A, "            if size < 0 or size > max_size:\n",
                                                     "            size = min(size, max_size)\n            if size < 0 or size > max_size:\n", rb)),
        ("converter-writes-degree-for-first-match-only", src(A, "degrees[np.where(sizes == size)] = deg",
                                                             "degrees[np.where(sizes == size)[0][:1]] = deg", rb)),
        ("converter-always-lebedev", src(A, "deg = AngularGrid._get_degree_and_size(degree=None, size=size, method=method)[0]",
                                         "deg = AngularGrid._get_degree_and_size(degree=None, size=size, method='lebedev')[0]", rb)),
        ("size-request-with-degree-uses-the-degree", src(A, "            degree = None\n\n        # map degree and size", "            pass\n\n        # map degree and size", rb)),
        ("atom-sizes-converted-with-lebedev-table", src(T, "degrees = AngularGrid.convert_angular_sizes_to_degrees(sizes, method=method)",
                                                        "degrees = AngularGrid.convert_angular_sizes_to_degrees(sizes, method='lebedev')")),
        ("preset-sizes-converted-with-lebedev-table", src(T, "degs = AngularGrid.convert_angular_sizes_to_degrees(npt, method=method)",
                                                          "degs = AngularGrid.convert_angular_sizes_to_degrees(npt, method='lebedev')")),
        ("pruned-sizes-converted-with-lebedev-table", src(T, "d_sectors = AngularGrid.convert_angular_sizes_to_degrees(s_sectors, method)",
                                                          "d_sectors = AngularGrid.convert_angular_sizes_to_degrees(s_sectors, 'lebedev')")),
    ]
    return run_mutants(PROP, run, tier, mutants)
