"""C09 - harmonic decomposition / interpolation on atomic grids is exact when band-limited
(exploration level).

Flow (DESIGN.md section 5, C09):
 1. VERIF_SEED draws grid configurations (method, per-shell supported degrees - uniform, two-level
    pruned, random -, radial nodes incl. a node at r = 0, centre, rotation seed).  TLC run #1 on
    spec/BandLimit.tla decides the band-limit laws for EVERY sequence of supported degrees
    <= 50 (2 shells quick, 3 shells thorough: the clauses are per shell and depend on
    (d_i, min, max) only) and emits, for the drawn configurations, the expectations: number of
    splines, retained prefix per shell, band limit, row of every (l, m), which rows carry
    components.
 2. vf/ylm.py is calibrated against spec/Harmonics.tla (fresh TLC run, values and derivatives).
 3. per configuration the harness builds the AtomGrid and
      - records the integer observables for a GENERIC function (number of splines, per shell the
        extent of the non-zero knots) -> judged by TLC run #2 (BandLimit!ObsConforms);
      - draws band-limited functions f = SUM g_lm(r) Y_lm (l <= band limit; all components, or a
        single one) with vf/ylm.py on its own angles, and checks every clause of the statement:
        (a) angular integral = sqrt(4 pi) g_00(r_i)        (b) SUM r_i^2 w_i (a)_i = grid integral
        (c) spline knots = g_lm(r_i), other rows 0          (d) interpolant = f at the grid points
        (e) interpolant at arbitrary points (incl. centre, z axis) = SUM spline x harmonic
        (f) deriv=1 spherical / Cartesian (chain rule through the Jacobian DERIVED in
            Harmonics.tla), radial-only derivatives 1..3 = derivatives of that same interpolant;
            plus Richardson-extrapolated central differences of the interpolant itself
        (g) spherical average x 4 pi = (a), and it integrates back to the grid integral
        (h) MolGrid.interpolate = SUM_A atomic interpolants of w_A f (values, gradient, radial).
    Derivative clauses are evaluated away from the centre and the z axis (sin(phi) >= 0.05,
    r >= 0.05), where the library documents zero conventions instead of derivatives.

Tolerances (relative to the scale S = max |f| on the grid, resp. the natural scale of a derivative):
  1e-9 for (a)-(e), (f) exact-chain-rule parts, (g), (h);  1e-6 for the finite-difference part.
Calibration on the pinned tree (thorough tier, 1500 configurations, seeds 0, 1, 2; max scaled deviation):
  (a) 1.5e-13 (b) 4.3e-14 (c) 8.4e-14 (d) 1.3e-13 (e) 4.1e-14 (f) spherical 8.8e-15, Cartesian
  5.8e-15, radial 1.3e-14, finite differences 5.0e-10 (g) 4.3e-14 (h) 0 (identical operations).
  The 15 source-level mutants of selftest() give >= 1e-3 (all reported).
"""
from __future__ import annotations

import inspect
import json
import math
import random
import textwrap
import warnings

import numpy as np

from .. import extract, tlc, ylm
from ..evidence import Report
from ..expr_eval import evaluate

PROP = "C09"
TOL = 1e-9
TOL_FD = 1e-6
DCAP = 26          # largest shell degree used in replayed configurations (cost)


# ---------------------------------------------------------------------------------------------
# configurations

def _configs(tabs, n, rng):
    out = []
    sup = {m: sorted(d for d, _ in t["deg"] if 1 <= d <= DCAP) for m, t in tabs.items()}
    methods = ["lebedev", "lebedev", "spherical", "maxdet", "ahrens_beylkin"]
    for k in range(n):
        m = methods[k % len(methods)] if k < 10 else rng.choice(methods)
        ns = rng.randint(4, 9)
        kind = ("uniform", "two-level", "random", "increasing")[k % 4]
        s = sup[m]
        if kind == "uniform":
            degs = [rng.choice(s)] * ns
        elif kind == "two-level":
            a, b = rng.choice(s), rng.choice(s)
            cut = rng.randint(1, ns - 1)
            degs = [min(a, b)] * cut + [max(a, b)] * (ns - cut)
        elif kind == "increasing":
            degs = sorted(rng.choice(s) for _ in range(ns))
        else:
            degs = [rng.choice(s) for _ in range(ns)]
        r = sorted(rng.uniform(0.15, 5.0) for _ in range(ns))
        r = [r[0]] + [max(r[i], r[i - 1] + 0.05) for i in range(1, ns)]
        for i in range(1, ns):
            r[i] = max(r[i], r[i - 1] + 0.05)
        r0 = (k % 5 == 3)
        if r0:
            r[0] = 0.0
        out.append({"id": k, "method": m, "degs": degs, "kind": kind, "r": r,
                    "w": [rng.uniform(0.2, 1.5) for _ in range(ns)], "r0": r0,
                    "center": [0.0, 0.0, 0.0] if k % 3 == 0 else [rng.uniform(-2, 2) for _ in range(3)],
                    "rotate": 0 if k % 2 == 0 else rng.randint(1, 10 ** 6),
                    "fseed": rng.randint(0, 2 ** 31 - 1)})
    return out


def _obs_module(wd, phase, dmax, nshell, fname):
    (wd / "Obs_bandlimit.tla").write_text(
        "---- MODULE Obs_bandlimit ----\nEXTENDS Integers, Sequences, Json\n"
        f"DMax == {dmax}\nNShell == {nshell}\nPhase == \"{phase}\"\n"
        f"ObsB == JsonDeserialize(\"{fname}\")\n====\n")


# ---------------------------------------------------------------------------------------------

class _Check:
    def __init__(self, rep):
        self.rep = rep
        self.worst = {}
        self.bad = {}

    def cmp(self, clause, cfg, obs, exp, scale, tol=TOL, extra=None):
        obs = np.asarray(obs, dtype=float)
        exp = np.asarray(exp, dtype=float)
        self.rep.evaluated(int(obs.size), (clause, cfg["id"]))
        if obs.shape != exp.shape:
            self._fail(clause, cfg, float("inf"), f"shape {obs.shape} instead of {exp.shape}", extra)
            return
        dev = np.abs(obs - exp) / scale
        dev = np.where(np.isfinite(obs), dev, np.inf)
        w = float(dev.max()) if dev.size else 0.0
        if w > tol:
            i = int(np.argmax(dev))
            self._fail(clause, cfg, w, f"entry {np.unravel_index(i, dev.shape)}: observed {obs.flat[i]!r}, expected {exp.flat[i]!r}", extra)
        else:
            self.worst[clause] = max(self.worst.get(clause, 0.0), w)

    def _fail(self, clause, cfg, w, msg, extra):
        rec = self.bad.setdefault(clause, {"n": 0, "worst": -1.0, "cfg": None, "msg": ""})
        rec["n"] += 1
        if w > rec["worst"]:
            rec.update(worst=w, cfg=cfg, msg=msg, extra=extra)

    def flush(self):
        for clause, rec in sorted(self.bad.items()):
            c = rec["cfg"]
            self.rep.violation(f"{clause}",
                               f"clause {clause} fails on {rec['n']} configuration(s); worst scaled deviation {rec['worst']:.3e} for "
                               f"method={c['method']} degrees={c['degs']} r0={c['r0']} rotate={c['rotate']} centre={c['center']}: {rec['msg']}",
                               {"clause": clause, "config": c, "extra": rec.get("extra")})


def _dirs(pts, center):
    """(r, unit vectors) of points about a centre; r = 0 -> direction (0,0,1) (theta = phi = 0)."""
    d = np.asarray(pts, dtype=float) - np.asarray(center, dtype=float)
    r = np.linalg.norm(d, axis=1)
    u = np.where(r[:, None] > 0, d / np.where(r > 0, r, 1.0)[:, None], np.array([0.0, 0.0, 1.0]))
    return r, u


def _gfun(rng_np, l, regular):
    a, b = rng_np.uniform(-1, 1, 2)
    al = rng_np.uniform(0.2, 0.9)
    if abs(a) < 0.2:
        a = 0.5
    p = l if regular else 0

    def g(r):
        r = np.asarray(r, dtype=float)
        return (r ** p) * (a + b * r) * np.exp(-al * r * r)
    return g


def _build(cfg):
    from grid.atomgrid import AtomGrid
    from grid.basegrid import OneDGrid
    rg = OneDGrid(np.array(cfg["r"]), np.array(cfg["w"]), (0, np.inf))
    with warnings.catch_warnings():
        warnings.simplefilter("ignore")
        return AtomGrid(rg, degrees=list(cfg["degs"]), center=np.array(cfg["center"]), rotate=int(cfg["rotate"]),
                        method=cfg["method"])


def _jac_float(jac, r, th, ph):
    """Jacobian d(x,y,z)/d(r,theta,phi) from the trees derived in Harmonics.tla, float mode."""
    J = np.zeros((len(r), 3, 3))
    for n in range(len(r)):
        env = {"r": float(r[n]), "theta": float(th[n]), "phi": float(ph[n]), "cx": 0.0, "cy": 0.0, "cz": 0.0}
        for i in range(3):
            for j in range(3):
                J[n, i, j] = evaluate(jac[i][j], env, "float")
    return J


def _one_config(cfg, ex, em, C, rep, sqrt4pi):
    """All clauses for one configuration.  Returns the integer observation for TLC."""
    rng = np.random.default_rng(cfg["fseed"])
    try:
        grid = _build(cfg)
    except Exception as e:
        rep.violation(f"construct:{cfg['method']}:{cfg['degs']}", f"AtomGrid construction raised {type(e).__name__}: {e}", cfg)
        return None
    center = np.array(cfg["center"])
    rpts = np.array(cfg["r"])
    rw = np.array(cfg["w"])
    ns = len(rpts)
    idx = np.asarray(grid.indices)
    if list(map(int, grid.degrees)) != list(cfg["degs"]):
        rep.violation(f"degrees:{cfg['method']}:{cfg['degs']}", f"grid.degrees = {list(grid.degrees)} for supported request {cfg['degs']}", cfg)
        return None
    shell = np.repeat(np.arange(ns), np.diff(idx))
    # ---- generic function: integer observables (also: the cached basis is built with THIS function)
    f0 = rng.normal(size=grid.size) + 2.0
    obs = {"method": cfg["method"], "degs": list(cfg["degs"]), "nsplines": -1, "nonzero": []}
    try:
        sp0 = grid.radial_component_splines(f0)
        kn = np.array([s(rpts) for s in sp0])            # (rows, shells)
        obs["nsplines"] = len(sp0)
        # a knot is "non-zero" beyond 1e-12 of the largest one: evaluating a spline at its last knot
        # returns the zeroed rows only up to rounding (~1e-17), generic components are O(0.1)
        nz = np.abs(kn) > 1e-12 * np.abs(kn).max()
        obs["nonzero"] = [int(np.flatnonzero(nz[:, i]).max()) + 1 if np.any(nz[:, i]) else 0 for i in range(ns)]
    except Exception as e:
        rep.violation("radial_component_splines:exception", f"raised {type(e).__name__}: {e} for {cfg}", cfg)
        return obs
    nspl, adml, basisl = ex["nsplines"], ex["adml"], ex["basisl"]
    rows = {(l, m): (row, comp) for l, m, row, comp in ex["rows"]}
    # ---- band-limited functions ---------------------------------------------------------------------
    gp, up = _dirs(grid.points, center)
    # radii of the grid points must be the shell radii (C05's business; needed here to pose the clause)
    Yg = ylm.ylm_xyz(adml, up)
    variants = [("all", True), ("single", True)]
    if cfg["r0"]:
        variants.append(("all-canonical", False))
    for vname, regular in variants:
        comps = [(l, m) for (l, m), (row, comp) in rows.items() if comp]
        if vname == "single":
            top = sorted(c for c in comps if c[0] == adml)
            comps = [top[int(rng.integers(len(top)))]]
        g = {lm: _gfun(rng, lm[0], regular) for lm in comps}
        Y = Yg
        if not regular:
            # canonical angles at r = 0: directions of the (unrotated) angular grid of that shell
            from grid.angular import AngularGrid
            with warnings.catch_warnings():
                warnings.simplefilter("ignore")
                ag = AngularGrid(degree=int(cfg["degs"][0]), method=cfg["method"])
            u2 = up.copy()
            u2[idx[0]: idx[1]] = ag.points
            Y = ylm.ylm_xyz(adml, u2)
        f = np.zeros(grid.size)
        for (l, m), gl in g.items():
            f += gl(rpts)[shell] * Y[ylm.row(l, m)]
        S = max(1e-3, float(np.abs(f).max()))
        tag = f"[{vname}]"
        try:
            # (a) angular integrals
            ang = np.asarray(grid.integrate_angular_coordinates(f), dtype=float)
            g00 = g[(0, 0)](rpts) if (0, 0) in g else np.zeros(ns)
            C.cmp("a:angular-integral" + tag, cfg, ang, sqrt4pi * g00, S)
            # (b) re-weighted sum = grid integral
            tot = float(grid.integrate(f))
            C.cmp("b:reweighted-sum" + tag, cfg, [np.sum(rpts ** 2 * rw * ang)], [tot], max(S, abs(tot)))
            # (c) spline knots
            sp = grid.radial_component_splines(f)
            if len(sp) != nspl:
                C._fail("c:number-of-splines", cfg, float("inf"), f"{len(sp)} splines, specification: {nspl}", None)
                continue
            kn = np.array([s(rpts) for s in sp])
            expk = np.zeros((nspl, ns))
            for (l, m), gl in g.items():
                expk[rows[(l, m)][0]] = gl(rpts)
            C.cmp("c:spline-knots" + tag, cfg, kn, expk, S)
            # (g) spherical average
            sa = grid.spherical_average(f)
            C.cmp("g:spherical-average" + tag, cfg, 4 * math.pi * sa(rpts) / sqrt4pi, g00, S)
            C.cmp("g:average-integrates-back" + tag, cfg, [np.sum(rw * 4 * math.pi * rpts ** 2 * sa(rpts))], [tot], max(S, abs(tot)))
            if not regular:
                continue
            # (d) interpolant at the grid points
            interp = grid.interpolate(f)
            C.cmp("d:interpolant-at-grid-points" + tag, cfg, interp(grid.points), f, S)
            # the same array object refreshed in place with another band-limited function (-f/2 + g00-part):
            # a second interpolation on the same grid must answer for the values it is given now
            fbuf = 2.0 * np.array(f, dtype=float)
            C.cmp("d:interpolant-of-rescaled-values" + tag, cfg, grid.interpolate(fbuf)(grid.points), 2.0 * f, 2 * S)
            fbuf *= -0.25
            C.cmp("d:interpolant-after-in-place-refresh" + tag, cfg, grid.interpolate(fbuf)(grid.points), -0.5 * f, S)
            # (e) arbitrary points incl. the centre and the z axis
            npts = 14
            rr = rng.uniform(rpts[0] if rpts[0] > 0 else 0.05, rpts[-1], npts)
            dirs = rng.normal(size=(npts, 3))
            dirs /= np.linalg.norm(dirs, axis=1)[:, None]
            X = center + rr[:, None] * dirs
            X = np.vstack([X, center[None, :], center + np.array([[0, 0, 0.7 * rpts[-1]], [0, 0, -0.4 * rpts[-1]]])])
            rx, ux = _dirs(X, center)
            Yx = ylm.ylm_xyz(basisl, ux)
            expv = np.zeros(len(X))
            for k, s in enumerate(sp):
                expv += s(rx) * Yx[k]
            C.cmp("e:interpolant-at-points" + tag, cfg, interp(X), expv, S)
            # (f) derivatives, away from the centre / z axis
            Xd = X[:npts]
            keep = (np.hypot(ux[:npts, 0], ux[:npts, 1]) >= 0.05) & (rx[:npts] >= 0.05)
            Xd, rd, ud = Xd[keep], rx[:npts][keep], ux[:npts][keep]
            if len(Xd) == 0:
                continue
            th = np.arctan2(ud[:, 1], ud[:, 0])
            ph = np.arccos(np.clip(ud[:, 2], -1, 1))
            Yd = ylm.ylm_angles(basisl, th, ph)
            dth, dph = ylm.dylm_angles(basisl, th, ph)
            s0 = np.array([s(rd) for s in sp])
            s1 = np.array([s(rd, 1) for s in sp])
            fr = np.einsum("kn,kn->n", s1, Yd)
            ft = np.einsum("kn,kn->n", s0, dth)
            fp = np.einsum("kn,kn->n", s0, dph)
            Sd = max(S, float(np.abs(np.stack([fr, ft, fp])).max()))
            got = np.asarray(interp(Xd, deriv=1, deriv_spherical=True), dtype=float)
            if got.shape == (len(Xd), 3):
                got = got.T.reshape(-1)
            C.cmp("f:derivative-spherical" + tag, cfg, got, np.hstack([fr, ft, fp]), Sd)
            J = _jac_float(em["jac"], rd, th, ph)          # d x_i / d q_j
            gexp = np.array([np.linalg.solve(J[n].T, np.array([fr[n], ft[n], fp[n]])) for n in range(len(Xd))])
            gcart = np.asarray(interp(Xd, deriv=1), dtype=float)
            Sc = max(S, float(np.abs(gexp).max()))
            C.cmp("f:derivative-cartesian" + tag, cfg, gcart, gexp, Sc)
            for nd in (1, 2, 3):
                sn = np.array([s(rd, nd) for s in sp])
                er = np.einsum("kn,kn->n", sn, Yd)
                with warnings.catch_warnings():
                    warnings.simplefilter("ignore")
                    gr = interp(Xd, deriv=nd, only_radial_deriv=True)
                C.cmp(f"f:derivative-radial-{nd}" + tag, cfg, gr, er, max(S, float(np.abs(er).max())))
            # self-consistency: Richardson-extrapolated central differences of the interpolant itself
            h = 2e-4
            fd = np.zeros((len(Xd), 3))
            for j in range(3):
                e = np.zeros(3)
                e[j] = 1.0
                d1 = (interp(Xd + h * e) - interp(Xd - h * e)) / (2 * h)
                d2 = (interp(Xd + h / 2 * e) - interp(Xd - h / 2 * e)) / h
                fd[:, j] = (4 * d2 - d1) / 3
            C.cmp("f:derivative-vs-finite-differences" + tag, cfg, gcart, fd, Sc * max(1.0, 1.0 / rd.min()), tol=TOL_FD)
        except Exception as e:
            rep.violation(f"exception{tag}", f"{type(e).__name__}: {e} (method={cfg['method']} degrees={cfg['degs']} r0={cfg['r0']})", cfg)
    return obs


def _mol_clause(cfgs, C, rep, rng):
    """(h) MolGrid.interpolate = SUM_A atomic interpolants of (w_A f)."""
    from grid.molgrid import MolGrid
    centres = np.array([[0.0, 0.0, 0.0], [1.4, 0.3, -0.2], [-0.8, 1.1, 0.9]])
    atgrids = []
    for k, cfg in enumerate(cfgs[:3]):
        c = dict(cfg)
        c["center"] = centres[k].tolist()
        try:
            atgrids.append(_build(c))
        except Exception as e:
            rep.violation("molgrid:construct", f"{type(e).__name__}: {e}", c)
            return
    mcfg = {"id": "mol-%d" % cfgs[0]["id"], "method": "mixed", "degs": [c["degs"] for c in cfgs[:3]], "r0": [c["r0"] for c in cfgs[:3]],
            "rotate": [c["rotate"] for c in cfgs[:3]], "center": centres.tolist()}
    for natom in (1, 3):
        try:
            ags = atgrids[:natom]
            size = sum(g.size for g in ags)
            aim = rng.uniform(0.1, 1.0, size) if natom > 1 else np.ones(size)
            mol = MolGrid(np.array([1, 6, 8][:natom]), ags, aim, store=True)
            F = rng.normal(size=size)
            I = mol.interpolate(F)
            X = rng.uniform(-1.5, 1.5, size=(12, 3)) + np.array([0.3, 0.2, 0.1])
            keep = np.ones(len(X), dtype=bool)
            for c in centres[:natom]:
                d = X - c
                keep &= (np.hypot(d[:, 0], d[:, 1]) > 0.05)
            X = X[keep]
            ind = np.asarray(mol.indices)
            parts = [ags[a].interpolate((F * aim)[ind[a]: ind[a + 1]]) for a in range(natom)]
            S = max(1.0, float(np.abs(F).max()))
            C.cmp(f"h:molecular-interpolant[{natom}]", mcfg, I(X), sum(p(X) for p in parts), S)
            C.cmp(f"h:molecular-gradient[{natom}]", mcfg, I(X, 1), sum(p(X, 1) for p in parts),
                  max(S, float(np.abs(sum(p(X, 1) for p in parts)).max())))
            with warnings.catch_warnings():
                warnings.simplefilter("ignore")
                e2 = sum(p(X, 2, False, True) for p in parts)
                C.cmp(f"h:molecular-radial-2[{natom}]", mcfg, I(X, 2, False, True), e2, max(S, float(np.abs(e2).max())))
            if natom == 1:   # a one-atom molecule with unit weights is the atomic interpolant
                C.cmp("h:one-atom-molecule", mcfg, I(X), ags[0].interpolate(F)(X), S)
        except Exception as e:
            rep.violation(f"molgrid:exception[{natom}]", f"{type(e).__name__}: {e}", mcfg)


class _Rec:
    """Stand-in for Report inside worker processes (merged by the parent)."""

    def __init__(self):
        self.ev = {}
        self.viol = []

    def evaluated(self, n=1, key=None):
        self.ev[key] = self.ev.get(key, 0) + n

    def violation(self, key, what, case=None):
        self.viol.append((key, what, case))


_SHARED = {}


def _work(job):
    cfgs, expect = job
    rec = _Rec()
    C = _Check(rec)
    obs = []
    with warnings.catch_warnings():
        warnings.simplefilter("ignore")
        for cfg, ex in zip(cfgs, expect):
            o = _one_config(cfg, ex, _SHARED["em"], C, rec, _SHARED["sqrt4pi"])
            if o is not None:
                obs.append((cfg["id"], o))
    return C.worst, C.bad, rec.ev, rec.viol, obs


def run(tier: str) -> int:
    rep = Report(PROP, tier, "exploration")
    rng = random.Random(rep.seed)
    wd = tlc.scratch(f"{PROP}-{tier}")
    tabs = extract.angular_tables()
    extract.write_tables_angular(wd, tabs)
    ncfg = 60 if tier == "quick" else 1500
    cfgs = _configs(tabs, ncfg, rng)

    # ---- TLC #1: laws for every degree sequence + expectations for the drawn configurations -------
    with open(wd / "configs.json", "w") as f:
        json.dump([{"method": c["method"], "degs": c["degs"], "nsplines": 0, "nonzero": []} for c in cfgs], f)
    _obs_module(wd, "expect", 50, 2 if tier == "quick" else 3, "configs.json")
    r1 = tlc.run_tlc("BandLimit", "MC_BandLimit.cfg", wd, workers=16, timeout=1200).require_ok("BandLimit")
    rep.tlc(r1, "BandLimit(laws+expectations)")
    if r1.status == "violation":
        st = tlc.last_state(r1)
        rep.violation(f"model:{','.join(r1.violated)}", f"TLC: band-limit law {r1.violated} fails for degrees {st.get('bds')} ({st.get('bmeth')})", st)
    try:
        with open(wd / "bandlimit_expect.json") as f:
            expect = json.load(f)
    except OSError:
        raise tlc.MachineryError("BandLimit.tla did not emit expectations\n" + r1.stdout[-2000:])

    # ---- calibration of the evaluator ------------------------------------------------------------
    from . import c08
    em, rh = c08.emission(f"{PROP}-{tier}-harmonics", ltree=12, lexact=3)
    rep.tlc(rh, "MC_Harmonics(calibration)")
    try:
        cal = ylm.calibrate(em, seed=rep.seed, n_random=8, lhigh=40)
    except ylm.CalibrationError as e:
        raise tlc.MachineryError(f"vf/ylm.py failed its calibration against Harmonics.tla: {e}")
    rep.set("ylm_calibration", cal)
    for t in em["trees"]:   # BandLimit!Row and Harmonics!Row are the same rule
        if ylm.row(t["l"], t["m"]) != t["row"]:
            raise tlc.MachineryError("row rule mismatch")
    for ex in expect:
        for l, m, row, _ in ex["rows"]:
            if ylm.row(l, m) != row:
                raise tlc.MachineryError("BandLimit!Row differs from Harmonics!Row")
    # sqrt(4 pi): the expected angular integral of Y_00 - from the definition tree of Y_00
    y00 = float(evaluate(em["trees"][0]["y"], {"theta": 0, "phi": 0}, "mp"))
    sqrt4pi = 1.0 / y00

    # ---- replay -----------------------------------------------------------------------------------
    C = _Check(rep)
    nprng = np.random.default_rng(rep.seed)
    _SHARED.update(em=em, sqrt4pi=sqrt4pi)
    import multiprocessing as mp_
    nchunk = 64
    jobs = [(cfgs[i::nchunk], expect[i::nchunk]) for i in range(nchunk) if cfgs[i::nchunk]]
    obs_by_id = {}
    with mp_.get_context("fork").Pool(16) as pool:
        for worst, bad, ev, viol, obs in pool.imap_unordered(_work, jobs):
            for k, v in worst.items():
                C.worst[k] = max(C.worst.get(k, 0.0), v)
            for k, r in bad.items():
                cur = C.bad.setdefault(k, {"n": 0, "worst": -1.0, "cfg": None, "msg": ""})
                cur["n"] += r["n"]
                if r["worst"] > cur["worst"] or (r["worst"] == cur["worst"] and cur["cfg"] is not None
                                                 and str(r["cfg"]["id"]) < str(cur["cfg"]["id"])):
                    cur.update(worst=r["worst"], cfg=r["cfg"], msg=r["msg"], extra=r.get("extra"))
            for k, n in ev.items():
                rep.evaluated(n, k)
            for key, what, case in viol:
                rep.violation(key, what, case)
            obs_by_id.update(dict(obs))
    observations = [obs_by_id[c["id"]] for c in cfgs if c["id"] in obs_by_id]
    for cfg, ex in zip(cfgs[:12], expect[:12]):
        rep.sample({k: cfg[k] for k in ("method", "degs", "kind", "r0", "rotate", "center")} | {"band_limit": ex["adml"], "nsplines": ex["nsplines"]})
    for k in range(0, len(cfgs) - 2, 6 if tier == "quick" else 10):
        _mol_clause(cfgs[k: k + 3], C, rep, nprng)
    C.flush()

    # ---- TLC #2: judge the integer observables ----------------------------------------------------
    with open(wd / "observations.json", "w") as f:
        json.dump(observations, f)
    _obs_module(wd, "judge", 50, 0, "observations.json")
    r2 = tlc.run_tlc("BandLimit", "MC_BandLimit.cfg", wd, workers=4, timeout=600).require_ok("BandLimit-judge")
    rep.tlc(r2, "BandLimit(judge)")
    if r2.status == "violation":
        rep.violation(f"model:{','.join(r2.violated)}", f"TLC: {r2.violated} violated while judging observations; {tlc.last_state(r2)}")
    for t in tlc.tagged(r2.stdout, "MISMATCH"):
        _, k, m, ds, nsp, ret, onsp, onz = t
        what = "number-of-splines" if onsp != nsp else "retained-prefix"
        rep.violation(f"c:{what}",
                      f"method={m} degrees={ds}: specification: {nsp} splines, retained rows per shell {ret}; "
                      f"implementation: {onsp} splines, non-zero knot rows per shell {onz} (generic function)",
                      {"method": m, "degs": ds, "spec": [nsp, ret], "observed": [onsp, onz]})
    rep.evaluated(len(observations), None)
    rep.set("configurations", len(cfgs))
    rep.set("observations_judged_by_tlc", len(observations))
    rep.set("max_scaled_deviation", {k: v for k, v in sorted(C.worst.items())})
    rep.set("tolerance", {"exact_clauses": TOL, "finite_differences": TOL_FD})
    rep.set("exhaustive", False)
    rep.set("rule", "one evaluation = one compared number of one clause (a)-(h) for one configuration and band-limited function; "
                    "distinct = (clause, configuration); functions have non-zero components for every admissible (l,m) or a single "
                    "top-degree component")
    rep.assume("vf/ylm.py (calibrated in this run against Harmonics.tla) evaluates Y_lm and its angular derivatives to ~1e-14")
    rep.assume("scipy CubicSpline objects returned by radial_component_splines are evaluated as the interpolant's radial parts "
               "(the statement defines the interpolant as SUM spline x harmonic)")
    return rep.finish()


def replay(path: str) -> int:
    with open(path) as f:
        v = json.load(f)
    print("replay: re-running the tier of the recorded violation with its seed:", v.get("key"))
    import os
    os.environ["VERIF_SEED"] = str(v.get("seed", 0))
    return run(v.get("tier", "quick"))


# ---------------------------------------------------------------------------------------------
# sensitivity

def _mutate_method(cls, name, old, new, ns, count=1):
    src = textwrap.dedent(inspect.getsource(getattr(cls, name)))
    if old not in src:
        raise tlc.MachineryError(f"mutant pattern not found in {cls.__name__}.{name}: {old!r}")
    src = src.replace(old, new, count)
    loc = {}
    exec(compile(src, f"<mutant {name}>", "exec"), ns, loc)
    saved = cls.__dict__[name]
    fn = loc[name]
    if isinstance(saved, staticmethod):
        fn = staticmethod(fn)
    setattr(cls, name, fn)
    return lambda: setattr(cls, name, saved)


def selftest(tier: str) -> int:
    import contextlib
    import io
    import grid.atomgrid as ag
    import grid.molgrid as mg
    import grid.utils as gu
    from .c08 import _mutant
    A, M = ag.AtomGrid, mg.MolGrid
    muts = [
        ("basis-(lmax+1)//2", lambda: _mutate_method(A, "radial_component_splines", "self.l_max // 2, theta, phi", "(self.l_max + 1) // 2, theta, phi", ag.__dict__)),
        ("shell-truncation-(d//2)^2", lambda: _mutate_method(A, "radial_component_splines", "(self.degrees[i] // 2 + 1) ** 2", "(self.degrees[i] // 2) ** 2 + 1", ag.__dict__)),
        ("shell-truncation-(d+1)//2", lambda: _mutate_method(A, "radial_component_splines", "(self.degrees[i] // 2 + 1) ** 2", "((self.degrees[i] + 1) // 2 + 1) ** 2", ag.__dict__)),
        ("r0-branch-disabled", lambda: _mutate_method(A, "integrate_angular_coordinates", "self.rgrid.points < 1e-8", "self.rgrid.points < -1.0", ag.__dict__)),
        ("r0-branch-keeps-radial-weight", lambda: _mutate_method(A, "integrate_angular_coordinates", "* agrid.weights", "* agrid.weights * self.rgrid.weights[i]", ag.__dict__)),
        ("r2w-removal-r-only", lambda: _mutate_method(A, "integrate_angular_coordinates", "self.rgrid.points**2 * self.rgrid.weights", "self.rgrid.points * self.rgrid.weights", ag.__dict__)),
        ("theta-phi-derivatives-swapped", lambda: _mutate_method(A, "interpolate", "radial_components, deriv_sph_harm[0, :, :]", "radial_components, deriv_sph_harm[1, :, :]", ag.__dict__)),
        ("radial-derivative-uses-values", lambda: _mutate_method(A, "interpolate", "deriv_r = np.einsum(\"ij, ij -> j\", r_values, r_sph_harm)", "deriv_r = np.einsum(\"ij, ij -> j\", radial_components, r_sph_harm)", ag.__dict__)),
        ("centre-ignored-in-angles", lambda: _mutate_method(A, "convert_cartesian_to_spherical", "center = self.center if center is None else np.asarray(center)", "center = np.zeros(3)", ag.__dict__)),
        ("canonical-angles-at-r0-dropped", lambda: _mutate_method(A, "convert_cartesian_to_spherical", "if is_atomic:", "if False:", ag.__dict__)),
        ("spherical-average-2pi", lambda: _mutate_method(A, "spherical_average", "f_radial /= 4.0 * np.pi", "f_radial /= 2.0 * np.pi", ag.__dict__)),
        ("molecular-sum-without-aim-weights", lambda: _mutate_method(M, "interpolate", "func_vals_atom = func_vals * self.aim_weights", "func_vals_atom = func_vals * 1.0", mg.__dict__)),
        ("molecular-sum-skips-last-atom", lambda: _mutate_method(M, "interpolate", "for interpolate in interpolate_funcs[1:]:", "for interpolate in interpolate_funcs[1:-1] if len(interpolate_funcs) > 2 else interpolate_funcs[1:]:", mg.__dict__)),
        ("cartesian-chain-rule-sign", lambda: _mutant("convert_derivative_from_spherical_to_cartesian", "[np.cos(phi), 0.0, -np.sin(phi) / r],", "[np.cos(phi), 0.0, np.sin(phi) / r],")),
        ("cartesian-chain-rule-missing-sinphi", lambda: _mutant("convert_derivative_from_spherical_to_cartesian", "np.cos(theta) / (r * np.sin(phi)),", "np.cos(theta) / r,")),
    ]
    missed = []
    for name, apply in muts:
        restore = apply()
        buf = io.StringIO()
        try:
            with contextlib.redirect_stdout(buf):
                rc = run("quick")
        finally:
            restore()
        lines = [l for l in buf.getvalue().splitlines() if l.startswith("VIOLATION")]
        ok = rc == 1 and bool(lines)
        if not ok:
            missed.append(name)
        print(f"mutant {name:40s} -> {'KILLED' if ok else 'MISSED'} ({len(lines)} keys" + (f", e.g. {lines[0].split('#')[1][:130]}" if lines else "") + ")")
    print(f"selftest: {len(muts) - len(missed)}/{len(muts)} mutants killed; missed: {missed}")
    run("quick")
    return 0 if not missed else 1
