"""C09 - harmonic decomposition / interpolation on atomic grids is exact when band-limited
(exploration level).

Flow (DESIGN.md section 5, C09):
 1. VERIF_SEED draws grid configurations (method, per-shell supported degrees - uniform, two-level
    pruned, random -, radial nodes incl. a node at r = 0, centre, rotation seed).  TLC run #1 on
    spec/BandLimit.tla decides the band-limit laws for EVERY sequence of supported degrees
    <= 50 (2 shells quick, 3 shells thorough: the clauses are per shell and depend on
    (d_i, min, max) only) and emits, for the drawn configurations, the expectations: number of
    splines, retained prefix per shell, band limit, row of every (l, m), which rows carry
    components.
 2. vf/ylm.py is calibrated against spec/Harmonics.tla (fresh TLC run, values and derivatives).
 3. per configuration the harness builds the AtomGrid and
      - records the integer observables for a GENERIC function (number of splines, per shell the
        extent of the non-zero knots) -> judged by TLC run #2 (BandLimit!ObsConforms);
      - draws band-limited functions f = SUM g_lm(r) Y_lm (l <= band limit; all components, or a
        single one) with vf/ylm.py on its own angles, and checks every clause of the statement:
        (a) angular integral = sqrt(4 pi) g_00(r_i)        (b) SUM r_i^2 w_i (a)_i = grid integral
        (c) spline knots = g_lm(r_i), other rows 0          (d) interpolant = f at the grid points
        (e) interpolant at arbitrary points (incl. centre, z axis) = SUM spline x harmonic
        (f) deriv=1 spherical / Cartesian (chain rule through the Jacobian DERIVED in
            Harmonics.tla), radial-only derivatives 1..3 = derivatives of that same interpolant;
            plus Richardson-extrapolated central differences of the interpolant itself
        (g) spherical average x 4 pi = (a), and it integrates back to the grid integral
        (h) MolGrid.interpolate = SUM_A atomic interpolants of w_A f (values, gradient, radial).
    Derivative clauses are evaluated away from the centre and the z axis (sin(phi) >= 0.05,
    r >= 0.05), where the library documents zero conventions instead of derivatives.

Tolerances (relative to the scale S = max |f| on the grid, resp. the natural scale of a derivative):
  1e-9 for (a)-(e), (f) exact-chain-rule parts, (g), (h);  1e-6 for the finite-difference part.
Calibration on the pinned tree (thorough tier, 1500 configurations, seeds 0, 1, 2; max scaled deviation):
  (a) 1.5e-13 (b) 4.3e-14 (c) 8.4e-14 (d) 1.3e-13 (e) 4.1e-14 (f) spherical 8.8e-15, Cartesian
  5.8e-15, radial 1.3e-14, finite differences 5.0e-10 (g) 4.3e-14 (h) 0 (identical operations).
  The 15 source-level mutants of selftest() give >= 1e-3 (all reported).

Audit extension (same technique: BandLimit.tla first, the harness only drives and observes):
 * construction routes - BandLimit!ActualDegs derives the degrees the shells must HAVE from the request (degrees that
   are not tabulated, sizes, a single broadcast value, pruned sectors by degree / by size with integer radii and
   bounds); laws BandLimit!RouteLaws (rounding up, minimal, idempotent, never lowers the requested band limit, size
   route inverse to the degree route) for every request <= 50; the observed grid.degrees are judged by TLC
   (RouteConforms) and every clause (a)-(h) runs on these grids too (_configs_ext: + ndarray / NumPy-integer degrees,
   other spellings of the method name (BandLimit!Spell) on every route, NumPy-integer rotation seeds, default centre,
   two and three shells).
 * call modes x point classes - BandLimit!ModeKind says what (deriv, deriv_spherical, only_radial_deriv) returns,
   BandLimit!PointClasses / DemandedKinds where: generic points, beyond the last / below the first node, exactly on
   the +z / -z axis (Cartesian gradient from BandLimit!AxisMeridian, cross-checked against differences of the
   interpolant), the centre (everything but the Cartesian gradient).  Positional and keyword calls alternate.
   KNOWN FINDING (known_findings.d/C09.json): on the axis the library reports d/dphi = 0 and loses the transverse
   Cartesian components; those components have their own keys (m:axis-cartesian-transverse, m:axis-spherical-polar,
   m:centre-spherical-polar, m:axis-cartesian-vs-finite-differences), everything else on the axis (values, radial
   derivatives 1-3, d/dr, d/dtheta, axial Cartesian component, finiteness) is judged strictly.
 * input forms (harness-level relations) - function values as float32 / longdouble / int64 / bool / strided /
   read-only arrays, stacked (2, 2, N) values for integrate_angular_coordinates, points as Fortran-ordered / float32 /
   int64 / strided / read-only arrays, one point of shape (3,), no points, a point array refreshed in place, inputs
   left unmodified; molecular clause against FRESHLY built atomic grids for 2 and 3 atoms in every specified call mode,
   integer values, MolGrid.from_size.
Calibration of the new clauses (quick tier seeds 0-5 and thorough tier, 1800 configurations; max scaled deviation on
the pinned tree): exact clauses m:* 2.6e-14, i:* 6.3e-15 (0 except longdouble), p:* 2.6e-14, a:stacked 1.4e-13,
  h:*fresh-grids 4.4e-16 -> TOL = 1e-9 (>= 4 orders of slack; the 18 new mutants of selftest() give >= 6e-5, almost
  all O(1) or an exception); m:axis-rule-vs-finite-differences 2.2e-9 (quick) / 1.1e-9 (thorough) -> TOL_FD_AXIS = 1e-5
  (error budget in _mode_clauses; the on-axis defect is O(1)).  With the repair proposed in
  gen/proposals/C09-axis-gradient.diff applied in-process the four known-finding clauses hold at 7e-16 (FD 4e-10).
"""
from __future__ import annotations

import inspect
import json
import math
import random
import textwrap
import time
import warnings

import numpy as np

from .. import extract, tlc, ylm
from ..evidence import Report
from ..expr_eval import evaluate

PROP = "C09"
TOL = 1e-9
TOL_FD = 1e-6
TOL_FD_AXIS = 1e-5   # finite differences next to the z axis (see _mode_clauses for the error budget)
DCAP = 26          # largest shell degree used in replayed configurations (cost)


# ---------------------------------------------------------------------------------------------
# configurations

def _configs(tabs, n, rng):
    out = []
    sup = {m: sorted(d for d, _ in t["deg"] if 1 <= d <= DCAP) for m, t in tabs.items()}
    methods = ["lebedev", "lebedev", "spherical", "maxdet", "ahrens_beylkin"]
    for k in range(n):
        m = methods[k % len(methods)] if k < 10 else rng.choice(methods)
        ns = rng.randint(4, 9)
        kind = ("uniform", "two-level", "random", "increasing")[k % 4]
        s = sup[m]
        if kind == "uniform":
            degs = [rng.choice(s)] * ns
        elif kind == "two-level":
            a, b = rng.choice(s), rng.choice(s)
            cut = rng.randint(1, ns - 1)
            degs = [min(a, b)] * cut + [max(a, b)] * (ns - cut)
        elif kind == "increasing":
            degs = sorted(rng.choice(s) for _ in range(ns))
        else:
            degs = [rng.choice(s) for _ in range(ns)]
        r = sorted(rng.uniform(0.15, 5.0) for _ in range(ns))
        r = [r[0]] + [max(r[i], r[i - 1] + 0.05) for i in range(1, ns)]
        for i in range(1, ns):
            r[i] = max(r[i], r[i - 1] + 0.05)
        r0 = (k % 5 == 3)
        if r0:
            r[0] = 0.0
        out.append({"id": k, "method": m, "degs": degs, "kind": kind, "r": r,
                    "w": [rng.uniform(0.2, 1.5) for _ in range(ns)], "r0": r0,
                    "center": [0.0, 0.0, 0.0] if k % 3 == 0 else [rng.uniform(-2, 2) for _ in range(3)],
                    "rotate": 0 if k % 2 == 0 else rng.randint(1, 10 ** 6),
                    "fseed": rng.randint(0, 2 ** 31 - 1)})
    return out


def _configs_ext(tabs, n, rng):
    """Audit extension: configurations that reach the anchored code through the other construction
    routes (requested degrees that are not tabulated, sizes, pruned sectors by degree / by size, a
    single broadcast value), other spellings of the method name, degrees handed over as ndarray /
    NumPy integers, the default centre, two and three shells.  Only the REQUEST is drawn here; the
    degrees the shells must have come from BandLimit!ActualDegs (TLC run #1)."""
    out = []
    methods = ["lebedev", "spherical", "maxdet", "ahrens_beylkin"]
    kinds = ("unsupported", "sizes", "pruned", "pruned-sizes", "single-degree", "single-size", "few-shells", "ndarray-degrees")
    for j in range(n):
        m = methods[j % 4] if j < 8 else rng.choice(methods)
        kind = kinds[j % len(kinds)] if j < 16 else rng.choice(kinds)
        tab = [(d, sz) for d, sz in tabs[m]["deg"] if 1 <= d <= DCAP]
        smax = max(sz for _, sz in tab)
        ns = rng.randint(2, 3) if kind == "few-shells" else rng.randint(4, 8)
        rm = [52 * x + 2 * rng.randint(0, 1) for x in sorted(rng.sample(range(3, 92), ns))]   # even 1/1000 bohr, gaps >= 0.05
        r0 = (j % 4 == 1)
        if r0:
            rm[0] = 0
        route, req, bounds, degform = "degrees", [], [], "list"
        if kind == "unsupported":
            req = [rng.randint(0, DCAP) for _ in range(ns)]
        elif kind == "sizes":
            route, req = "sizes", [rng.randint(1, smax) for _ in range(ns)]
        elif kind in ("pruned", "pruned-sizes"):
            nb = rng.randint(1, 3)
            bounds = sorted(2 * x + 1 for x in rng.sample(range(100, 2300), nb))     # odd: never on a radius
            route = kind
            req = [rng.randint(0, DCAP) for _ in range(nb + 1)] if kind == "pruned" else [rng.randint(1, smax) for _ in range(nb + 1)]
        elif kind == "single-degree":
            req, degform = [rng.randint(0, DCAP)], "single"
        elif kind == "single-size":
            route, req, degform = "sizes", [rng.randint(1, smax)], "single"
        elif kind == "few-shells":
            req = [rng.choice(tab)[0] for _ in range(ns)]
        else:
            req, degform = [rng.randint(0, DCAP) for _ in range(ns)], rng.choice(["ndarray", "npint", "int32"])
        out.append({"id": 100000 + j, "method": m, "degs": None, "kind": kind, "r": [x / 1000.0 for x in rm],
                    "w": [rng.uniform(0.2, 1.5) for _ in range(ns)], "r0": r0,
                    "center": [0.0, 0.0, 0.0] if j % 3 == 0 else [rng.uniform(-2, 2) for _ in range(3)],
                    "center_none": j % 6 == 0, "rotate": 0 if j % 2 == 1 else rng.randint(1, 10 ** 6),
                    "fseed": rng.randint(0, 2 ** 31 - 1), "route": route, "req": req, "nshell": ns, "rmilli": rm,
                    "bounds": bounds, "spell": j % 3, "degform": degform, "radius": 2.0 if j % 2 else 1.0, "rot_np": j % 4 == 2})
    return out


def _spec_record(c):
    """What BandLimit.tla is told about a configuration (Obs_bandlimit.ObsB record, without observations)."""
    if "route" in c:
        return {"method": c["method"], "degs": [], "nsplines": 0, "nonzero": [], "route": c["route"], "req": c["req"],
                "nshell": c["nshell"], "rmilli": c["rmilli"], "bounds": c["bounds"], "spell": c["spell"], "obsdegs": []}
    return {"method": c["method"], "degs": c["degs"], "nsplines": 0, "nonzero": [], "route": "degrees", "req": c["degs"],
            "nshell": len(c["degs"]), "rmilli": [], "bounds": [], "spell": 0, "obsdegs": []}


def _obs_module(wd, phase, dmax, nshell, fname):
    (wd / "Obs_bandlimit.tla").write_text(
        "---- MODULE Obs_bandlimit ----\nEXTENDS Integers, Sequences, Json\n"
        f"DMax == {dmax}\nNShell == {nshell}\nPhase == \"{phase}\"\n"
        f"ObsB == JsonDeserialize(\"{fname}\")\n====\n")


# ---------------------------------------------------------------------------------------------

class _Check:
    def __init__(self, rep):
        self.rep = rep
        self.worst = {}
        self.bad = {}

    def cmp(self, clause, cfg, obs, exp, scale, tol=TOL, extra=None):
        obs = np.asarray(obs, dtype=float)
        exp = np.asarray(exp, dtype=float)
        self.rep.evaluated(int(obs.size), (clause, cfg["id"]))
        if obs.shape != exp.shape:
            self._fail(clause, cfg, float("inf"), f"shape {obs.shape} instead of {exp.shape}", extra)
            return
        dev = np.abs(obs - exp) / scale
        dev = np.where(np.isfinite(obs), dev, np.inf)
        w = float(dev.max()) if dev.size else 0.0
        if w > tol:
            i = int(np.argmax(dev))
            self._fail(clause, cfg, w, f"entry {np.unravel_index(i, dev.shape)}: observed {obs.flat[i]!r}, expected {exp.flat[i]!r}", extra)
        else:
            self.worst[clause] = max(self.worst.get(clause, 0.0), w)

    def _fail(self, clause, cfg, w, msg, extra):
        rec = self.bad.setdefault(clause, {"n": 0, "worst": -1.0, "cfg": None, "msg": ""})
        rec["n"] += 1
        if w > rec["worst"]:
            rec.update(worst=w, cfg=cfg, msg=msg, extra=extra)

    def flush(self):
        for clause, rec in sorted(self.bad.items()):
            c = rec["cfg"]
            self.rep.violation(f"{clause}",
                               f"clause {clause} fails on {rec['n']} configuration(s); worst scaled deviation {rec['worst']:.3e} for "
                               f"method={c['method']} degrees={c['degs']} r0={c['r0']} rotate={c['rotate']} centre={c['center']}: {rec['msg']}",
                               {"clause": clause, "config": c, "extra": rec.get("extra")})


def _dirs(pts, center):
    """(r, unit vectors) of points about a centre; r = 0 -> direction (0,0,1) (theta = phi = 0)."""
    d = np.asarray(pts, dtype=float) - np.asarray(center, dtype=float)
    r = np.linalg.norm(d, axis=1)
    u = np.where(r[:, None] > 0, d / np.where(r > 0, r, 1.0)[:, None], np.array([0.0, 0.0, 1.0]))
    return r, u


def _gfun(rng_np, l, regular):
    a, b = rng_np.uniform(-1, 1, 2)
    al = rng_np.uniform(0.2, 0.9)
    if abs(a) < 0.2:
        a = 0.5
    p = l if regular else 0

    def g(r):
        r = np.asarray(r, dtype=float)
        return (r ** p) * (a + b * r) * np.exp(-al * r * r)
    return g


def _build(cfg):
    from grid.atomgrid import AtomGrid
    from grid.basegrid import OneDGrid
    rg = OneDGrid(np.array(cfg["r"]), np.array(cfg["w"]), (0, np.inf))
    with warnings.catch_warnings():
        warnings.simplefilter("ignore")
        if "route" not in cfg:
            return AtomGrid(rg, degrees=list(cfg["degs"]), center=np.array(cfg["center"]), rotate=int(cfg["rotate"]),
                            method=cfg["method"])
        # audit extension: the other construction routes (the request is cfg["req"]; cfg["degs"] are the degrees
        # BandLimit!ActualDegs derives from it, cfg["method_arg"] the spelling BandLimit!Spell prescribes)
        kw = {"rotate": np.int64(cfg["rotate"]) if cfg.get("rot_np") else int(cfg["rotate"]), "method": cfg.get("method_arg", cfg["method"])}
        if not (cfg.get("center_none") and not any(cfg["center"])):
            kw["center"] = np.array(cfg["center"])
        req = [int(x) for x in cfg["req"]]
        if cfg["route"] == "degrees":
            form = cfg.get("degform", "list")
            d = {"ndarray": np.array(req), "int32": np.array(req, dtype=np.int32), "npint": [np.int64(x) for x in req]}.get(form, req)
            return AtomGrid(rg, degrees=d, **kw)
        if cfg["route"] == "sizes":
            return AtomGrid(rg, sizes=req, **kw)
        rs = [b / (1000.0 * cfg["radius"]) for b in cfg["bounds"]]       # radius * rs == b / 1000 exactly (radius 1 or 2)
        if cfg["route"] == "pruned":
            return AtomGrid.from_pruned(rg, cfg["radius"], r_sectors=rs, d_sectors=req, **kw)
        return AtomGrid.from_pruned(rg, cfg["radius"], r_sectors=rs, s_sectors=req, **kw)


def _jac_float(jac, r, th, ph):
    """Jacobian d(x,y,z)/d(r,theta,phi) from the trees derived in Harmonics.tla, float mode."""
    J = np.zeros((len(r), 3, 3))
    for n in range(len(r)):
        env = {"r": float(r[n]), "theta": float(th[n]), "phi": float(ph[n]), "cx": 0.0, "cy": 0.0, "cz": 0.0}
        for i in range(3):
            for j in range(3):
                J[n, i, j] = evaluate(jac[i][j], env, "float")
    return J


def _oracle(sp, basisl, r, th, ph):
    """Values / radial derivatives / spherical derivative of SUM_k s_k(r) Y_k(theta, phi) at spherical coordinates
    (the splines are the ones radial_component_splines returned; harmonics from the calibrated vf/ylm.py, whose
    angular derivatives are true derivatives at the poles as well)."""
    r, th, ph = (np.asarray(a, dtype=float) for a in (r, th, ph))
    Y = ylm.ylm_angles(basisl, th, ph)
    dth, dph = ylm.dylm_angles(basisl, th, ph)
    sn = [np.array([s(r, n) for s in sp]) for n in range(4)]
    return {"value": np.einsum("kn,kn->n", sn[0], Y), "radial": [np.einsum("kn,kn->n", sn[n], Y) for n in range(4)],
            "fr": np.einsum("kn,kn->n", sn[1], Y), "ft": np.einsum("kn,kn->n", sn[0], dth), "fp": np.einsum("kn,kn->n", sn[0], dph)}


def _sph3(got, n):
    """The spherical derivative is returned as (dr.., dtheta.., dphi..) stacked (or (n, 3)); -> (3, n)."""
    got = np.asarray(got, dtype=float)
    if got.shape == (n, 3):
        return got.T
    return got.reshape(3, n) if got.size == 3 * n else got


def _mode_clauses(grid, cfg, C, rep, tag, sp, interp, S, center, rpts, basisl, em, generic):
    """Every call mode of the interpolant (BandLimit!CallModes / ModeKind) at every class of evaluation points
    (BandLimit!PointClasses / DemandedKinds): generic, beyond the last / below the first node, exactly on the
    +z / -z axis, the centre.  Odd-numbered modes are called with keywords, even ones positionally."""
    modes, classes, merid = _SHARED["modes"], _SHARED["classes"], _SHARED["meridian"]
    rng = np.random.default_rng([int(cfg["fseed"]), 77, len(tag)])
    rmax, rmin = float(rpts[-1]), float(rpts[0])

    def dirs(n):
        d = rng.normal(size=(n, 3))
        d /= np.linalg.norm(d, axis=1)[:, None]
        bad = np.hypot(d[:, 0], d[:, 1]) < 0.05
        d[bad] = np.array([0.6, 0.0, 0.8])
        return d

    for cl in classes:
        name, polar = cl["name"], int(cl["polar"])
        if name == "generic":
            P, r, th, ph = generic
        elif name in ("outside", "inside"):
            if name == "inside" and rmin < 0.1:
                continue
            rr = rng.uniform(1.02 * rmax, 1.25 * rmax, 3) if name == "outside" else rng.uniform(0.5 * rmin, 0.97 * rmin, 3)
            d = dirs(3)
            P = center + rr[:, None] * d
            r, u = _dirs(P, center)
            th, ph = np.arctan2(u[:, 1], u[:, 0]), np.arccos(np.clip(u[:, 2], -1, 1))
        elif name in ("north", "south"):
            sgn = 1.0 if name == "north" else -1.0
            # radii in the middle part of node intervals: the finite-difference stencils below (step <= 1/16 of the
            # interval) then stay inside one polynomial piece of the splines
            gaps = np.diff(rpts)
            cand = [i for i in range(len(gaps)) if rpts[i] + 0.35 * gaps[i] >= 0.2 and gaps[i] >= 0.04]
            if not cand:
                continue
            pick = rng.choice(cand, size=3)
            rr = rpts[pick] + gaps[pick] * rng.uniform(0.35, 0.65, 3)
            hstep = np.minimum(1e-3 * rr, gaps[pick] / 16.0)
            P = center + sgn * np.stack([0 * rr, 0 * rr, rr], axis=1)
            r = np.linalg.norm(P - center, axis=1)
            if np.any((P - center)[:, :2] != 0.0):
                continue                                  # not exactly on the axis after rounding: not this class
            th, ph = np.zeros(3), np.full(3, 0.0 if polar == 1 else math.pi)
        else:   # centre: canonical angles theta = phi = 0
            P, r, th, ph = center[None, :].copy(), np.zeros(1), np.zeros(1), np.zeros(1)
        n = len(P)
        o = _oracle(sp, basisl, r, th, ph)
        axis = polar != 0
        where = {"generic": "call-mode", "outside": "outside-range", "inside": "outside-range", "north": "axis", "south": "axis",
                 "centre": "centre"}[name]
        for im, md in enumerate(modes):
            kind = md["kind"]
            if kind not in cl["kinds"]:
                continue
            nd, sph, rad = int(md["deriv"]), bool(md["sph"]), bool(md["rad"])
            extra = {"class": name, "mode": md, "points": P.tolist()}
            try:
                with warnings.catch_warnings():
                    warnings.simplefilter("ignore")
                    got = interp(P.copy(), deriv=nd, deriv_spherical=sph, only_radial_deriv=rad) if im % 2 else interp(P.copy(), nd, sph, rad)
            except Exception as e:
                rep.violation(f"m:{where}-{kind}:exception{tag}", f"interpolant(points[{name}], deriv={nd}, deriv_spherical={sph}, "
                              f"only_radial_deriv={rad}) raised {type(e).__name__}: {e}", {"config": cfg, **extra})
                continue
            if kind == "value":
                C.cmp(f"m:{where}-value" + tag, cfg, got, o["value"], S, extra=extra)
            elif kind == "radial":
                C.cmp(f"m:{where}-radial" + tag, cfg, got, o["radial"][nd], max(S, float(np.abs(o["radial"][nd]).max())), extra=extra)
            elif kind == "spherical":
                exp3 = np.stack([o["fr"], o["ft"], o["fp"]])
                Sd = max(S, float(np.abs(exp3).max()))
                g3 = _sph3(got, n)
                if g3.shape != (3, n):
                    C.cmp(f"m:{where}-spherical" + tag, cfg, g3, exp3, Sd, extra=extra)
                elif axis:      # the polar component on the axis is judged under its own key
                    C.cmp(f"m:{where}-spherical-r-theta" + tag, cfg, g3[:2], exp3[:2], Sd, extra=extra)
                    C.cmp(f"m:{where}-spherical-polar" + tag, cfg, g3[2], exp3[2], Sd, extra=extra)
                else:
                    C.cmp(f"m:{where}-spherical" + tag, cfg, g3, exp3, Sd, extra=extra)
            elif kind == "cartesian":
                got = np.asarray(got, dtype=float)
                if not axis:
                    J = _jac_float(em["jac"], r, th, ph)
                    gexp = np.array([np.linalg.solve(J[i].T, np.array([o["fr"][i], o["ft"][i], o["fp"][i]])) for i in range(n)])
                    C.cmp(f"m:{where}-cartesian" + tag, cfg, got, gexp, max(S, float(np.abs(gexp).max())), extra=extra)
                    continue
                # on the axis: BandLimit!AxisMeridian - x from the meridian theta = 0, y from theta = pi/2
                ox = _oracle(sp, basisl, r, np.full(n, merid["x"] * math.pi / 2), ph)
                oy = _oracle(sp, basisl, r, np.full(n, merid["y"] * math.pi / 2), ph)
                gexp = np.stack([np.cos(ph) / r * ox["fp"], np.cos(ph) / r * oy["fp"], np.cos(ph) * o["fr"]], axis=1)
                Sc = max(S, float(np.abs(gexp).max()))
                if got.shape != (n, 3):
                    C.cmp("m:axis-cartesian-axial" + tag, cfg, got, gexp, Sc, extra=extra)
                    continue
                C.cmp("m:axis-cartesian-finite" + tag, cfg, np.where(np.isfinite(got), 0.0, np.inf), np.zeros((n, 3)), 1.0, extra=extra)
                C.cmp("m:axis-cartesian-axial" + tag, cfg, got[:, 2], gexp[:, 2], Sc, extra=extra)
                C.cmp("m:axis-cartesian-transverse" + tag, cfg, got[:, :2], gexp[:, :2], Sc, extra=extra)
                # Richardson-extrapolated central differences with a step of 1e-3 r.  Error budget: the library finds the
                # polar angle with arccos, which next to the axis loses eps r^2 / h^2 (8e-10 at h / 2; it would be 1e-7
                # with the absolute step 2e-4 used for generic points); truncation (h l / r)^4 / 30 ~ 1e-9 for l = 13.
                # With the smallest admitted step (node interval 0.04 at r = 5: h / r = 5e-4) the arccos term is 3.5e-9.
                # Measured worst 3.9e-9 (a third Richardson level only amplifies the arccos noise: 5e-9) -> TOL_FD_AXIS.
                h = hstep[:, None]
                fd = np.zeros((n, 3))
                for j in range(3):
                    e = np.zeros(3)
                    e[j] = 1.0
                    d1 = (interp(P + h * e) - interp(P - h * e)) / (2 * hstep)
                    d2 = (interp(P + h / 2 * e) - interp(P - h / 2 * e)) / hstep
                    fd[:, j] = np.asarray((4 * d2 - d1) / 3, dtype=float)
                # the specification's axis rule against the interpolant itself (independent of the library's derivatives)
                C.cmp("m:axis-rule-vs-finite-differences" + tag, cfg, gexp, fd, Sc * max(1.0, 1.0 / r.min()), tol=TOL_FD_AXIS, extra=extra)
                C.cmp("m:axis-cartesian-vs-finite-differences" + tag, cfg, got, fd, Sc * max(1.0, 1.0 / r.min()), tol=TOL_FD_AXIS, extra=extra)


def _form_clauses(grid, cfg, C, rep, tag, f, f0, g00, sp, interp, S, X, expv, sqrt4pi):
    """Other representations of the same inputs must give the same answers (harness-level relations), inputs are
    left alone, degenerate point sets are answered."""
    ns = len(cfg["r"])
    fkeep, Xkeep = f.copy(), X.copy()

    def guarded(key, fn):
        try:
            with warnings.catch_warnings():
                warnings.simplefilter("ignore")
                return fn()
        except Exception as e:
            rep.violation(f"{key}:exception{tag}", f"{key}: {type(e).__name__}: {e} (method={cfg['method']} degrees={cfg['degs']})", cfg)
            return None

    # -- function values in other dtypes / memory layouts: same as the float64 copy of the same numbers
    rr_ = np.array(cfg["r"])

    def answers(v):
        I_ = grid.interpolate(v)
        return (np.asarray(grid.integrate_angular_coordinates(v), dtype=float), np.asarray(grid.spherical_average(v)(rr_), dtype=float),
                np.asarray(I_(X), dtype=float), np.asarray(I_(X[:4], 1, False, True), dtype=float))

    q = np.rint(8.0 * f / S)
    ro = f.copy()
    ro.setflags(write=False)
    forms = [("float32", f.astype(np.float32)), ("longdouble", f.astype(np.longdouble)), ("int64", q.astype(np.int64)),
             ("bool", f > 0), ("strided", np.repeat(f, 2)[::2]), ("readonly", ro)]
    bf = guarded("i:values-float64", lambda: answers(f.copy()))
    for name, v in forms:
        ref = np.array(v, dtype=float)
        Sv = max(1e-3, float(np.abs(ref).max()))
        before = np.array(v, copy=True)
        a = guarded(f"i:values-{name}", lambda: answers(v))
        b = bf if np.array_equal(ref, f) else guarded("i:values-float64", lambda: answers(ref))
        if a is None or b is None:
            continue
        for part, x, y in zip(("angular", "average", "interpolant", "radial-derivative"), a, b):
            C.cmp(f"i:values-{name}" + tag, cfg, x, y, Sv * (10.0 if part == "radial-derivative" else 1.0), extra={"part": part})
        if not (before.dtype == np.asarray(v).dtype and np.array_equal(before, v)):
            C._fail("i:inputs-unchanged" + tag, cfg, float("inf"), f"function values ({name}) were modified by the library", None)
    # -- stacked functions: integrate_angular_coordinates documents (..., N) -> (..., M)
    F3 = np.stack([np.stack([f, 2.0 * f]), np.stack([-f, f0])])
    a = guarded("a:angular-integral-stacked", lambda: np.asarray(grid.integrate_angular_coordinates(F3), dtype=float))
    a0 = guarded("a:angular-integral-stacked", lambda: np.asarray(grid.integrate_angular_coordinates(f0), dtype=float))
    if a is not None and a0 is not None:
        e3 = np.stack([np.stack([sqrt4pi * g00, 2 * sqrt4pi * g00]), np.stack([-sqrt4pi * g00, a0])])
        C.cmp("a:angular-integral-stacked" + tag, cfg, a, e3, max(S, float(np.abs(f0).max())))
    # -- evaluation points in other dtypes / layouts / shapes
    Xi = np.rint(X).astype(np.int64)
    pforms = [("fortran", np.asfortranarray(X), X), ("float32", X.astype(np.float32), X.astype(np.float32).astype(float)),
              ("int64", Xi, Xi.astype(float)), ("strided", np.repeat(X, 2, axis=0)[::2], X)]
    ro = X.copy()
    ro.setflags(write=False)
    pforms.append(("readonly", ro, X))
    for name, P, Pref in pforms:
        a = guarded(f"p:points-{name}", lambda: (np.asarray(interp(P), dtype=float), np.asarray(interp(P, 1, False, True), dtype=float)))
        b = guarded("p:points-float64", lambda: (np.asarray(interp(Pref), dtype=float), np.asarray(interp(Pref, 1, False, True), dtype=float)))
        if a is None or b is None:
            continue
        C.cmp(f"p:points-{name}" + tag, cfg, a[0], b[0], S)
        C.cmp(f"p:points-{name}" + tag, cfg, a[1], b[1], max(S, float(np.abs(b[1][np.isfinite(b[1])]).max()) if np.isfinite(b[1]).any() else S))
    one = guarded("p:single-point", lambda: (np.asarray(interp(X[0].copy()), dtype=float), np.asarray(interp(X[0].copy(), 1), dtype=float),
                                             np.asarray(interp(X[:1]), dtype=float), np.asarray(interp(X[:1], 1), dtype=float)))
    if one is not None:
        C.cmp("p:single-point" + tag, cfg, one[0].reshape(-1), one[2].reshape(-1), S)
        C.cmp("p:single-point" + tag, cfg, one[1].reshape(-1), one[3].reshape(-1), max(S, float(np.abs(one[3]).max())))
    none = guarded("p:no-points", lambda: [np.asarray(interp(np.zeros((0, 3)))), np.asarray(interp(np.zeros((0, 3)), 1)),
                                            np.asarray(interp(np.zeros((0, 3)), 1, True)), np.asarray(interp(np.zeros((0, 3)), 2, False, True))])
    if none is not None and any(a.size for a in none):
        C._fail("p:no-points" + tag, cfg, float("inf"), f"no evaluation points, but results of sizes {[a.size for a in none]}", None)
    # -- the same array of points refreshed in place between two calls
    X2 = X.copy()
    v1 = guarded("p:points-refreshed-in-place", lambda: np.asarray(interp(X2), dtype=float))
    X2[:] = X[::-1]
    v2 = guarded("p:points-refreshed-in-place", lambda: np.asarray(interp(X2), dtype=float))
    if v1 is not None and v2 is not None:
        C.cmp("p:points-refreshed-in-place" + tag, cfg, np.concatenate([v1, v2]), np.concatenate([expv, expv[::-1]]), S)
    if not (np.array_equal(f, fkeep) and np.array_equal(X, Xkeep)):
        C._fail("i:inputs-unchanged" + tag, cfg, float("inf"), "function values or evaluation points were modified by the library", None)
    C.rep.evaluated(2, ("i:inputs-unchanged", cfg["id"]))


def _one_config(cfg, ex, em, C, rep, sqrt4pi):
    """All clauses for one configuration.  Returns the integer observation for TLC."""
    rng = np.random.default_rng(cfg["fseed"])
    try:
        grid = _build(cfg)
    except Exception as e:
        rep.violation(f"construct:{cfg['method']}:{cfg['degs']}", f"AtomGrid construction raised {type(e).__name__}: {e}", cfg)
        return None
    center = np.array(cfg["center"])
    rpts = np.array(cfg["r"])
    rw = np.array(cfg["w"])
    ns = len(rpts)
    idx = np.asarray(grid.indices)
    obsdegs = [int(d) for d in grid.degrees]
    obs = dict(_spec_record(cfg), degs=list(cfg["degs"]), nsplines=-1, nonzero=[], obsdegs=obsdegs)
    if obsdegs != list(cfg["degs"]) or len(idx) != ns + 1:
        rep.violation(f"degrees:{cfg['method']}:{cfg.get('route', 'degrees')}:{cfg.get('req', cfg['degs'])}",
                      f"grid.degrees = {obsdegs}; the specification derives {list(cfg['degs'])} from the request "
                      f"{cfg.get('route', 'degrees')} {cfg.get('req', cfg['degs'])} (method {cfg['method']})", cfg)
        return obs if "route" in cfg else None
    if str(grid.method) != cfg["method"]:
        rep.violation(f"method-name:{cfg.get('method_arg', cfg['method'])}", f"grid.method = {grid.method!r} for a grid requested with "
                      f"method={cfg.get('method_arg', cfg['method'])!r}", cfg)
    shell = np.repeat(np.arange(ns), np.diff(idx))
    # ---- generic function: integer observables (also: the cached basis is built with THIS function)
    f0 = rng.normal(size=grid.size) + 2.0
    try:
        sp0 = grid.radial_component_splines(f0)
        kn = np.array([s(rpts) for s in sp0])            # (rows, shells)
        obs["nsplines"] = len(sp0)
        # a knot is "non-zero" beyond 1e-12 of the largest one: evaluating a spline at its last knot
        # returns the zeroed rows only up to rounding (~1e-17), generic components are O(0.1)
        nz = np.abs(kn) > 1e-12 * np.abs(kn).max()
        obs["nonzero"] = [int(np.flatnonzero(nz[:, i]).max()) + 1 if np.any(nz[:, i]) else 0 for i in range(ns)]
    except Exception as e:
        rep.violation("radial_component_splines:exception", f"raised {type(e).__name__}: {e} for {cfg}", cfg)
        return obs
    nspl, adml, basisl = ex["nsplines"], ex["adml"], ex["basisl"]
    rows = {(l, m): (row, comp) for l, m, row, comp in ex["rows"]}
    # ---- band-limited functions ---------------------------------------------------------------------
    gp, up = _dirs(grid.points, center)
    # radii of the grid points must be the shell radii (C05's business; needed here to pose the clause)
    Yg = ylm.ylm_xyz(adml, up)
    variants = [("all", True), ("single", True)]
    if cfg["r0"]:
        variants.append(("all-canonical", False))
    for vname, regular in variants:
        comps = [(l, m) for (l, m), (row, comp) in rows.items() if comp]
        if vname == "single":
            top = sorted(c for c in comps if c[0] == adml)
            comps = [top[int(rng.integers(len(top)))]]
        g = {lm: _gfun(rng, lm[0], regular) for lm in comps}
        Y = Yg
        if not regular:
            # canonical angles at r = 0: directions of the (unrotated) angular grid of that shell
            from grid.angular import AngularGrid
            with warnings.catch_warnings():
                warnings.simplefilter("ignore")
                ag = AngularGrid(degree=int(cfg["degs"][0]), method=cfg["method"])
            u2 = up.copy()
            u2[idx[0]: idx[1]] = ag.points
            Y = ylm.ylm_xyz(adml, u2)
        f = np.zeros(grid.size)
        for (l, m), gl in g.items():
            f += gl(rpts)[shell] * Y[ylm.row(l, m)]
        S = max(1e-3, float(np.abs(f).max()))
        tag = f"[{vname}]"
        try:
            # (a) angular integrals
            ang = np.asarray(grid.integrate_angular_coordinates(f), dtype=float)
            g00 = g[(0, 0)](rpts) if (0, 0) in g else np.zeros(ns)
            C.cmp("a:angular-integral" + tag, cfg, ang, sqrt4pi * g00, S)
            # (b) re-weighted sum = grid integral
            tot = float(grid.integrate(f))
            C.cmp("b:reweighted-sum" + tag, cfg, [np.sum(rpts ** 2 * rw * ang)], [tot], max(S, abs(tot)))
            # (c) spline knots
            sp = grid.radial_component_splines(f)
            if len(sp) != nspl:
                C._fail("c:number-of-splines", cfg, float("inf"), f"{len(sp)} splines, specification: {nspl}", None)
                continue
            kn = np.array([s(rpts) for s in sp])
            expk = np.zeros((nspl, ns))
            for (l, m), gl in g.items():
                expk[rows[(l, m)][0]] = gl(rpts)
            C.cmp("c:spline-knots" + tag, cfg, kn, expk, S)
            # (g) spherical average
            sa = grid.spherical_average(f)
            C.cmp("g:spherical-average" + tag, cfg, 4 * math.pi * sa(rpts) / sqrt4pi, g00, S)
            C.cmp("g:average-integrates-back" + tag, cfg, [np.sum(rw * 4 * math.pi * rpts ** 2 * sa(rpts))], [tot], max(S, abs(tot)))
            if not regular:
                continue
            # (d) interpolant at the grid points
            interp = grid.interpolate(f)
            C.cmp("d:interpolant-at-grid-points" + tag, cfg, interp(grid.points), f, S)
            # the same array object refreshed in place with another band-limited function (-f/2 + g00-part):
            # a second interpolation on the same grid must answer for the values it is given now
            fbuf = 2.0 * np.array(f, dtype=float)
            C.cmp("d:interpolant-of-rescaled-values" + tag, cfg, grid.interpolate(fbuf)(grid.points), 2.0 * f, 2 * S)
            fbuf *= -0.25
            C.cmp("d:interpolant-after-in-place-refresh" + tag, cfg, grid.interpolate(fbuf)(grid.points), -0.5 * f, S)
            # (e) arbitrary points incl. the centre and the z axis
            npts = 14
            rr = rng.uniform(rpts[0] if rpts[0] > 0 else 0.05, rpts[-1], npts)
            dirs = rng.normal(size=(npts, 3))
            dirs /= np.linalg.norm(dirs, axis=1)[:, None]
            X = center + rr[:, None] * dirs
            X = np.vstack([X, center[None, :], center + np.array([[0, 0, 0.7 * rpts[-1]], [0, 0, -0.4 * rpts[-1]]])])
            rx, ux = _dirs(X, center)
            Yx = ylm.ylm_xyz(basisl, ux)
            expv = np.zeros(len(X))
            for k, s in enumerate(sp):
                expv += s(rx) * Yx[k]
            C.cmp("e:interpolant-at-points" + tag, cfg, interp(X), expv, S)
            # (f) derivatives, away from the centre / z axis
            Xd = X[:npts]
            keep = (np.hypot(ux[:npts, 0], ux[:npts, 1]) >= 0.05) & (rx[:npts] >= 0.05)
            Xd, rd, ud = Xd[keep], rx[:npts][keep], ux[:npts][keep]
            if len(Xd) == 0:
                continue
            th = np.arctan2(ud[:, 1], ud[:, 0])
            ph = np.arccos(np.clip(ud[:, 2], -1, 1))
            Yd = ylm.ylm_angles(basisl, th, ph)
            dth, dph = ylm.dylm_angles(basisl, th, ph)
            s0 = np.array([s(rd) for s in sp])
            s1 = np.array([s(rd, 1) for s in sp])
            fr = np.einsum("kn,kn->n", s1, Yd)
            ft = np.einsum("kn,kn->n", s0, dth)
            fp = np.einsum("kn,kn->n", s0, dph)
            Sd = max(S, float(np.abs(np.stack([fr, ft, fp])).max()))
            got = np.asarray(interp(Xd, deriv=1, deriv_spherical=True), dtype=float)
            if got.shape == (len(Xd), 3):
                got = got.T.reshape(-1)
            C.cmp("f:derivative-spherical" + tag, cfg, got, np.hstack([fr, ft, fp]), Sd)
            J = _jac_float(em["jac"], rd, th, ph)          # d x_i / d q_j
            gexp = np.array([np.linalg.solve(J[n].T, np.array([fr[n], ft[n], fp[n]])) for n in range(len(Xd))])
            gcart = np.asarray(interp(Xd, deriv=1), dtype=float)
            Sc = max(S, float(np.abs(gexp).max()))
            C.cmp("f:derivative-cartesian" + tag, cfg, gcart, gexp, Sc)
            for nd in (1, 2, 3):
                sn = np.array([s(rd, nd) for s in sp])
                er = np.einsum("kn,kn->n", sn, Yd)
                with warnings.catch_warnings():
                    warnings.simplefilter("ignore")
                    gr = interp(Xd, deriv=nd, only_radial_deriv=True)
                C.cmp(f"f:derivative-radial-{nd}" + tag, cfg, gr, er, max(S, float(np.abs(er).max())))
            # self-consistency: Richardson-extrapolated central differences of the interpolant itself
            h = 2e-4
            fd = np.zeros((len(Xd), 3))
            for j in range(3):
                e = np.zeros(3)
                e[j] = 1.0
                d1 = (interp(Xd + h * e) - interp(Xd - h * e)) / (2 * h)
                d2 = (interp(Xd + h / 2 * e) - interp(Xd - h / 2 * e)) / h
                fd[:, j] = (4 * d2 - d1) / 3
            C.cmp("f:derivative-vs-finite-differences" + tag, cfg, gcart, fd, Sc * max(1.0, 1.0 / rd.min()), tol=TOL_FD)
            # ---- audit extension: call modes x point classes (tables emitted by BandLimit.tla), input forms
            if vname == "all":
                _mode_clauses(grid, cfg, C, rep, tag, sp, interp, S, center, rpts, basisl, em, (Xd, rd, th, ph))
            if vname == "all" and cfg["id"] % _SHARED.get("form_every", 2) == 0:
                _form_clauses(grid, cfg, C, rep, tag, f, f0, g00, sp, interp, S, X, expv, sqrt4pi)
        except Exception as e:
            rep.violation(f"exception{tag}", f"{type(e).__name__}: {e} (method={cfg['method']} degrees={cfg['degs']} r0={cfg['r0']})", cfg)
    return obs


def _mol_clause(cfgs, C, rep, rng):
    """(h) MolGrid.interpolate = SUM_A atomic interpolants of (w_A f)."""
    from grid.molgrid import MolGrid
    centres = np.array([[0.0, 0.0, 0.0], [1.4, 0.3, -0.2], [-0.8, 1.1, 0.9]])
    atgrids = []
    for k, cfg in enumerate(cfgs[:3]):
        c = dict(cfg)
        c["center"] = centres[k].tolist()
        try:
            atgrids.append(_build(c))
        except Exception as e:
            rep.violation("molgrid:construct", f"{type(e).__name__}: {e}", c)
            return
    mcfg = {"id": "mol-%d" % cfgs[0]["id"], "method": "mixed", "degs": [c["degs"] for c in cfgs[:3]], "r0": [c["r0"] for c in cfgs[:3]],
            "rotate": [c["rotate"] for c in cfgs[:3]], "center": centres.tolist()}
    for natom in (1, 3):
        try:
            ags = atgrids[:natom]
            size = sum(g.size for g in ags)
            aim = rng.uniform(0.1, 1.0, size) if natom > 1 else np.ones(size)
            mol = MolGrid(np.array([1, 6, 8][:natom]), ags, aim, store=True)
            F = rng.normal(size=size)
            I = mol.interpolate(F)
            X = rng.uniform(-1.5, 1.5, size=(12, 3)) + np.array([0.3, 0.2, 0.1])
            keep = np.ones(len(X), dtype=bool)
            for c in centres[:natom]:
                d = X - c
                keep &= (np.hypot(d[:, 0], d[:, 1]) > 0.05)
            X = X[keep]
            ind = np.asarray(mol.indices)
            parts = [ags[a].interpolate((F * aim)[ind[a]: ind[a + 1]]) for a in range(natom)]
            S = max(1.0, float(np.abs(F).max()))
            C.cmp(f"h:molecular-interpolant[{natom}]", mcfg, I(X), sum(p(X) for p in parts), S)
            C.cmp(f"h:molecular-gradient[{natom}]", mcfg, I(X, 1), sum(p(X, 1) for p in parts),
                  max(S, float(np.abs(sum(p(X, 1) for p in parts)).max())))
            with warnings.catch_warnings():
                warnings.simplefilter("ignore")
                e2 = sum(p(X, 2, False, True) for p in parts)
                C.cmp(f"h:molecular-radial-2[{natom}]", mcfg, I(X, 2, False, True), e2, max(S, float(np.abs(e2).max())))
            if natom == 1:   # a one-atom molecule with unit weights is the atomic interpolant
                C.cmp("h:one-atom-molecule", mcfg, I(X), ags[0].interpolate(F)(X), S)
        except Exception as e:
            rep.violation(f"molgrid:exception[{natom}]", f"{type(e).__name__}: {e}", mcfg)


def _mol_clause_ext(cfgs, C, rep, rng):
    """Audit extension of (h): the sum is judged against FRESHLY built atomic grids (the molecule must not depend on
    state left in its atomic grids), for two atoms as well, for every call mode that BandLimit!ModeKind specifies
    (positional and keyword; the molecular callable spells the last switch only_radial_derivs), for integer
    function values, with the inputs left alone; and a molecule made by MolGrid.from_size."""
    from grid.molgrid import MolGrid
    from grid.basegrid import OneDGrid
    modes = _SHARED["modes"]
    centres = np.array([[0.0, 0.0, 0.0], [1.4, 0.3, -0.2], [-0.8, 1.1, 0.9]])
    mcfg = {"id": "molx-%d" % cfgs[0]["id"], "method": "mixed", "degs": [c["degs"] for c in cfgs[:3]], "r0": [c["r0"] for c in cfgs[:3]],
            "rotate": [c["rotate"] for c in cfgs[:3]], "center": centres.tolist()}
    for natom in (2, 3):
        try:
            def fresh():
                return [_build(dict(c, center=centres[k].tolist(), center_none=False)) for k, c in enumerate(cfgs[:natom])]
            ags, ref = fresh(), fresh()
            size = sum(g.size for g in ags)
            aim = rng.uniform(0.1, 1.0, size)
            mol = MolGrid(np.array([1, 6, 8][:natom]), ags, aim, store=True)
            ind = np.asarray(mol.indices)
            X = rng.uniform(-1.5, 1.5, size=(10, 3)) + np.array([0.3, 0.2, 0.1])
            keep = np.ones(len(X), dtype=bool)
            for c in centres[:natom]:
                d = X - c
                keep &= (np.hypot(d[:, 0], d[:, 1]) > 0.05)
            X = X[keep]
            for vals in (("float",) if natom == 2 else ("int",)):
                F = rng.normal(size=size) if vals == "float" else rng.integers(-9, 10, size=size)
                Fk, Xk, aimk = F.copy(), X.copy(), aim.copy()
                I = mol.interpolate(F)
                parts = [ref[a].interpolate((np.asarray(F, dtype=float) * aim)[ind[a]: ind[a + 1]]) for a in range(natom)]
                S = max(1.0, float(np.abs(F).max()))
                for im, md in enumerate(modes):
                    if md["kind"] == "unspecified" or (natom == 3 and (md["rad"] or int(md["deriv"]) > 1)):
                        continue
                    nd, sph, rad = int(md["deriv"]), bool(md["sph"]), bool(md["rad"])
                    with warnings.catch_warnings():
                        warnings.simplefilter("ignore")
                        e = sum(np.asarray(p(X, nd, sph, rad), dtype=float) for p in parts)
                        got = I(X, deriv=nd, deriv_spherical=sph, only_radial_derivs=rad) if im % 2 else I(X, nd, sph, rad)
                    C.cmp(f"h:molecular-{md['kind']}-fresh-grids[{natom},{vals}]", mcfg, got, e, max(S, float(np.abs(e).max())),
                          extra={"mode": md})
                if not (np.array_equal(F, Fk) and F.dtype == Fk.dtype and np.array_equal(X, Xk) and np.array_equal(aim, aimk)
                        and np.array_equal(mol.aim_weights, aimk)):
                    C._fail("h:molecular-inputs-unchanged", mcfg, float("inf"), "function values, points or atomic weights were modified", None)
        except Exception as e:
            rep.violation(f"molgrid:exception-ext[{natom}]", f"{type(e).__name__}: {e}", mcfg)
    # a molecule made by the from_size constructor (Becke weights, its own atomic grids)
    try:
        c0 = cfgs[0]
        rg = OneDGrid(np.array(c0["r"]), np.array(c0["w"]), (0, np.inf))
        with warnings.catch_warnings():
            warnings.simplefilter("ignore")
            mol = MolGrid.from_size(np.array([1, 8]), centres[:2].copy(), 30, rgrid=rg, rotate=int(c0["rotate"]) or 37, store=True)
        F = rng.normal(size=mol.size)
        I = mol.interpolate(F)
        ind = np.asarray(mol.indices)
        X = rng.uniform(-1.5, 1.5, size=(8, 3)) + np.array([0.33, 0.21, 0.12])
        keep = np.ones(len(X), dtype=bool)
        for c in centres[:2]:
            keep &= (np.hypot((X - c)[:, 0], (X - c)[:, 1]) > 0.05)
        X = X[keep]
        with warnings.catch_warnings():
            warnings.simplefilter("ignore")
            refs = [_build({"r": c0["r"], "w": c0["w"], "route": "sizes", "req": [30], "center": centres[a].tolist(),
                            "rotate": int(c0["rotate"]) or 37, "method": "lebedev"}) for a in range(2)]
        parts = [refs[a].interpolate((F * np.asarray(mol.aim_weights))[ind[a]: ind[a + 1]]) for a in range(2)]
        S = max(1.0, float(np.abs(F).max()))
        C.cmp("h:molecular-from-size", mcfg, I(X), sum(p(X) for p in parts), S)
        e1 = sum(p(X, 1) for p in parts)
        C.cmp("h:molecular-from-size", mcfg, I(X, 1), e1, max(S, float(np.abs(e1).max())))
    except Exception as e:
        rep.violation("molgrid:exception-from-size", f"{type(e).__name__}: {e}", mcfg)


class _Rec:
    """Stand-in for Report inside worker processes (merged by the parent)."""

    def __init__(self):
        self.ev = {}
        self.viol = []

    def evaluated(self, n=1, key=None):
        self.ev[key] = self.ev.get(key, 0) + n

    def violation(self, key, what, case=None):
        self.viol.append((key, what, case))


_SHARED = {}
_MEMO = {"enabled": False}      # selftest: the parts of a run that do not depend on grid's code (TLC laws and
                                # expectations, calibration of vf/ylm.py) are computed once and reused for every mutant


def _work(job):
    cfgs, expect = job
    rec = _Rec()
    C = _Check(rec)
    obs = []
    if expect == "mol":          # audit extension: a molecular group (three configurations)
        with warnings.catch_warnings():
            warnings.simplefilter("ignore")
            _mol_clause_ext(cfgs, C, rec, np.random.default_rng([int(cfgs[0]["fseed"]), 4711]))
        return C.worst, C.bad, rec.ev, rec.viol, obs
    with warnings.catch_warnings():
        warnings.simplefilter("ignore")
        for cfg, ex in zip(cfgs, expect):
            o = _one_config(cfg, ex, _SHARED["em"], C, rec, _SHARED["sqrt4pi"])
            if o is not None:
                obs.append((cfg["id"], o))
    return C.worst, C.bad, rec.ev, rec.viol, obs


def run(tier: str) -> int:
    rep = Report(PROP, tier, "exploration")
    t0 = time.time()
    phase = {}
    rng = random.Random(rep.seed)
    wd = tlc.scratch(f"{PROP}-{tier}")
    tabs = extract.angular_tables()
    extract.write_tables_angular(wd, tabs)
    ncfg = 60 if tier == "quick" else 1500
    cfgs = _configs(tabs, ncfg, rng)
    # audit extension: further construction routes / spellings / argument forms (own random stream, appended)
    cfgs += _configs_ext(tabs, 16 if tier == "quick" else 300, random.Random(rep.seed * 7919 + 13))

    # ---- TLC #1: laws for every degree sequence + expectations for the drawn configurations -------
    with open(wd / "configs.json", "w") as f:
        json.dump([_spec_record(c) for c in cfgs], f)
    _obs_module(wd, "expect", 50, 2 if tier == "quick" else 3, "configs.json")
    memo = _MEMO.get((tier, rep.seed)) if _MEMO["enabled"] else None
    if memo is None:
        r1 = tlc.run_tlc("BandLimit", "MC_BandLimit.cfg", wd, workers=8, timeout=1200).require_ok("BandLimit")
        saved_files = None
    else:
        r1, saved_files = memo["r1"], memo["files"]
        for name, text in saved_files.items():
            (wd / name).write_text(text)
    rep.tlc(r1, "BandLimit(laws+expectations)")
    if r1.status == "violation":
        st = tlc.last_state(r1)
        rep.violation(f"model:{','.join(r1.violated)}", f"TLC: band-limit law {r1.violated} fails for degrees {st.get('bds')} ({st.get('bmeth')})", st)
    try:
        with open(wd / "bandlimit_expect.json") as f:
            expect = json.load(f)
        with open(wd / "bandlimit_modes.json") as f:
            mtab = json.load(f)
    except OSError:
        raise tlc.MachineryError("BandLimit.tla did not emit expectations\n" + r1.stdout[-2000:])
    if len(expect) != len(cfgs):
        raise tlc.MachineryError("BandLimit.tla emitted expectations for another number of configurations")
    for c, ex in zip(cfgs, expect):
        if "route" in c:
            c["degs"] = [int(d) for d in ex["degs"]]          # BandLimit!ActualDegs(request)
            c["method_arg"] = ex["method_arg"]               # BandLimit!Spell
        elif [int(d) for d in ex["degs"]] != list(c["degs"]):
            raise tlc.MachineryError(f"tabulated degrees {c['degs']} are not fixed points of BandLimit!EffDeg: {ex['degs']}")

    phase["tlc_laws_and_expectations"] = round(time.time() - t0, 1)
    # ---- calibration of the evaluator ------------------------------------------------------------
    from . import c08
    if memo is None:
        em, rh = c08.emission(f"{PROP}-{tier}-harmonics", ltree=12, lexact=3)
        try:
            cal = ylm.calibrate(em, seed=rep.seed, n_random=8, lhigh=40, procs=8)
        except ylm.CalibrationError as e:
            raise tlc.MachineryError(f"vf/ylm.py failed its calibration against Harmonics.tla: {e}")
        if _MEMO["enabled"] and r1.status == "ok":
            _MEMO[(tier, rep.seed)] = {"r1": r1, "em": em, "rh": rh, "cal": cal,
                                       "files": {n: (wd / n).read_text() for n in ("bandlimit_expect.json", "bandlimit_modes.json")}}
    else:
        em, rh, cal = memo["em"], memo["rh"], memo["cal"]
    rep.tlc(rh, "MC_Harmonics(calibration)")
    rep.set("ylm_calibration", cal)
    for t in em["trees"]:   # BandLimit!Row and Harmonics!Row are the same rule
        if ylm.row(t["l"], t["m"]) != t["row"]:
            raise tlc.MachineryError("row rule mismatch")
    for ex in expect:
        for l, m, row, _ in ex["rows"]:
            if ylm.row(l, m) != row:
                raise tlc.MachineryError("BandLimit!Row differs from Harmonics!Row")
    # sqrt(4 pi): the expected angular integral of Y_00 - from the definition tree of Y_00
    y00 = float(evaluate(em["trees"][0]["y"], {"theta": 0, "phi": 0}, "mp"))
    sqrt4pi = 1.0 / y00

    phase["harmonics_calibration"] = round(time.time() - t0, 1)
    # ---- replay -----------------------------------------------------------------------------------
    C = _Check(rep)
    nprng = np.random.default_rng(rep.seed)
    _SHARED.update(em=em, sqrt4pi=sqrt4pi, modes=mtab["modes"], classes=mtab["classes"], meridian=mtab["meridian"])
    import multiprocessing as mp_
    nchunk = 64
    jobs = [(cfgs[i::nchunk], expect[i::nchunk]) for i in range(nchunk) if cfgs[i::nchunk]]
    mol_step = 6 if tier == "quick" else 10
    jobs += [(cfgs[k: k + 3], "mol") for k in range(1, len(cfgs) - 2, mol_step)]
    _SHARED["form_every"] = 2 if tier == "quick" else 3
    obs_by_id = {}
    with mp_.get_context("fork").Pool(8) as pool:
        for worst, bad, ev, viol, obs in pool.imap_unordered(_work, jobs):
            for k, v in worst.items():
                C.worst[k] = max(C.worst.get(k, 0.0), v)
            for k, r in bad.items():
                cur = C.bad.setdefault(k, {"n": 0, "worst": -1.0, "cfg": None, "msg": ""})
                cur["n"] += r["n"]
                if r["worst"] > cur["worst"] or (r["worst"] == cur["worst"] and cur["cfg"] is not None
                                                 and str(r["cfg"]["id"]) < str(cur["cfg"]["id"])):
                    cur.update(worst=r["worst"], cfg=r["cfg"], msg=r["msg"], extra=r.get("extra"))
            for k, n in ev.items():
                rep.evaluated(n, k)
            for key, what, case in viol:
                rep.violation(key, what, case)
            obs_by_id.update(dict(obs))
    phase["replay_pool"] = round(time.time() - t0, 1)
    observations = [obs_by_id[c["id"]] for c in cfgs if c["id"] in obs_by_id]
    for cfg, ex in zip(cfgs[:12], expect[:12]):
        rep.sample({k: cfg[k] for k in ("method", "degs", "kind", "r0", "rotate", "center")} | {"band_limit": ex["adml"], "nsplines": ex["nsplines"]})
    for k in range(0, len(cfgs) - 2, 6 if tier == "quick" else 10):
        _mol_clause(cfgs[k: k + 3], C, rep, nprng)
    C.flush()

    phase["molecular_clause"] = round(time.time() - t0, 1)
    # ---- TLC #2: judge the integer observables ----------------------------------------------------
    with open(wd / "observations.json", "w") as f:
        json.dump(observations, f)
    _obs_module(wd, "judge", 50, 0, "observations.json")
    r2 = tlc.run_tlc("BandLimit", "MC_BandLimit.cfg", wd, workers=4, timeout=600).require_ok("BandLimit-judge")
    rep.tlc(r2, "BandLimit(judge)")
    if r2.status == "violation":
        rep.violation(f"model:{','.join(r2.violated)}", f"TLC: {r2.violated} violated while judging observations; {tlc.last_state(r2)}")
    for t in tlc.tagged(r2.stdout, "MISMATCH"):
        _, k, m, ds, nsp, ret, onsp, onz = t
        what = "number-of-splines" if onsp != nsp else "retained-prefix"
        rep.violation(f"c:{what}",
                      f"method={m} degrees={ds}: specification: {nsp} splines, retained rows per shell {ret}; "
                      f"implementation: {onsp} splines, non-zero knot rows per shell {onz} (generic function)",
                      {"method": m, "degs": ds, "spec": [nsp, ret], "observed": [onsp, onz]})
    for t in tlc.tagged(r2.stdout, "MISMATCH-ROUTE"):
        _, k, m, route, req, act, od = t
        rep.violation(f"degrees:{m}:{route}:{req}",
                      f"method={m} request {route} {req}: specification (BandLimit!ActualDegs): shell degrees {act}; "
                      f"the built grid reports {od}", {"method": m, "route": route, "request": req, "spec": act, "observed": od})
    rep.evaluated(len(observations), None)
    phase["tlc_judge"] = round(time.time() - t0, 1)
    rep.set("phase_wall_cumulative_s", phase)
    rep.set("call_modes", mtab["modes"])
    rep.set("point_classes", mtab["classes"])
    rep.set("construction_routes", sorted({c.get("route", "degrees") + "/" + c.get("kind", "") for c in cfgs}))
    rep.set("configurations", len(cfgs))
    rep.set("observations_judged_by_tlc", len(observations))
    rep.set("max_scaled_deviation", {k: v for k, v in sorted(C.worst.items())})
    rep.set("tolerance", {"exact_clauses": TOL, "finite_differences": TOL_FD})
    rep.set("exhaustive", False)
    rep.set("rule", "one evaluation = one compared number of one clause (a)-(h) for one configuration and band-limited function; "
                    "distinct = (clause, configuration); functions have non-zero components for every admissible (l,m) or a single "
                    "top-degree component")
    rep.assume("vf/ylm.py (calibrated in this run against Harmonics.tla) evaluates Y_lm and its angular derivatives to ~1e-14")
    rep.assume("scipy CubicSpline objects returned by radial_component_splines are evaluated as the interpolant's radial parts "
               "(the statement defines the interpolant as SUM spline x harmonic)")
    return rep.finish()


def replay(path: str) -> int:
    with open(path) as f:
        v = json.load(f)
    print("replay: re-running the tier of the recorded violation with its seed:", v.get("key"))
    import os
    os.environ["VERIF_SEED"] = str(v.get("seed", 0))
    return run(v.get("tier", "quick"))


# ---------------------------------------------------------------------------------------------
# sensitivity

def _mutate_method(cls, name, old, new, ns, count=1):
    src = textwrap.dedent(inspect.getsource(getattr(cls, name)))
    if old not in src:
        raise tlc.MachineryError(f"mutant pattern not found in {cls.__name__}.{name}: {old!r}")
    src = src.replace(old, new, count)
    loc = {}
    exec(compile(src, f"<mutant {name}>", "exec"), ns, loc)
    saved = cls.__dict__[name]
    fn = loc[name]
    if isinstance(saved, staticmethod):
        fn = staticmethod(fn)
    setattr(cls, name, fn)
    return lambda: setattr(cls, name, saved)


def selftest(tier: str) -> int:
    import contextlib
    import io
    import grid.atomgrid as ag
    import grid.molgrid as mg
    import grid.utils as gu
    from .c08 import _mutant
    A, M = ag.AtomGrid, mg.MolGrid
    muts = [
        ("basis-(lmax+1)//2", lambda: _mutate_method(A, "radial_component_splines", "self.l_max // 2, theta, phi", "(self.l_max + 1) // 2, theta, phi", ag.__dict__)),
        ("shell-truncation-(d//2)^2", lambda: _mutate_method(A, "radial_component_splines", "(self.degrees[i] // 2 + 1) ** 2", "(self.degrees[i] // 2) ** 2 + 1", ag.__dict__)),
        ("shell-truncation-(d+1)//2", lambda: _mutate_method(A, "radial_component_splines", "(self.degrees[i] // 2 + 1) ** 2", "((self.degrees[i] + 1) // 2 + 1) ** 2", ag.__dict__)),
        ("r0-branch-disabled", lambda: _mutate_method(A, "integrate_angular_coordinates", "self.rgrid.points < 1e-8", "self.rgrid.points < -1.0", ag.__dict__)),
        ("r0-branch-keeps-radial-weight", lambda: _mutate_method(A, "integrate_angular_coordinates", "* agrid.weights", "* agrid.weights * self.rgrid.weights[i]", ag.__dict__)),
        ("r2w-removal-r-only", lambda: _mutate_method(A, "integrate_angular_coordinates", "self.rgrid.points**2 * self.rgrid.weights", "self.rgrid.points * self.rgrid.weights", ag.__dict__)),
        ("theta-phi-derivatives-swapped", lambda: _mutate_method(A, "interpolate", "radial_components, deriv_sph_harm[0, :, :]", "radial_components, deriv_sph_harm[1, :, :]", ag.__dict__)),
        ("radial-derivative-uses-values", lambda: _mutate_method(A, "interpolate", "deriv_r = np.einsum(\"ij, ij -> j\", r_values, r_sph_harm)", "deriv_r = np.einsum(\"ij, ij -> j\", radial_components, r_sph_harm)", ag.__dict__)),
        ("centre-ignored-in-angles", lambda: _mutate_method(A, "convert_cartesian_to_spherical", "center = self.center if center is None else np.asarray(center)", "center = np.zeros(3)", ag.__dict__)),
        ("canonical-angles-at-r0-dropped", lambda: _mutate_method(A, "convert_cartesian_to_spherical", "if is_atomic:", "if False:", ag.__dict__)),
        ("spherical-average-2pi", lambda: _mutate_method(A, "spherical_average", "f_radial /= 4.0 * np.pi", "f_radial /= 2.0 * np.pi", ag.__dict__)),
        ("molecular-sum-without-aim-weights", lambda: _mutate_method(M, "interpolate", "func_vals_atom = func_vals * self.aim_weights", "func_vals_atom = func_vals * 1.0", mg.__dict__)),
        ("molecular-sum-skips-last-atom", lambda: _mutate_method(M, "interpolate", "for interpolate in interpolate_funcs[1:]:", "for interpolate in interpolate_funcs[1:-1] if len(interpolate_funcs) > 2 else interpolate_funcs[1:]:", mg.__dict__)),
        ("cartesian-chain-rule-sign", lambda: _mutant("convert_derivative_from_spherical_to_cartesian", "[np.cos(phi), 0.0, -np.sin(phi) / r],", "[np.cos(phi), 0.0, np.sin(phi) / r],")),
        ("cartesian-chain-rule-missing-sinphi", lambda: _mutant("convert_derivative_from_spherical_to_cartesian", "np.cos(theta) / (r * np.sin(phi)),", "np.cos(theta) / r,")),
    ]
    U = "convert_derivative_from_spherical_to_cartesian"
    spl_line = "r_values = np.array([spline(r_pts, deriv) for spline in splines])"
    muts += [   # ---- audit extension ----
        ("degrees-stored-as-requested", lambda: _mutate_method(A, "_generate_atomic_grid", "actual_degrees.append(sphere_grid.degree)", "actual_degrees.append(int(deg_i))", ag.__dict__)),
        ("sizes-route-ignores-method", lambda: _mutate_method(A, "__init__", "convert_angular_sizes_to_degrees(sizes, method=method)", "convert_angular_sizes_to_degrees(sizes, method=\"lebedev\")", ag.__dict__)),
        ("pruned-sector-bounds-halved", lambda: _mutate_method(A, "_find_degrees_for_radial_points", "radial_points[:, None] > r_sectors[None, :]", "radial_points[:, None] > 0.5 * r_sectors[None, :]", ag.__dict__)),
        ("method-name-stored-in-capitals", lambda: _mutate_method(A, "__init__", "self._method = method.lower()", "self._method = method.upper()", ag.__dict__)),
        ("case-folded-only-on-the-degrees-path", lambda: _mutate_method(A, "__init__", "method = method.lower()\n", "pass\n", ag.__dict__)),
        ("single-point-reshape-dropped", lambda: _mutate_method(A, "convert_cartesian_to_spherical", "if points.ndim == 1:", "if False:", ag.__dict__)),
        ("angular-integration-in-place", lambda: _mutate_method(A, "integrate_angular_coordinates", "prod_value = func_vals * self.weights", "prod_value = np.multiply(func_vals, self.weights, out=func_vals if func_vals.dtype == np.float64 and func_vals.flags.writeable and func_vals.ndim == 1 else None)", ag.__dict__)),
        ("stacked-functions-transposed", lambda: _mutate_method(A, "integrate_angular_coordinates", "np.moveaxis(radial_coefficients, 0, -1)", "radial_coefficients.T", ag.__dict__)),
        ("both-switches-return-spherical", lambda: _mutate_method(A, "interpolate", "if not only_radial_deriv and deriv == 1:", "if (not only_radial_deriv or deriv_spherical) and deriv == 1:", ag.__dict__)),
        ("radial-switch-with-deriv-0-differentiates", lambda: _mutate_method(A, "interpolate", spl_line, spl_line.replace("(r_pts, deriv)", "(r_pts, max(deriv, 1) if only_radial_deriv else deriv)"), ag.__dict__)),
        ("extrapolation-clamped-to-last-node", lambda: _mutate_method(A, "interpolate", spl_line, spl_line.replace("(r_pts, deriv)", "(np.minimum(r_pts, self.rgrid.points[-1]), deriv)"), ag.__dict__)),
        ("cartesian-nan-on-the-axis", lambda: _mutant(U, "if np.abs(phi) < 1e-10:", "if False:")),
        ("radial-derivative-zeroed-at-the-centre", lambda: _mutate_method(A, "interpolate", "deriv_r = np.einsum(\"ij, ij -> j\", r_values, r_sph_harm)", "deriv_r = np.where(r_pts > 0, np.einsum(\"ij, ij -> j\", r_values, r_sph_harm), 0.0)", ag.__dict__)),
        ("molecular-spherical-switch-dropped", lambda: _mutate_method(M, "interpolate", "output += interpolate(points, deriv, deriv_spherical, only_radial_derivs)", "output += interpolate(points, deriv, False, only_radial_derivs)", mg.__dict__)),
        ("molecule-scales-values-in-place", lambda: _mutate_method(M, "interpolate", "func_vals_atom = func_vals * self.aim_weights", "func_vals_atom = np.multiply(func_vals, self.aim_weights, out=func_vals if func_vals.dtype == np.float64 else None)", mg.__dict__)),
        ("float32-values-projected-in-single-precision", lambda: _mutate_method(A, "radial_component_splines", "values = np.einsum(\"ln,n->ln\", self._basis, func_vals)", "values = np.einsum(\"ln,n->ln\", self._basis.astype(func_vals.dtype) if func_vals.dtype == np.float32 else self._basis, func_vals)", ag.__dict__)),
        ("integer-values-keep-their-dtype", lambda: _mutate_method(A, "radial_component_splines", "values = np.einsum(\"ln,n->ln\", self._basis, func_vals)", "values = np.einsum(\"ln,n->ln\", self._basis, func_vals).astype(func_vals.dtype if func_vals.dtype.kind in \"iub\" else np.longdouble)", ag.__dict__)),
        ("points-shifted-in-place", lambda: _mutant("convert_cart_to_sph", "relat_pts = points - center", "relat_pts = np.subtract(points, center, out=points if points.dtype == np.float64 and points.flags.writeable else None)")),
    ]
    only = [x for x in __import__("os").environ.get("VERIF_C09_MUTANTS", "").split(",") if x]
    if only:
        muts = [mu for mu in muts if any(o in mu[0] for o in only)]
    _MEMO["enabled"] = True
    missed = []
    for name, apply in muts:
        restore = apply()
        buf = io.StringIO()
        try:
            with contextlib.redirect_stdout(buf):
                rc = run("quick")
        finally:
            restore()
        lines = [l for l in buf.getvalue().splitlines() if l.startswith("VIOLATION")]
        ok = rc == 1 and bool(lines)
        if not ok:
            missed.append(name)
        print(f"mutant {name:40s} -> {'KILLED' if ok else 'MISSED'} ({len(lines)} keys" + (f", e.g. {lines[0].split('#')[1][:130]}" if lines else "") + ")")
    print(f"selftest: {len(muts) - len(missed)}/{len(muts)} mutants killed; missed: {missed}")
    _MEMO["enabled"] = False
    run("quick")
    return 0 if not missed else 1
