"""C14 - multipole moments equal direct quadrature of their defining integrands.

Specification: spec/Moments.tla (Horton orders declaratively and as loop nests, row index
arithmetic, basis functions: Cartesian monomials exactly, |r|^n, real regular solid harmonics from
an explicit formula, dipole) + spec/MC_Moments.tla (state machine, judges).

Flow:
  1. TLC (Emit=TRUE) writes the quadrature cases (small rational point sets, 1-3 centres, dims 1-3),
     the basis trees in x, y, z (radial / pure / pure-radial rows in Horton order), the per-point
     terms  coef_i = w_i f_i, at_i = p_i - R_c  and the dipole cases with their dipole trees.
  2. The harness calls generate_orders_horton_order, Grid.moments(..., return_orders=True) and
     dipole_moment_of_molecule and records: every order listing (integers), the Cartesian moments
     (snapped to the dyadic lattice 2^-L on which they live and handed to TLC as exact rationals).
  3. TLC checks the model (loop nest = declarative Horton listing, row-index laws, harmonicity /
     homogeneity / sign convention / Unsold sum rule of the solid harmonics, dipole = nuclear -
     electronic first moments) and judges the recorded listings and Cartesian moments exactly.
     Radial / pure / pure-radial moments and dipoles are compared by the harness with
     sum_i coef_i * Basis(at_i) evaluated from the emitted trees with 50-digit arithmetic.

Tolerance for tree-based values: |err| <= 1e-10 * scale, scale = sum_i |coef_i| |at_i|^degree
(degree = n, l, n + l): measured max err/scale 1.3e-15 on the pinned tree (quick+thorough, seeds
0-2); the mutants (n vs n+1, row offsets, dropped normalisation) give err/scale >= 1e-2.
Dipole: |err| <= 1e-11 * (sum |terms|): measured 4e-16.

Second model (audit): spec/MomentsX.tla + spec/MC_MomentsX.tla, run after the first one (``_run_x``).
  * extended cases: per-case maximal orders (Cartesian 0..6 judged exactly by TLC, Cartesian / radial up to 8 | 12 and
    pure / pure-radial up to 4 | 6 by trees - Cartesian monomial trees evaluated in exact fractions), 1..6 centres with
    duplicates, geometries (star about a centre: r = 0 and the six axis directions, one-point, empty, duplicate points),
    zero / negative / fractional weights, coordinates on three dyadic lattices, points and centres times 2^shift
    (shift in -40..30; the specification's scaling law, checked by TLC on the exact moments, gives the factor),
    argument forms of function values (float64/32/16, longdouble, int64/32, uint8, bool, read-only, strided),
    centres (float64/32, int64, Fortran order, strided, read-only), grid points (C/F order, strided, read-only, int64,
    float32, flat), maximal order (int, np.int64, np.int32) and of the call (keywords / positional, return_orders
    given / omitted, type_mom omitted); frame condition (no argument modified) and same-call-twice.
  * sessions: TLC's session machine carries the current points of two grids through triples
    (call, perturbation, call again) - perturbations: in-place edit of / assignment to grid.points, scribbling over
    every array returned so far, other calls; every step is judged by TLC (rows, exact Cartesian moments of the grid
    as it is at that step, frame condition) or against the trees with the per-step terms TLC emitted.
  * order-listing call forms (dim omitted, keywords, called again after the first result was overwritten, NumPy
    integer orders through Grid.moments) for all orders 0..8 | 12, judged by TLC.
  * extended dipole cases: 1..6 nuclei, charges from the whole table (1..82), forms of charges / coordinates /
    density, frame condition and same-call-twice.
Same tolerances (no new ones): measured on the pinned tree (quick seeds 0-5 + thorough) max err/scale 1.7e-15 for the
tree-based values (Cartesian by trees: exactly 0), 6e-17 for the dipoles; the mutants of X_MUTANTS give >= 1e-8.
Not covered: solid harmonics beyond l = 6 (the normalisation (l+|m|)!/(l-|m|)! leaves TLC's 32-bit integers at l = 7).
"""
from __future__ import annotations

import json
import os
from fractions import Fraction
from pathlib import Path

import numpy as np

from .. import tlc
from ..evidence import Report
from ..expr_eval import evaluate

PROP = "C14"
VAL_RTOL = 1e-10
DIP_RTOL = 1e-11
NOTREC = [-1000000, 1]
STATS = {}

INVARIANTS = ["LoopNestIsHortonListing", "RowCounts", "RowIndexLaws", "PureRadialPicksItsHarmonic", "Harmonic",
              "HomogeneousOfDegreeL", "SignConvention", "Unsold", "DipoleIsFirstMomentDifference",
              "JudgeOrders", "JudgeCartesian"]


def _stat(name, value):
    STATS[name] = max(STATS.get(name, 0.0), float(value))


def _cfg(wd: Path, name: str, consts: dict, invariants=()) -> Path:
    lines = ["SPECIFICATION Spec", "CONSTANTS"] + [f" {k} = {tlc.tla(v)}" for k, v in consts.items()]
    lines += [f"INVARIANT {i}" for i in invariants]
    p = wd / name
    p.write_text("\n".join(lines) + "\n")
    return p


def _obs_module(wd: Path, jsonfile):
    if jsonfile:
        body = f'AllObs == JsonDeserialize("{jsonfile}")\nOrdersObs == AllObs.orders\nValueObs == AllObs.cart'
    else:
        body = "OrdersObs == <<>>\nValueObs == <<>>"
    (wd / "Obs_moments.tla").write_text(f"---- MODULE Obs_moments ----\nEXTENDS Json\n{body}\n====\n")


def _tagged(stdout, tag):
    return tlc.tagged(stdout.replace('<< "', '<<"'), tag)


def _rows(a):
    """Order listing as a list of integer rows."""
    a = np.asarray(a)
    if a.ndim == 1:
        a = a.reshape(-1, 1)
    if a.size and not np.all(a == np.round(a)):
        raise ValueError("non-integer order")
    return [[int(v) for v in r] for r in a]


def _q(v):
    return Fraction(*v)


def _snap(value, lbits):
    """Exact rational of an observation that lives on the lattice 2^-lbits (None if it does not)."""
    v = float(value)
    if not np.isfinite(v):
        return None
    k = round(v * 2 ** lbits)
    if abs(v * 2 ** lbits - k) > 1e-6 * max(1.0, abs(k)):
        return None
    f = Fraction(k, 2 ** lbits)
    if abs(f.numerator) >= 2 ** 30:     # TLC integers are 32 bit
        return None
    return [f.numerator, f.denominator]


def _grid(pts, wts, flat=False):
    from grid.basegrid import Grid
    p = np.array([[float(v) for v in r] for r in pts])
    if flat:
        p = p[:, 0]
    return Grid(p, np.array([float(v) for v in wts]))


def _basis_values(trees, terms, mode="mp"):
    """sum_i coef_i * B(at_i) for every basis tree; returns (values, per-term absolute sums)."""
    vals, mags = [], []
    for tree in trees:
        tot, mag = 0, 0
        for coef, at in terms:
            env = dict(zip("xyz", at))
            b = evaluate(tree, env, mode)
            tot += coef * b if mode == "fraction" else float(coef) * b
            mag += abs(float(coef) * float(b))
        vals.append(float(tot))
        mags.append(mag)
    return np.array(vals), np.array(mags)


def _observe(rep: Report, tier: str, emitted: dict):
    from grid.utils import generate_orders_horton_order
    max_order = emitted["max_order"]
    orders_obs, cart_obs, n = [], [], 0

    # ---- order listings, directly and through Grid.moments --------------------------------------
    for typ, dims in (("cartesian", (1, 2, 3)), ("radial", (1, 2, 3)), ("pure", (3,)), ("pure-radial", (3,))):
        for dim in dims:
            for order in range(0, max_order + 1):
                n += 1
                rep.evaluated(1, ("orders", typ, dim, order))
                try:
                    rows = _rows(generate_orders_horton_order(order, typ, dim))
                    orders_obs.append({"type": typ, "dim": dim, "order": order, "via": "direct", "rows": rows})
                except Exception as e:
                    rep.violation(f"orders:direct:{typ}:dim={dim}:order={order}",
                                  f"generate_orders_horton_order({order}, {typ!r}, {dim}) raised {type(e).__name__}: {e}")
                if typ == "pure-radial" and order == 0:
                    continue    # documented: n must be positive
                try:
                    g = _grid([[Fraction(i + 1, 2)] * dim for i in range(3)], [1, 2, 1])
                    _, rows = g.moments(order, np.zeros((2, dim)), np.array([1.0, -1.0, 2.0]), typ, return_orders=True)
                    orders_obs.append({"type": typ, "dim": dim, "order": order, "via": "moments", "rows": _rows(rows)})
                    n += 1
                except Exception as e:
                    rep.violation(f"orders:moments:{typ}:dim={dim}:order={order}",
                                  f"Grid.moments({order}, type_mom={typ!r}, return_orders=True) on a {dim}D grid raised {type(e).__name__}: {e}")

    # ---- values --------------------------------------------------------------------------------
    for k, item in enumerate(emitted["values"], 1):
        c = item["case"]
        dim, lcart, lpure = c["dim"], c["lcart"], c["lpure"]
        pts = [[_q(v) for v in p] for p in c["pts"]]
        wts = [_q(v) for v in c["wts"]]
        fvals = np.array([float(_q(v)) for v in c["fvals"]])
        centres = np.array([[float(_q(v)) for v in r] for r in c["centres"]])
        if k % 2 == 0 and np.all(fvals == np.round(fvals)):
            # "for all function value arrays": integer-valued samples handed over as the integer array a caller
            # holds them in (counts, masks); the moments are the same real numbers
            fvals = fvals.astype(np.int64)
        ckey = f"case={k}:dim={dim}:{c['kind']}"
        info = {"dim": dim, "points": [[str(v) for v in p] for p in pts], "weights": [str(v) for v in wts],
                "fvals": fvals.tolist(), "centres": centres.tolist()}
        rec = {"cart": []}
        g = _grid(pts, wts)
        # Cartesian: exact
        n += 1
        rep.evaluated(1, ("cartesian", dim, c["kind"], len(centres)))
        try:
            mom = np.asarray(g.moments(lcart, centres, fvals, "cartesian"), float)
            if mom.ndim != 2 or mom.shape[1] != len(centres):
                raise ValueError(f"result has shape {mom.shape} for {len(centres)} centres")
            lbits = 0 if c["kind"] == "int" else lcart
            table = []
            for r, row in enumerate(mom):
                out = []
                for ci, v in enumerate(row):
                    s = _snap(v, lbits)
                    if s is None:
                        rep.violation(f"cartesian:{ckey}:row={r}:centre={ci}:off-lattice",
                                      f"Cartesian moment row {r} centre {ci} = {v!r} is not a multiple of 2^-{lbits} (or is >= 2^30) "
                                      f"although points, centres, weights and values are small dyadic rationals", info)
                        s = NOTREC
                    out.append(s)
                table.append(out)
            rec["cart"] = table
        except Exception as e:
            rep.violation(f"cartesian:{ckey}:raises", f"Grid.moments({lcart}, type_mom='cartesian') raised {type(e).__name__}: {e}", info)
        cart_obs.append(rec)
        # one-dimensional grids as the library stores them (flat point array)
        if dim == 1:
            n += 1
            rep.evaluated(1, ("cartesian-flat-1d", c["kind"]))
            try:
                mom1 = np.asarray(_grid(pts, wts, flat=True).moments(lcart, centres, fvals, "cartesian"), float)
                if rec["cart"] and not np.array_equal(mom1, mom):
                    rep.violation(f"cartesian:flat-1d-points:{ckey}:differs", "moments of the flat 1D grid differ from those of the (N,1) grid", info)
            except Exception as e:
                rep.violation(f"cartesian:flat-1d-points:{ckey}:raises",
                              f"Grid.moments on a one-dimensional grid whose points are a flat array (shape (N,)) raised {type(e).__name__}: {e}", info)
        # tree-based types
        todo = [("radial", lcart, emitted["radial"][dim - 1])]
        if dim == 3:
            todo += [("pure", lpure, emitted["pure"]), ("pure-radial", lpure, emitted["pure_radial"])]
        for typ, ll, trees in todo:
            n += 1
            rep.evaluated(1, (typ, dim, c["kind"], len(centres)))
            try:
                mom, rows = g.moments(ll, centres, fvals, typ, return_orders=True)
                mom, rows = np.asarray(mom, float), _rows(rows)
                if mom.shape != (len(rows), len(centres)):
                    raise ValueError(f"result has shape {mom.shape} for {len(rows)} rows and {len(centres)} centres")
            except Exception as e:
                rep.violation(f"{typ}:{ckey}:raises", f"Grid.moments({ll}, type_mom={typ!r}) raised {type(e).__name__}: {e}", info)
                continue
            trees = trees[:len(rows)]
            if len(trees) != len(rows):
                rep.violation(f"{typ}:{ckey}:row-count", f"{len(rows)} rows returned, specification lists {len(trees)}", info)
                continue
            for ci in range(len(centres)):
                terms = [(_q(t["coef"]), [_q(v) for v in t["at"]]) for t in item["terms"][ci]]
                want, _ = _basis_values(trees, terms)
                rad = [float(sum(float(v) ** 2 for v in at)) ** 0.5 for _, at in terms]
                for r, row in enumerate(rows):
                    deg = row[0] if typ in ("radial", "pure") else row[0] + row[1]
                    scale = sum(abs(float(cf)) * rr ** deg for (cf, _), rr in zip(terms, rad))
                    err = abs(mom[r, ci] - want[r])
                    if scale > 0:
                        _stat(f"{typ}_err_over_scale", err / scale)
                    if not err <= VAL_RTOL * scale:
                        rep.violation(f"{typ}:{ckey}:row={row}:centre={ci}",
                                      f"{typ} moment {row} about centre {centres[ci].tolist()}: specification {want[r]!r}, "
                                      f"implementation {mom[r, ci]!r} (scale {scale:.3g})",
                                      {**info, "type": typ, "row": row, "centre": ci, "spec": want[r], "observed": mom[r, ci]})

    # ---- dipoles -------------------------------------------------------------------------------
    from grid.utils import dipole_moment_of_molecule, isotopic_masses
    for k, item in enumerate(emitted["dipoles"], 1):
        c = item["case"]
        n += 1
        zs = [a["z"] for a in c["mol"]]
        rep.evaluated(1, ("dipole", tuple(zs)))
        coords = np.array([[float(_q(v)) for v in a["r"]] for a in c["mol"]])
        info = {"charges": zs, "coords": coords.tolist(), "points": [[str(_q(v)) for v in p] for p in c["pts"]]}
        try:
            env = {f"m{i + 1}": Fraction(repr(float(isotopic_masses[z]))) for i, z in enumerate(zs)}
            for i in range(len(zs), 4):
                env[f"m{i + 1}"] = Fraction(1)
            want = np.array([float(evaluate(t, env, "fraction")) for t in item["trees"]])
            g = _grid([[_q(v) for v in p] for p in c["pts"]], [_q(v) for v in c["wts"]])
            rho = np.array([float(_q(v)) for v in c["rho"]])
            got = np.asarray(dipole_moment_of_molecule(g, rho, coords, np.array(zs)), float).ravel()
            if got.shape != (3,):
                raise ValueError(f"result has shape {got.shape}")
        except Exception as e:
            rep.violation(f"dipole:case={k}:raises", f"dipole_moment_of_molecule raised {type(e).__name__}: {e}", info)
            continue
        mag = float(np.sum(np.abs(coords)) * max(zs) + np.sum(np.abs(g.points)) * np.max(np.abs(g.weights * rho))) + 1.0
        err = float(np.max(np.abs(got - want)))
        _stat("dipole_err_over_mag", err / mag)
        if not err <= DIP_RTOL * mag:
            rep.violation(f"dipole:case={k}:Z={zs}", f"dipole of charges {zs}: specification {want.tolist()}, implementation {got.tolist()}",
                          {**info, "spec": want.tolist(), "observed": got.tolist()})
    return {"orders": orders_obs, "cart": cart_obs}, n


def _run_families(rep: Report, tier: str, wd: Path) -> int:
    quick = tier == "quick"
    consts = {"MaxOrder": 8 if quick else 12, "MaxL": 4 if quick else 6, "Seed": rep.seed, "NCases": 24 if quick else 480,
              "CartL": 4 if quick else 8, "PureL": 3 if quick else 6, "NDipole": 6 if quick else 40}
    _obs_module(wd, None)
    cfg = _cfg(wd, "MC_Moments_emit.cfg", {**consts, "Emit": True})
    res = tlc.run_tlc("MC_Moments", cfg, wd, workers=1, timeout=1500).require_ok("MC_Moments emit")
    if res.status != "ok" or not (wd / "cases_moments.json").exists():
        raise tlc.MachineryError(f"MC_Moments: emission failed\n{res.stdout[-3000:]}")
    with open(wd / "cases_moments.json") as f:
        emitted = json.load(f)
    obs, n = _observe(rep, tier, emitted)
    with open(wd / "obs_moments.json", "w") as f:
        json.dump(obs, f)
    _obs_module(wd, "obs_moments.json")
    cfg = _cfg(wd, "MC_Moments.cfg", {**consts, "Emit": False}, INVARIANTS)
    res = tlc.run_tlc("MC_Moments", cfg, wd, workers=8, timeout=1500).require_ok("MC_Moments")
    rep.tlc(res, "MC_Moments")
    if res.status == "violation":
        st = tlc.last_state(res)
        rep.violation(f"model:{','.join(res.violated)}", f"TLC: invariant(s) {res.violated} of MC_Moments violated; last state {st}", st)
    for t in _tagged(res.stdout, "MISMATCH"):
        kind = t[1]
        if kind in ("orders", "horton-order"):
            o = obs["orders"][t[2] - 1]
            call = (f"generate_orders_horton_order({o['order']}, {o['type']!r}, {o['dim']})" if o["via"] == "direct"
                    else f"Grid.moments({o['order']}, type_mom={o['type']!r}, return_orders=True) on a {o['dim']}D grid")
            rep.violation(f"orders:{o['via']}:{o['type']}:dim={o['dim']}:order={o['order']}:{kind}",
                          f"{call}: specification {t[3]}, implementation {t[4]}", {"call": call, "spec": t[3], "observed": t[4]})
        elif kind == "cart-rows":
            rep.violation(f"cartesian:case={t[2]}:row-count", f"{t[4]} rows returned, specification lists {t[3]}")
        else:
            c = emitted["values"][t[2] - 1]["case"]
            row, ci = t[3]
            rep.violation(f"cartesian:case={t[2]}:dim={c['dim']}:{c['kind']}:row={row}:centre={ci - 1}",
                          f"Cartesian moment {row} about centre {[str(_q(v)) for v in c['centres'][ci - 1]]}: specification "
                          f"{_q(t[4])}, implementation {_q(t[5])}",
                          {"points": [[str(_q(v)) for v in p] for p in c["pts"]], "weights": [str(_q(v)) for v in c["wts"]],
                           "fvals": [str(_q(v)) for v in c["fvals"]], "row": row, "spec": str(_q(t[4])), "observed": str(_q(t[5]))})
    rep.sample({"case": emitted["values"][0]["case"], "terms_centre_1": emitted["values"][0]["terms"][0][:2]})
    rep.sample({"dipole_case": emitted["dipoles"][0]["case"]})
    rep.sample({"orders_observed": obs["orders"][40]})
    return n


def _class_independence(rep: Report, tier: str) -> int:
    """'For every grid': the moments depend on the grid only through its points and weights.
    Every grid class (whatever way it stores its points) must return what the plain Grid built
    from .points/.weights returns - and the plain Grid is what the specification judges above."""
    import warnings
    from grid.angular import AngularGrid
    from grid.atomgrid import AtomGrid
    from grid.basegrid import Grid, LocalGrid, OneDGrid
    from grid.becke import BeckeWeights
    from grid.cubic import Tensor1DGrids, UniformGrid
    from grid.molgrid import MolGrid
    from grid.periodicgrid import PeriodicGrid
    rng = np.random.default_rng(rep.seed + 14)
    n = 0
    with warnings.catch_warnings():
        warnings.simplefilter("ignore")
        rg = OneDGrid(np.array([0.4, 1.1, 2.0]), np.array([0.3, 0.5, 0.7]), (0, np.inf))
        od = lambda k, s: OneDGrid(np.linspace(-1, 1, k) * s + 0.2, np.ones(k) * 2 * s / k, (-s + 0.2, s + 0.2))  # noqa: E731
        makers = {
            "AtomGrid[centre,rotate]": lambda: AtomGrid(rg, degrees=[3, 5, 3], center=np.array([0.3, -0.2, 0.5]), rotate=17),
            "AtomGrid[origin]": lambda: AtomGrid(rg, degrees=[5], center=np.zeros(3)),
            "MolGrid": lambda: MolGrid(np.array([1, 8]), [AtomGrid(rg, degrees=[3], center=np.array([0.0, 0.1, -0.7])),
                                                          AtomGrid(rg, degrees=[3], center=np.array([0.2, 0.0, 0.9]))], BeckeWeights(), store=True),
            "UniformGrid": lambda: UniformGrid(np.array([-0.5, 0.1, 0.3]), np.array([[0.5, 0, 0], [0.1, 0.4, 0], [0, 0.2, 0.3]]), np.array([3, 2, 3])),
            "Tensor1DGrids": lambda: Tensor1DGrids(od(3, 1.0), od(2, 0.5), od(3, 0.7)),
            "AngularGrid": lambda: AngularGrid(degree=5),
            "LocalGrid": lambda: LocalGrid(rng.uniform(-1, 1, (7, 3)), rng.uniform(0.1, 1, 7), np.array([0.1, 0.2, 0.3]), np.arange(7)),
            "PeriodicGrid": lambda: PeriodicGrid(rng.uniform(0, 1, (7, 3)), rng.uniform(0.1, 1, 7), np.array([[1.5, 0, 0], [0, 1.2, 0.1]])),
            "Tensor1DGrids[2D]": lambda: Tensor1DGrids(od(3, 1.0), od(4, 0.5)),
            "OneDGrid": lambda: od(5, 1.0),
            # a slice of a grid (Grid.__getitem__), integer-typed points as UniformGrid builds them from integer
            # origin / axes, a one-dimensional slice
            "Grid[2:9]": lambda: Grid(rng.uniform(-1, 1, (11, 3)), rng.uniform(0.1, 1, 11))[2:9],
            "UniformGrid[int64 points]": lambda: UniformGrid(np.array([-2, -1, -2]), np.array([[1, 0, 0], [0, 2, 0], [0, 1, 1]]), np.array([3, 2, 3])),
            "OneDGrid[1:4]": lambda: od(5, 1.0)[1:4],
        }
        for name, mk in makers.items():
            try:
                g = mk()
                pts, wts = np.array(g.points, dtype=float), np.array(g.weights, dtype=float)
                ref = Grid(pts.copy() if pts.ndim == 2 else pts.reshape(-1, 1).copy(), wts.copy())
                dim = ref.points.shape[1]
                f = np.cos(np.arange(len(wts)) * 0.7) + 1.5
                centers = np.vstack([np.zeros(dim), np.linspace(0.3, -0.4, dim)])
                types = ("cartesian", "radial", "pure", "pure-radial") if dim == 3 else ("cartesian", "radial")
            except Exception as e:  # noqa: BLE001
                rep.violation(f"class-independence:{name}:build", f"fixture of {name} raised {type(e).__name__}: {e}")
                continue
            intcentres = np.vstack([np.zeros(dim, dtype=int), np.arange(1, dim + 1)])
            for typ, order, cen in [(t, 3, centers) for t in types] + [(t, o, c) for t in types for o, c in ((0 if t != "pure-radial" else 1, centers),
                                                                                                 (5, intcentres))]:
                n += 1
                rep.evaluated(1, ("class-independence", name, typ, order))
                tag = "" if order == 3 else f":order={order}" + (":int-centres" if cen is intcentres else "")
                try:
                    got, o1 = g.moments(order, cen, f, type_mom=typ, return_orders=True)
                    want, o2 = ref.moments(order, cen.astype(float), f, type_mom=typ, return_orders=True)
                except Exception as e:  # noqa: BLE001
                    rep.violation(f"class-independence:{name}:{typ}{tag}:raises", f"{name}.moments({order}, type_mom={typ!r}) raised {type(e).__name__}: {e}")
                    continue
                scale = float(np.max(np.abs(want))) + 1.0
                err = float(np.max(np.abs(np.asarray(got) - np.asarray(want)))) if np.shape(got) == np.shape(want) else float("inf")
                _stat("class_independence_err_over_scale", err / scale if np.isfinite(err) else 0.0)
                if not (err <= 1e-11 * scale and np.array_equal(o1, o2)):
                    rep.violation(f"class-independence:{name}:{typ}{tag}",
                                  f"{name}.moments({order}, type_mom={typ!r}) differs from Grid(points, weights).moments on the same points "
                                  f"and weights (max difference {err:.3g}, scale {scale:.3g})",
                                  {"class": name, "type": typ, "order": order, "centers": cen.tolist()})
    return n


# --------------------------------------------------------------------------------------------
# second model: spec/MomentsX.tla + spec/MC_MomentsX.tla (argument forms, per-case maximal orders, many centres,
# geometries, rescaling, sessions on shared objects, listing call forms, extended dipole cases)

X_INVARIANTS = ["XScaleLaw", "XCaseWellFormed", "PrefixLaw", "DipoleXIsFirstMomentDifference", "SessionStateIsFold",
                "JudgeX", "JudgeList", "JudgeSession"]
SCRIBBLE = -7


def _x_consts(rep: Report, tier: str) -> dict:
    quick = tier == "quick"
    return {"Seed": rep.seed, "NX": 18 if quick else 400, "CartLX": 6, "BigL": 8 if quick else 12,
            "PureLX": 4 if quick else 6, "NSess": 5 if quick else 100, "SessLen": 12 if quick else 18,
            "NDipX": 8 if quick else 150, "MaxOrderX": 8 if quick else 12}


def _x_obs_module(wd: Path, jsonfile):
    if jsonfile:
        body = f'AllObsX == JsonDeserialize("{jsonfile}")\nXObs == AllObsX.x\nSessObs == AllObsX.sess\nListObs == AllObsX.list'
    else:
        body = "XObs == <<>>\nSessObs == <<>>\nListObs == <<>>"
    (wd / "Obs_momentsx.tla").write_text(f"---- MODULE Obs_momentsx ----\nEXTENDS Json\n{body}\n====\n")


_DTYPES = {"f8": np.float64, "i8": np.int64, "i4": np.int32, "f4": np.float32, "f2": np.float16, "g": np.longdouble,
           "bool": np.bool_, "u1": np.uint8, "int": np.int64, "i2": np.int16}


def _form(values, form, shift=0):
    """Realise an argument form of the specification (MomentsX.tla, section 2) for the exact rationals ``values``
    times 2^shift.  The specification guarantees admissibility; a lossy conversion is a machinery failure."""
    ref = np.array([[float(v) for v in r] for r in values] if values and isinstance(values[0], (list, tuple))
                   else [float(v) for v in values], dtype=np.float64)
    ref = ref * 2.0 ** shift
    if form in _DTYPES:
        a = ref.astype(_DTYPES[form])
    elif form in ("C", "readonly"):
        a = ref.copy()
    elif form == "F":
        a = np.asfortranarray(ref)
    elif form == "strided":
        base = np.full((2 * len(ref),) + ref.shape[1:], 12345.0)
        base[::2] = ref
        a = base[::2]
    elif form == "flat":
        a = ref[:, 0].copy()
    else:
        raise tlc.MachineryError(f"unknown argument form {form!r}")
    if not np.array_equal(np.asarray(a, dtype=np.longdouble).reshape(ref.shape), ref.astype(np.longdouble)):
        raise tlc.MachineryError(f"argument form {form!r} cannot hold {ref.tolist()} exactly")
    if form == "readonly":
        a.flags.writeable = False
    return a


def _pretty(x):
    """Emitted rationals <<n, d>> as strings, recursively."""
    if isinstance(x, list):
        if len(x) == 2 and all(isinstance(v, int) and not isinstance(v, bool) for v in x):
            return str(Fraction(*x))
        return [_pretty(v) for v in x]
    if isinstance(x, dict):
        return {k: _pretty(v) for k, v in x.items()}
    return x


def _same(a, ref):
    """The array still holds exactly the numbers ``ref`` (its own snapshot)."""
    try:
        return np.shape(a) == np.shape(ref) and bool(np.array_equal(np.asarray(a), ref))
    except Exception:  # noqa: BLE001
        return False


def _order_arg(order, oform):
    return {"int": int, "np.int64": np.int64, "np.int32": np.int32}[oform](order)


def _call_moments(g, order, centres, fvals, typ, callform, notype=False):
    """Grid.moments in one of the call forms; returns (moments, rows or None)."""
    ret = not callform.endswith("-noret")
    if callform.startswith("kw"):
        kw = {"orders": order, "centers": centres, "func_vals": fvals}
        if not notype:
            kw["type_mom"] = typ
        if ret:
            kw["return_orders"] = True
        out = g.moments(**kw)
    else:
        args = [order, centres, fvals]
        if not notype:
            args.append(typ)
        if ret:
            out = g.moments(*args, True) if not notype else g.moments(*args, return_orders=True)
        else:
            out = g.moments(*args)
    if ret:
        mom, rows = out
        return mom, _rows(rows)
    return out, None


def _deg(typ, row):
    return sum(row) if typ == "cartesian" else row[0] if typ in ("radial", "pure") else row[0] + row[1]


def _tree_compare(rep, key, what, typ, mom, nrows, trees, terms_per_centre, shift, info, statname):
    """Compare a (nrows, ncentres) table with sum_i coef_i B(at_i) 2^(shift deg) from the specification's trees."""
    mom = np.asarray(mom)
    ncen = len(terms_per_centre)
    if mom.shape != (nrows, ncen):
        rep.violation(f"{key}:shape", f"{what}: result has shape {mom.shape}, specification lists {nrows} rows for {ncen} centres", info)
        return
    if len(trees) < nrows:
        raise tlc.MachineryError(f"{key}: {nrows} rows but only {len(trees)} trees emitted")
    mom = np.asarray(mom, dtype=np.float64)
    for ci in range(ncen):
        terms = [(_q(t["coef"]), [_q(v) for v in t["at"]]) for t in terms_per_centre[ci]]
        want, mags = _basis_values(trees[:nrows], terms, "fraction" if typ == "cartesian" else "mp")
        rad = [float(sum(float(v) ** 2 for v in at)) ** 0.5 for _, at in terms]
        for r in range(nrows):
            row = trees[r]["_row"]
            deg = _deg(typ, row)
            fac = 2.0 ** (shift * deg)
            scale = mags[r] if typ == "cartesian" else sum(abs(float(cf)) * rr ** deg for (cf, _), rr in zip(terms, rad))
            err = abs(mom[r, ci] - want[r] * fac) / fac
            if scale > 0:
                _stat(statname + typ, err / scale)
            if not err <= VAL_RTOL * scale:
                rep.violation(f"{key}:row={row}:centre={ci}",
                              f"{what}: {typ} moment {row} about centre {ci}: specification {want[r] * fac!r}, implementation "
                              f"{mom[r, ci]!r} (scale {scale * fac:.3g})",
                              {**info, "type": typ, "row": row, "centre": ci, "spec": want[r] * fac, "observed": mom[r, ci]})


def _observe_x(rep: Report, tier: str, em: dict):
    from grid.basegrid import Grid
    from grid.utils import dipole_moment_of_molecule, generate_orders_horton_order, isotopic_masses
    n = 0
    # the emitted tree lists and, next to them, the rows they belong to (the specification's stacked listings)
    treelists = {("cartesian", d + 1): em["cart"][d] for d in range(3)}
    treelists.update({("radial", d + 1): em["radial"][d] for d in range(3)})
    treelists[("pure", 3)] = em["pure"]
    treelists[("pure-radial", 3)] = em["pure_radial"]
    rowlists = {("cartesian", d + 1): em["rows"]["cartesian"][d] for d in range(3)}
    rowlists.update({("radial", d + 1): em["rows"]["radial"][d] for d in range(3)})
    rowlists[("pure", 3)] = em["rows"]["pure"]
    rowlists[("pure-radial", 3)] = em["rows"]["pure_radial"]
    for key, lst in treelists.items():
        if len(lst) != len(rowlists[key]):
            raise tlc.MachineryError(f"emitted {len(lst)} trees for {len(rowlists[key])} rows of {key}")
        for t, row in zip(lst, rowlists[key]):
            t["_row"] = [int(v) for v in row]

    # ---- extended cases ---------------------------------------------------------------------
    xobs = []
    for k, item in enumerate(em["xcases"], 1):
        c, nrows = item["case"], item["nrows"]
        dim, shift = c["dim"], c["shift"]
        pts = [[_q(v) for v in p] for p in c["pts"]]
        ckey = f"x:case={k}:dim={dim}:{c['geom']}"
        info = {"dim": dim, "geometry": c["geom"], "points": [[str(v) for v in p] for p in pts],
                "weights": [str(_q(v)) for v in c["wts"]], "fvals": [str(_q(v)) for v in c["fvals"]],
                "centres": [[str(_q(v)) for v in r] for r in c["centres"]], "points_and_centres_times": f"2^{shift}",
                "forms": {"fvals": c["fform"], "centres": c["cform"], "points": c["gform"], "orders": c["oform"], "call": c["callform"]}}
        rec = {"cart": []}
        xobs.append(rec)
        try:
            P = _form(pts, c["gform"], shift) if pts else np.zeros((0, dim)) if c["gform"] != "flat" else np.zeros(0)
            W = _form([_q(v) for v in c["wts"]], c["gform"] if c["gform"] in ("strided", "readonly") else "f8")
            C = _form([[_q(v) for v in r] for r in c["centres"]], c["cform"], shift)
            F = _form([_q(v) for v in c["fvals"]], c["fform"])
            snap = [np.array(a) for a in (P, W, C, F)]
            g = Grid(P, W)
        except tlc.MachineryError:
            raise
        except Exception as e:  # noqa: BLE001
            rep.violation(f"{ckey}:grid", f"Grid(points, weights) raised {type(e).__name__}: {e}", info)
            continue
        # (a) Cartesian, maximal order lcart, judged exactly by TLC
        n += 1
        rep.evaluated(1, ("x-cartesian", dim, c["geom"], c["fform"], c["cform"], c["gform"]))
        what = f"Grid.moments({c['oform']}({c['lcart']}), call form {c['callform']}{', type_mom omitted' if c['notype'] else ''})"
        try:
            mom, rows = _call_moments(g, _order_arg(c["lcart"], c["oform"]), C, F, "cartesian", c["callform"], c["notype"])
            mom = np.asarray(mom)
            if mom.shape != (nrows["cart"], len(C)):
                raise ValueError(f"result has shape {mom.shape} for {nrows['cart']} rows and {len(C)} centres")
            if rows is not None and len(rows) != nrows["cart"]:
                raise ValueError(f"{len(rows)} rows listed, specification lists {nrows['cart']}")
            table = []
            for r in range(mom.shape[0]):
                deg = _deg("cartesian", treelists[("cartesian", dim)][r]["_row"])
                out = []
                for ci in range(mom.shape[1]):
                    v = float(mom[r, ci]) / 2.0 ** (shift * deg)
                    sn = _snap(v, c["lbits"])
                    if sn is None:
                        rep.violation(f"{ckey}:cartesian:row={r}:centre={ci}:off-lattice",
                                      f"{what}: Cartesian moment row {r} centre {ci} = {mom[r, ci]!r} is not 2^({shift}*{deg}) times a "
                                      f"multiple of 2^-{c['lbits']} although every input is a small dyadic rational", info)
                        sn = NOTREC
                    out.append(sn)
                table.append(out)
            rec["cart"] = table
        except Exception as e:  # noqa: BLE001
            rep.violation(f"{ckey}:cartesian:raises", f"{what} raised {type(e).__name__}: {e}", info)
        # (b) by trees: Cartesian and radial at the larger order, pure, pure-radial
        todo = [("cartesian", c["lbig"], nrows["big"], treelists[("cartesian", dim)]),
                ("radial", c["lbig"], nrows["radial"], treelists[("radial", dim)])]
        if dim == 3:
            todo += [("pure", c["lpure"], nrows["pure"], treelists[("pure", 3)]),
                     ("pure-radial", c["lpr"], nrows["pure_radial"], treelists[("pure-radial", 3)])]
        first = None
        for typ, ll, nr, trees in todo:
            n += 1
            rep.evaluated(1, ("x-" + typ, dim, c["geom"], ll, len(C)))
            what = f"Grid.moments({c['oform']}({ll}), type_mom={typ!r}, call form {c['callform']})"
            try:
                mom, rows = _call_moments(g, _order_arg(ll, c["oform"]), C, F, typ, c["callform"])
                if rows is not None and len(rows) != nr:
                    raise ValueError(f"{len(rows)} rows listed, specification lists {nr}")
            except Exception as e:  # noqa: BLE001
                rep.violation(f"{ckey}:{typ}:raises", f"{what} raised {type(e).__name__}: {e}", info)
                continue
            if first is None:
                first = (typ, ll, np.array(mom))
            _tree_compare(rep, f"{ckey}:{typ}", what, typ, mom, nr, trees, item["terms"], shift, info, "x_err_over_scale_")
        # (c) frame: no argument object was modified;  (d) the same call with the same objects again gives the same
        names = ("grid.points", "grid.weights", "centers", "func_vals")
        touched = [nm for nm, a, b in zip(names, (g.points, g.weights, C, F), snap) if not _same(a, b)]
        if touched:
            rep.violation(f"{ckey}:argument-modified:{','.join(touched)}",
                          f"after the Grid.moments calls of this case {touched} no longer hold the numbers that were passed in", info)
        if first is not None:
            typ, ll, mom1 = first
            try:
                mom2, _ = _call_moments(g, _order_arg(ll, c["oform"]), C, F, typ, c["callform"])
                if not (np.shape(mom2) == mom1.shape and np.array_equal(np.asarray(mom2), mom1)):
                    rep.violation(f"{ckey}:{typ}:second-call-differs",
                                  f"Grid.moments({ll}, type_mom={typ!r}) called again with the same objects returns other numbers", info)
            except Exception as e:  # noqa: BLE001
                rep.violation(f"{ckey}:{typ}:second-call-raises", f"second identical call raised {type(e).__name__}: {e}", info)
        if k <= 3:
            rep.sample({"xcase": {kk: c[kk] for kk in ("dim", "geom", "fform", "cform", "gform", "oform", "callform", "shift", "lcart", "lbig", "lpure", "lpr")},
                        "points": info["points"], "centres": info["centres"]})

    # ---- order-listing call forms -------------------------------------------------------------
    lobs = []
    for call in em["lists"]:
        form, typ, dim, order = call["form"], call["type"], call["dim"], call["order"]
        n += 1
        rep.evaluated(1, ("list", form, typ, dim, order))
        rows = [[SCRIBBLE]]
        try:
            if form == "nodim":
                rows = _rows(generate_orders_horton_order(order, typ))
            elif form == "kwargs":
                rows = _rows(generate_orders_horton_order(order=order, type_ord=typ, dim=dim))
            elif form == "twice":
                r1 = generate_orders_horton_order(order, typ, dim)
                if np.size(r1) and r1.flags.writeable:
                    r1[...] = SCRIBBLE
                rows = _rows(generate_orders_horton_order(order, typ, dim))
            else:
                g = _grid([[Fraction(i + 1, 2)] * dim for i in range(3)], [1, 2, 1])
                o = np.int64(order) if form == "np64" else np.int32(order)
                _, r1 = g.moments(o, np.zeros((1, dim)), np.array([1.0, -1.0, 2.0]), typ, return_orders=True)
                rows = _rows(r1)
        except Exception as e:  # noqa: BLE001
            rep.violation(f"list:{form}:{typ}:dim={dim}:order={order}:raises",
                          f"order listing, call form {form!r} ({typ}, order {order}, dim {dim}) raised {type(e).__name__}: {e}")
        lobs.append({"rows": rows})

    # ---- sessions ---------------------------------------------------------------------------
    sobs = []
    for k, sess in enumerate(em["sessions"], 1):
        o = sess["objects"]
        dim = o["dim"]
        arr = lambda rows: np.array([[float(_q(v)) for v in r] for r in rows])  # noqa: E731
        vec = lambda vals: np.array([float(_q(v)) for v in vals])  # noqa: E731
        objs = {"cset1": arr(o["csets"][0]), "cset2": arr(o["csets"][1]), "fvec1": vec(o["fvecs"][0]), "fvec2": vec(o["fvecs"][1])}
        grids = {"a": Grid(arr(o["a"]), vec(o["wa"])), "b": Grid(arr(o["b"]), vec(o["wb"]))}
        fixed = {nm: a.copy() for nm, a in objs.items()}
        fixed.update({"a.weights": grids["a"].weights.copy(), "b.weights": grids["b"].weights.copy()})
        returned, steps_obs = [], []
        for j, st in enumerate(sess["steps"], 1):
            step = st["step"]
            op = step["op"]
            ob = {"rows": [], "cart": [], "touched": [], "ran": False}
            steps_obs.append(ob)
            skey = f"session={k}:step={j}:{op}"
            hist = [s2["step"] for s2 in sess["steps"][:j]]
            info = {"dim": dim, "objects": _pretty(o), "steps_so_far": hist}
            n += 1
            try:
                if op == "moments":
                    typ, ll = step["type"], step["order"]
                    rep.evaluated(1, ("session", typ, ll, step["g"], step["c"], step["f"]))
                    g, C, F = grids[step["g"]], objs[f"cset{step['c']}"], objs[f"fvec{step['f']}"]
                    out = g.moments(ll, C, F, typ, True) if step["ret"] else g.moments(ll, C, F, typ)
                    mom, rows = out if step["ret"] else (out, None)
                    if rows is not None:
                        ob["rows"] = _rows(rows)
                        returned.append(rows)
                    if isinstance(mom, np.ndarray):
                        returned.append(mom)
                    momf = np.array(mom, dtype=np.float64)
                    ob["ran"] = True
                    what = f"step {j} of session {k}: grid {step['g']}.moments({ll}, cset{step['c']}, fvec{step['f']}, {typ!r})"
                    if typ == "cartesian":
                        table = []
                        for r in range(momf.shape[0] if momf.ndim == 2 else 0):
                            out = []
                            for ci in range(momf.shape[1]):
                                sn = _snap(momf[r, ci], ll)
                                if sn is None:
                                    rep.violation(f"{skey}:row={r}:centre={ci}:off-lattice",
                                                  f"{what}: Cartesian moment row {r} centre {ci} = {momf[r, ci]!r} is not a multiple of 2^-{ll}", info)
                                    sn = NOTREC
                                out.append(sn)
                            table.append(out)
                        ob["cart"] = table
                    else:
                        _tree_compare(rep, f"{skey}:{typ}", what, typ, momf, st["at"]["nrows"], treelists[(typ, dim if typ == "radial" else 3)],
                                      st["at"]["terms"], 0, info, "session_err_over_scale_")
                elif op == "orders":
                    rep.evaluated(1, ("session-orders", step["type"], step["order"], step["dim"]))
                    r1 = generate_orders_horton_order(step["order"], step["type"], step["dim"])
                    ob["rows"] = _rows(r1)
                    ob["ran"] = True
                    returned.append(r1)
                elif op == "assign":
                    other = grids["b" if step["g"] == "a" else "a"]
                    grids[step["g"]].points = np.array(other.points)
                elif op == "edit":
                    grids[step["g"]].points[0, 0] += 1.0
                else:   # scribble
                    for a in returned:
                        if isinstance(a, np.ndarray) and a.size and a.flags.writeable:
                            a[...] = SCRIBBLE
            except Exception as e:  # noqa: BLE001
                rep.violation(f"{skey}:raises", f"step {j} of session {k} ({step}) raised {type(e).__name__}: {e}", info)
            # frame: every object holds what the session machine's state says
            after = {nm: arr(st["after"][nm]) for nm in ("a", "b")}
            for nm in ("a", "b"):
                if not _same(grids[nm].points, after[nm]):
                    ob["touched"].append(f"{nm}.points")
            for nm, ref in fixed.items():
                cur = grids[nm[0]].weights if nm.endswith(".weights") else objs[nm]
                if not _same(cur, ref):
                    ob["touched"].append(nm)
        sobs.append(steps_obs)

    # ---- extended dipole cases ----------------------------------------------------------------
    for k, item in enumerate(em["dipoles"], 1):
        c = item["case"]
        n += 1
        zs = [a["z"] for a in c["mol"]]
        rep.evaluated(1, ("x-dipole", tuple(zs), c["zform"], c["coform"], c["dform"]))
        coords_q = [[_q(v) for v in a["r"]] for a in c["mol"]]
        info = {"charges": zs, "coords": [[str(v) for v in r] for r in coords_q], "points": [[str(_q(v)) for v in p] for p in c["pts"]],
                "weights": [str(_q(v)) for v in c["wts"]], "density": [str(_q(v)) for v in c["rho"]],
                "forms": {"charges": c["zform"], "coords": c["coform"], "density": c["dform"]}}
        dkey = f"x-dipole:case={k}:Z={zs}"
        try:
            env = {f"m{i + 1}": Fraction(repr(float(isotopic_masses[z]))) for i, z in enumerate(zs)}
            for i in range(len(zs), 6):
                env[f"m{i + 1}"] = Fraction(1)
            want = np.array([float(evaluate(t, env, "fraction")) for t in item["trees"]])
            g = _grid([[_q(v) for v in p] for p in c["pts"]], [_q(v) for v in c["wts"]])
            rho = _form([_q(v) for v in c["rho"]], c["dform"])
            coords = _form(coords_q, c["coform"])
            Z = _form(zs, c["zform"])
            snap = [np.array(rho), np.array(coords), np.array(Z), g.points.copy(), g.weights.copy()]
            got = np.asarray(dipole_moment_of_molecule(g, rho, coords, Z), float).ravel()
            if got.shape != (3,):
                raise ValueError(f"result has shape {got.shape}")
            again = np.asarray(dipole_moment_of_molecule(g, rho, coords, Z), float).ravel()
        except tlc.MachineryError:
            raise
        except Exception as e:  # noqa: BLE001
            rep.violation(f"{dkey}:raises", f"dipole_moment_of_molecule raised {type(e).__name__}: {e}", info)
            continue
        cf = np.array([[float(v) for v in r] for r in coords_q])
        mag = float(np.sum(np.abs(cf)) * max(zs) + np.sum(np.abs(g.points)) * np.max(np.abs(g.weights * np.asarray(snap[0], float)))) + 1.0
        err = float(np.max(np.abs(got - want)))
        _stat("x_dipole_err_over_mag", err / mag)
        if not err <= DIP_RTOL * mag:
            rep.violation(dkey, f"dipole of charges {zs}: specification {want.tolist()}, implementation {got.tolist()}",
                          {**info, "spec": want.tolist(), "observed": got.tolist()})
        touched = [nm for nm, a, b in zip(("density", "coords", "charges", "grid.points", "grid.weights"),
                                          (rho, coords, Z, g.points, g.weights), snap) if not _same(a, b)]
        if touched:
            rep.violation(f"{dkey}:argument-modified:{','.join(touched)}",
                          f"dipole_moment_of_molecule modified its arguments {touched}", info)
        if not np.array_equal(got, again):
            rep.violation(f"{dkey}:second-call-differs", "dipole_moment_of_molecule called again with the same objects returns other numbers", info)
    return {"x": xobs, "sess": sobs, "list": lobs}, n


def _run_x(rep: Report, tier: str, wd: Path) -> int:
    consts = _x_consts(rep, tier)
    _x_obs_module(wd, None)
    cfg = _cfg(wd, "MC_MomentsX_emit.cfg", {**consts, "Emit": True})
    res = tlc.run_tlc("MC_MomentsX", cfg, wd, workers=1, timeout=1500).require_ok("MC_MomentsX emit")
    if res.status != "ok" or not (wd / "cases_momentsx.json").exists():
        raise tlc.MachineryError(f"MC_MomentsX: emission failed\n{res.stdout[-3000:]}")
    with open(wd / "cases_momentsx.json") as f:
        em = json.load(f)
    obs, n = _observe_x(rep, tier, em)
    with open(wd / "obs_momentsx.json", "w") as f:
        json.dump(obs, f)
    _x_obs_module(wd, "obs_momentsx.json")
    cfg = _cfg(wd, "MC_MomentsX.cfg", {**consts, "Emit": False}, X_INVARIANTS)
    res = tlc.run_tlc("MC_MomentsX", cfg, wd, workers=8, timeout=1500).require_ok("MC_MomentsX")
    rep.tlc(res, "MC_MomentsX")
    if res.status == "violation":
        st = tlc.last_state(res)
        rep.violation(f"modelx:{','.join(res.violated)}", f"TLC: invariant(s) {res.violated} of MC_MomentsX violated; last state {st}", st)
    for t in _tagged(res.stdout, "MISMATCH"):
        kind = t[1]
        if kind == "list":
            call = em["lists"][t[2] - 1]
            rep.violation(f"list:{call['form']}:{call['type']}:dim={call['dim']}:order={call['order']}",
                          f"order listing, call form {call['form']!r} ({call['type']}, order {call['order']}, dim {call['dim']}): "
                          f"specification {t[3]}, implementation {t[4]}", {"call": call, "spec": t[3], "observed": t[4]})
        elif kind in ("x-rows", "x-cart"):
            c = em["xcases"][t[2] - 1]["case"]
            ckey = f"x:case={t[2]}:dim={c['dim']}:{c['geom']}"
            if kind == "x-rows":
                rep.violation(f"{ckey}:cartesian:row-count", f"{t[4]} rows returned, specification lists {t[3]}")
            else:
                row, ci = t[3]
                rep.violation(f"{ckey}:cartesian:row={row}:centre={ci - 1}",
                              f"Cartesian moment {row} about centre {[str(_q(v)) for v in c['centres'][ci - 1]]} (points and centres times "
                              f"2^{c['shift']}, value divided accordingly): specification {_q(t[4])}, implementation {_q(t[5])}",
                              {"case": c, "row": row, "spec": str(_q(t[4])), "observed": str(_q(t[5]))})
        else:   # sess-*
            k, j = t[2]
            sess = em["sessions"][k - 1]
            step = sess["steps"][j - 1]["step"]
            info = {"objects": _pretty(sess["objects"]), "steps_so_far": [s2["step"] for s2 in sess["steps"][:j]], "spec": t[-2], "observed": t[-1]}
            if kind == "sess-touched":
                rep.violation(f"session={k}:step={j}:{step['op']}:argument-modified:{','.join(t[-1])}",
                              f"after step {j} of session {k} ({step}) the objects {t[-1]} do not hold what the session's state says", info)
            elif kind == "sess-cart":
                row, ci = t[3]
                rep.violation(f"session={k}:step={j}:{step['op']}:row={row}:centre={ci - 1}",
                              f"step {j} of session {k} ({step}): Cartesian moment {row} about centre {ci - 1} of the grid as it is at "
                              f"that step: specification {_q(t[4])}, implementation {_q(t[5])}", info)
            else:
                rep.violation(f"session={k}:step={j}:{step['op']}:{kind}",
                              f"step {j} of session {k} ({step}): specification {t[-2]}, implementation {t[-1]}", info)
    rep.sample({"session_1_steps": [s2["step"] for s2 in em["sessions"][0]["steps"]]})
    rep.sample({"x_dipole_case": em["dipoles"][0]["case"]})
    return n



def run(tier: str) -> int:
    rep = Report(PROP, tier, "model_checking")
    wd = tlc.scratch(f"{PROP}-{tier}")
    STATS.clear()
    n = _run_families(rep, tier, wd)
    n += _run_x(rep, tier, wd)
    n += _class_independence(rep, tier)
    rep.set("traces_validated_against_impl", n)
    rep.set("exhaustive", True)
    rep.set("rule", "one case = one call of generate_orders_horton_order / Grid.moments / dipole_moment_of_molecule on a case "
                    "emitted by the specification (or one step of a session emitted by it); distinct = distinct (type, dimension, "
                    "order | point-set kind / geometry, number of centres, argument forms | session step signature)")
    rep.set("measured_max_errors", {k: float(f"{v:.3g}") for k, v in sorted(STATS.items())})
    rep.assume("Cartesian moments of dyadic point sets are computed without rounding by the implementation (checked: values "
               "off the lattice 2^-L are reported); they are judged exactly by TLC")
    rep.assume("radial / pure / pure-radial values and dipoles are compared by the harness with the specification's trees "
               "(explicit solid-harmonic formula, checked in TLC for harmonicity, homogeneity, sign convention, Unsold sum rule)")
    rep.assume("argument forms (dtype, memory layout, read-only) are realised by the harness; the specification fixes the value "
               "lattice on which each form is exact, and the harness verifies that the array holds exactly the case's numbers")
    rep.assume("rescaled cases: points and centres are multiplied by 2^shift (exact in floating point); the expected values follow "
               "from the specification's scaling law (CartScaleLaw checked by TLC; homogeneity of the solid harmonics checked in MC_Moments)")
    return rep.finish()


# --------------------------------------------------------------------------------------------
# sensitivity: textual mutants of grid/utils.py and grid/basegrid.py, loaded in-process

MUTANTS = [
    # (name, file, old, new)
    ("pure-order-direction", "utils", "orders += [[order, x], [order, -x]]", "orders += [[order, -x], [order, x]]"),
    ("cart3-inner-ascending", "utils", "for m_y in range(order - m_x, -1, -1):", "for m_y in range(0, order - m_x + 1):"),
    ("cart2-swapped", "utils", "orders.append([m_x, order - m_x])", "orders.append([order - m_x, m_x])"),
    ("pure-radial-l-range", "utils", "for l_deg in range(0, order):", "for l_deg in range(0, order + 1):"),
    ("pure-radial-m-sign-order", "utils", "orders += [[order, l_deg, m_ord], [order, l_deg, -m_ord]]", "orders += [[order, l_deg, -m_ord], [order, l_deg, m_ord]]"),
    ("solid-normalisation", "utils", "np.sqrt(4.0 * np.pi / (2 * degrees[:, None] + 1))", "np.sqrt(4.0 * np.pi / (2 * degrees[:, None] + 3))"),
    ("sph-theta-swapped", "utils", "theta = np.arctan2(relat_pts[:, 1], relat_pts[:, 0])", "theta = np.arctan2(relat_pts[:, 0], relat_pts[:, 1])"),
    ("sph-origin-not-fixed", "utils", "phi[r == 0.0] = 0.0", "pass"),
    ("dipole-sign", "utils", "result = (result - integrals.T).flatten()[1:]", "result = (result + integrals.T).flatten()[1:]"),
    ("dipole-centre-of-charge", "utils", "masses = np.array([isotopic_masses[charge] for charge in charges])", "masses = np.array([float(charge) for charge in charges])"),
    ("lm-row-offset-positive", "basegrid", "indices[m_orders > 0] += 2 * m_orders[m_orders > 0] - 1", "indices[m_orders > 0] += 2 * m_orders[m_orders > 0]"),
    ("lm-row-offset-negative", "basegrid", "indices[m_orders <= 0] += 2 * np.abs(m_orders[m_orders <= 0])", "indices[m_orders <= 0] += 2 * np.abs(m_orders[m_orders <= 0]) - (m_orders[m_orders <= 0] < 0)"),
    ("lm-row-base", "basegrid", "indices = l_degrees**2", "indices = l_degrees * (l_degrees + 1)"),
    ("pure-radial-n-plus-one", "basegrid", "cent_pts_with_order = cent_pts_with_order ** n_princ[:, None]", "cent_pts_with_order = cent_pts_with_order ** (n_princ[:, None] + 1)"),
    ("radial-n-plus-one", "basegrid", "cent_pts_with_order ** np.ravel(all_orders)[:, None]", "cent_pts_with_order ** (np.ravel(all_orders)[:, None] + 1)"),
    ("centre-broadcast", "basegrid", "centered_pts = points - center", "centered_pts = points - centers[0]"),
    ("cartesian-weights-dropped", "basegrid", 'integral = np.einsum("ln,n,n->l", cent_pts_with_order, func_vals, self.weights)\n            elif',
     'integral = np.einsum("ln,n->l", cent_pts_with_order, func_vals)\n            elif'),
    ("max-order-minus-one", "basegrid", "solid_harm = solid_harmonics(orders[-1], sph_pts)", "solid_harm = solid_harmonics(max(orders[-1] - 1, 0), sph_pts)"),
    ("first-order-skipped", "basegrid", "for l_ord in orders[1:]:", "for l_ord in orders[2:]:"),
]


# mutants that need the second model (MomentsX): the first model alone is expected to miss most of them, which
# selftest reports as "base: missed"
X_MUTANTS = [
    ("orders-memoised-shared-array", "utils", "def generate_orders_horton_order(order: int, type_ord: str, dim: int = 3):",
     "_MEMO = {}\n\n\ndef generate_orders_horton_order(order, type_ord, dim=3):\n    key = (order, type_ord, dim)\n"
     "    if key not in _MEMO:\n        _MEMO[key] = _generate_orders(order, type_ord, dim)\n    return _MEMO[key]\n\n\n"
     "def _generate_orders(order: int, type_ord: str, dim: int = 3):"),
    ("solid-harmonics-cached-per-centre", "basegrid",
     "                    sph_pts = convert_cart_to_sph(centered_pts)\n                    solid_harm = solid_harmonics(orders[-1], sph_pts)\n",
     "                    _key = (orders[-1], tuple(float(v) for v in center))\n"
     "                    if getattr(self, '_sh_cache', None) is None:\n                        self._sh_cache = {}\n"
     "                    if _key not in self._sh_cache:\n"
     "                        self._sh_cache[_key] = solid_harmonics(orders[-1], convert_cart_to_sph(centered_pts))\n"
     "                    solid_harm = self._sh_cache[_key]\n"),
    ("origin-threshold", "utils", "phi[r == 0.0] = 0.0", "phi[r < 1e-10] = 0.0"),
    ("result-dtype-of-centres", "basegrid", "np.array(integrals).T", "np.array(integrals).astype(centers.dtype).T"),
    ("numpy-orders-rejected", "basegrid", "isinstance(orders, (int, np.int32, np.int64))", "isinstance(orders, int)"),
    ("type-mom-default", "basegrid", 'type_mom: str = "cartesian",', 'type_mom: str = "radial",'),
    ("orders-dim-default", "utils", "type_ord: str, dim: int = 3):", "type_ord: str, dim: int = 2):"),
    ("centred-points-keep-grid-dtype", "basegrid", "centered_pts = points - center", "centered_pts = (points - center).astype(points.dtype)"),
    ("radial-abs-weights", "basegrid",
     '# Take the integral |r - R_c|^l  f(r, theta, phi) weights\n                    integral = np.einsum("ln,n,n->l", cent_pts_with_order, func_vals, self.weights)',
     '# Take the integral |r - R_c|^l  f(r, theta, phi) weights\n                    integral = np.einsum("ln,n,n->l", cent_pts_with_order, func_vals, np.abs(self.weights))'),
    ("zero-weight-points-dropped-from-f", "basegrid", "        integrals = []\n        for center in centers:",
     "        func_vals = func_vals[self.weights != 0] if np.any(self.weights == 0) and type_mom == 'pure' else func_vals\n"
     "        points = points[self.weights != 0] if np.any(self.weights == 0) and type_mom == 'pure' else points\n"
     "        integrals = []\n        for center in centers:"),
    ("dipole-coords-shifted-in-place", "utils", "cent_pts_with_order = (coords - center_mol) ** orders[:, None]",
     "coords -= center_mol[0]\n    cent_pts_with_order = coords ** orders[:, None]"),
    ("dipole-mass-lookup-clipped", "utils", "isotopic_masses[charge] for charge in charges", "isotopic_masses[min(int(charge), 18)] for charge in charges"),
    ("dipole-mass-by-array-index", "utils", "masses = np.array([isotopic_masses[charge] for charge in charges])",
     "masses = np.array([0.0] + [isotopic_masses[z] for z in range(1, 83)])[np.asarray(charges)]"),
    ("cartesian-power-in-float32", "basegrid", "cent_pts_with_order = centered_pts ** all_orders[:, None]",
     "cent_pts_with_order = (centered_pts.astype(np.float32) ** all_orders[:, None].astype(np.float32)).astype(float) if orders[-1] > 6 else centered_pts ** all_orders[:, None]"),
]


def _load_mutant(fname, old, new):
    import importlib.util
    import sys
    src = Path(f"/repo/src/grid/{fname}.py").read_text()
    if src.count(old) < 1:
        raise tlc.MachineryError(f"mutant anchor not found: {old!r}")
    spec = importlib.util.spec_from_loader(f"grid._c14_mutant_{fname}", loader=None)
    mod = importlib.util.module_from_spec(spec)
    mod.__package__ = "grid"
    mod.__file__ = f"/verif/gen/C14-selftest/{fname}_mutant.py"
    sys.modules[mod.__name__] = mod
    exec(compile(src.replace(old, new), mod.__file__, "exec"), mod.__dict__)
    return mod


def _with_mutant(fname, old, new, fn):
    import grid.basegrid as bg
    import grid.utils as ut
    mod = _load_mutant(fname, old, new)
    fns = ("generate_orders_horton_order", "solid_harmonics", "convert_cart_to_sph", "dipole_moment_of_molecule")
    saved_ut = {k: getattr(ut, k) for k in fns}
    saved_bg = {k: getattr(bg, k) for k in fns[:3]}
    saved_m = bg.Grid.moments
    try:
        if fname == "utils":
            for k in fns:
                setattr(ut, k, getattr(mod, k))
            for k in fns[:3]:
                setattr(bg, k, getattr(mod, k))
        else:
            bg.Grid.moments = mod.Grid.moments
        return fn()
    finally:
        for k, v in saved_ut.items():
            setattr(ut, k, v)
        for k, v in saved_bg.items():
            setattr(bg, k, v)
        bg.Grid.moments = saved_m


def _fresh_violations(runner, tier):
    rep = Report(PROP, tier, "model_checking")
    wd = tlc.scratch(f"{PROP}-selftest")
    runner(rep, tier, wd)
    return [v for v in rep.violations if rep._match_known(v["key"]) is None]


def selftest(tier: str = "quick") -> int:
    only = os.environ.get("C14_MUTANTS")
    killed, missed, needed_x = [], [], []
    for family, mutants in (("base", MUTANTS), ("x", X_MUTANTS)):
        for name, fname, old, new in mutants:
            if only and name not in only.split(","):
                continue
            base = _with_mutant(fname, old, new, lambda: _fresh_violations(_run_families, tier))
            fresh, note = base, ""
            if family == "x":
                fresh = _with_mutant(fname, old, new, lambda: _fresh_violations(_run_x, tier))
                note = f"  (first model alone: {'VIOLATION x%d' % len(base) if base else 'missed'})"
                if fresh and not base:
                    needed_x.append(name)
            (killed if fresh else missed).append(name)
            print(f"mutant {name:34s} [{fname}] -> {'VIOLATION x%d, e.g. %s' % (len(fresh), fresh[0]['key'][:110]) if fresh else 'MISSED'}{note}", flush=True)
    print(f"selftest: {len(killed)} killed, {len(missed)} missed {missed}; {len(needed_x)} detected only by the second model {needed_x}")
    return 0 if not missed else 1


def replay(path: str) -> int:
    """Re-run the tier of a recorded violation with its seed; exit 1 if the same key is reported again."""
    with open(path) as f:
        v = json.load(f)
    os.environ["VERIF_SEED"] = str(v.get("seed", 0))
    rep = Report(PROP, v.get("tier", "quick"), "model_checking")
    wd = tlc.scratch(f"{PROP}-replay")
    _run_families(rep, v.get("tier", "quick"), wd)
    _run_x(rep, v.get("tier", "quick"), wd)
    _class_independence(rep, v.get("tier", "quick"))
    again = [x for x in rep.violations if x["key"] == v["key"]]
    print(f"replay {v['key']}: " + (f"reproduced: {again[0]['what'][:300]}" if again else "not reproduced"))
    return 1 if again else 0
