"""C14 - multipole moments equal direct quadrature of their defining integrands.

Specification: spec/Moments.tla (Horton orders declaratively and as loop nests, row index
arithmetic, basis functions: Cartesian monomials exactly, |r|^n, real regular solid harmonics from
an explicit formula, dipole) + spec/MC_Moments.tla (state machine, judges).

Flow:
  1. TLC (Emit=TRUE) writes the quadrature cases (small rational point sets, 1-3 centres, dims 1-3),
     the basis trees in x, y, z (radial / pure / pure-radial rows in Horton order), the per-point
     terms  coef_i = w_i f_i, at_i = p_i - R_c  and the dipole cases with their dipole trees.
  2. The harness calls generate_orders_horton_order, Grid.moments(..., return_orders=True) and
     dipole_moment_of_molecule and records: every order listing (integers), the Cartesian moments
     (snapped to the dyadic lattice 2^-L on which they live and handed to TLC as exact rationals).
  3. TLC checks the model (loop nest = declarative Horton listing, row-index laws, harmonicity /
     homogeneity / sign convention / Unsold sum rule of the solid harmonics, dipole = nuclear -
     electronic first moments) and judges the recorded listings and Cartesian moments exactly.
     Radial / pure / pure-radial moments and dipoles are compared by the harness with
     sum_i coef_i * Basis(at_i) evaluated from the emitted trees with 50-digit arithmetic.

Tolerance for tree-based values: |err| <= 1e-10 * scale, scale = sum_i |coef_i| |at_i|^degree
(degree = n, l, n + l): measured max err/scale 1.3e-15 on the pinned tree (quick+thorough, seeds
0-2); the mutants (n vs n+1, row offsets, dropped normalisation) give err/scale >= 1e-2.
Dipole: |err| <= 1e-11 * (sum |terms|): measured 4e-16.
"""
from __future__ import annotations

import json
import os
from fractions import Fraction
from pathlib import Path

import numpy as np

from .. import tlc
from ..evidence import Report
from ..expr_eval import evaluate

PROP = "C14"
VAL_RTOL = 1e-10
DIP_RTOL = 1e-11
NOTREC = [-1000000, 1]
STATS = {}

INVARIANTS = ["LoopNestIsHortonListing", "RowCounts", "RowIndexLaws", "PureRadialPicksItsHarmonic", "Harmonic",
              "HomogeneousOfDegreeL", "SignConvention", "Unsold", "DipoleIsFirstMomentDifference",
              "JudgeOrders", "JudgeCartesian"]


def _stat(name, value):
    STATS[name] = max(STATS.get(name, 0.0), float(value))


def _cfg(wd: Path, name: str, consts: dict, invariants=()) -> Path:
    lines = ["SPECIFICATION Spec", "CONSTANTS"] + [f" {k} = {tlc.tla(v)}" for k, v in consts.items()]
    lines += [f"INVARIANT {i}" for i in invariants]
    p = wd / name
    p.write_text("\n".join(lines) + "\n")
    return p


def _obs_module(wd: Path, jsonfile):
    if jsonfile:
        body = f'AllObs == JsonDeserialize("{jsonfile}")\nOrdersObs == AllObs.orders\nValueObs == AllObs.cart'
    else:
        body = "OrdersObs == <<>>\nValueObs == <<>>"
    (wd / "Obs_moments.tla").write_text(f"---- MODULE Obs_moments ----\nEXTENDS Json\n{body}\n====\n")


def _tagged(stdout, tag):
    return tlc.tagged(stdout.replace('<< "', '<<"'), tag)


def _rows(a):
    """Order listing as a list of integer rows."""
    a = np.asarray(a)
    if a.ndim == 1:
        a = a.reshape(-1, 1)
    if a.size and not np.all(a == np.round(a)):
        raise ValueError("non-integer order")
    return [[int(v) for v in r] for r in a]


def _q(v):
    return Fraction(*v)


def _snap(value, lbits):
    """Exact rational of an observation that lives on the lattice 2^-lbits (None if it does not)."""
    v = float(value)
    if not np.isfinite(v):
        return None
    k = round(v * 2 ** lbits)
    if abs(v * 2 ** lbits - k) > 1e-6 * max(1.0, abs(k)):
        return None
    f = Fraction(k, 2 ** lbits)
    if abs(f.numerator) >= 2 ** 30:     # TLC integers are 32 bit
        return None
    return [f.numerator, f.denominator]


def _grid(pts, wts, flat=False):
    from grid.basegrid import Grid
    p = np.array([[float(v) for v in r] for r in pts])
    if flat:
        p = p[:, 0]
    return Grid(p, np.array([float(v) for v in wts]))


def _basis_values(trees, terms, mode="mp"):
    """sum_i coef_i * B(at_i) for every basis tree; returns (values, per-term absolute sums)."""
    vals, mags = [], []
    for tree in trees:
        tot, mag = 0, 0
        for coef, at in terms:
            env = dict(zip("xyz", at))
            b = evaluate(tree, env, mode)
            tot += coef * b if mode == "fraction" else float(coef) * b
            mag += abs(float(coef) * float(b))
        vals.append(float(tot))
        mags.append(mag)
    return np.array(vals), np.array(mags)


def _observe(rep: Report, tier: str, emitted: dict):
    from grid.utils import generate_orders_horton_order
    max_order = emitted["max_order"]
    orders_obs, cart_obs, n = [], [], 0

    # ---- order listings, directly and through Grid.moments --------------------------------------
    for typ, dims in (("cartesian", (1, 2, 3)), ("radial", (1, 2, 3)), ("pure", (3,)), ("pure-radial", (3,))):
        for dim in dims:
            for order in range(0, max_order + 1):
                n += 1
                rep.evaluated(1, ("orders", typ, dim, order))
                try:
                    rows = _rows(generate_orders_horton_order(order, typ, dim))
                    orders_obs.append({"type": typ, "dim": dim, "order": order, "via": "direct", "rows": rows})
                except Exception as e:
                    rep.violation(f"orders:direct:{typ}:dim={dim}:order={order}",
                                  f"generate_orders_horton_order({order}, {typ!r}, {dim}) raised {type(e).__name__}: {e}")
                if typ == "pure-radial" and order == 0:
                    continue    # documented: n must be positive
                try:
                    g = _grid([[Fraction(i + 1, 2)] * dim for i in range(3)], [1, 2, 1])
                    _, rows = g.moments(order, np.zeros((2, dim)), np.array([1.0, -1.0, 2.0]), typ, return_orders=True)
                    orders_obs.append({"type": typ, "dim": dim, "order": order, "via": "moments", "rows": _rows(rows)})
                    n += 1
                except Exception as e:
                    rep.violation(f"orders:moments:{typ}:dim={dim}:order={order}",
                                  f"Grid.moments({order}, type_mom={typ!r}, return_orders=True) on a {dim}D grid raised {type(e).__name__}: {e}")

    # ---- values --------------------------------------------------------------------------------
    for k, item in enumerate(emitted["values"], 1):
        c = item["case"]
        dim, lcart, lpure = c["dim"], c["lcart"], c["lpure"]
        pts = [[_q(v) for v in p] for p in c["pts"]]
        wts = [_q(v) for v in c["wts"]]
        fvals = np.array([float(_q(v)) for v in c["fvals"]])
        centres = np.array([[float(_q(v)) for v in r] for r in c["centres"]])
        if k % 2 == 0 and np.all(fvals == np.round(fvals)):
            # "for all function value arrays": integer-valued samples handed over as the integer array a caller
            # holds them in (counts, masks); the moments are the same real numbers
            fvals = fvals.astype(np.int64)
        ckey = f"case={k}:dim={dim}:{c['kind']}"
        info = {"dim": dim, "points": [[str(v) for v in p] for p in pts], "weights": [str(v) for v in wts],
                "fvals": fvals.tolist(), "centres": centres.tolist()}
        rec = {"cart": []}
        g = _grid(pts, wts)
        # Cartesian: exact
        n += 1
        rep.evaluated(1, ("cartesian", dim, c["kind"], len(centres)))
        try:
            mom = np.asarray(g.moments(lcart, centres, fvals, "cartesian"), float)
            if mom.ndim != 2 or mom.shape[1] != len(centres):
                raise ValueError(f"result has shape {mom.shape} for {len(centres)} centres")
            lbits = 0 if c["kind"] == "int" else lcart
            table = []
            for r, row in enumerate(mom):
                out = []
                for ci, v in enumerate(row):
                    s = _snap(v, lbits)
                    if s is None:
                        rep.violation(f"cartesian:{ckey}:row={r}:centre={ci}:off-lattice",
                                      f"Cartesian moment row {r} centre {ci} = {v!r} is not a multiple of 2^-{lbits} (or is >= 2^30) "
                                      f"although points, centres, weights and values are small dyadic rationals", info)
                        s = NOTREC
                    out.append(s)
                table.append(out)
            rec["cart"] = table
        except Exception as e:
            rep.violation(f"cartesian:{ckey}:raises", f"Grid.moments({lcart}, type_mom='cartesian') raised {type(e).__name__}: {e}", info)
        cart_obs.append(rec)
        # one-dimensional grids as the library stores them (flat point array)
        if dim == 1:
            n += 1
            rep.evaluated(1, ("cartesian-flat-1d", c["kind"]))
            try:
                mom1 = np.asarray(_grid(pts, wts, flat=True).moments(lcart, centres, fvals, "cartesian"), float)
                if rec["cart"] and not np.array_equal(mom1, mom):
                    rep.violation(f"cartesian:flat-1d-points:{ckey}:differs", "moments of the flat 1D grid differ from those of the (N,1) grid", info)
            except Exception as e:
                rep.violation(f"cartesian:flat-1d-points:{ckey}:raises",
                              f"Grid.moments on a one-dimensional grid whose points are a flat array (shape (N,)) raised {type(e).__name__}: {e}", info)
        # tree-based types
        todo = [("radial", lcart, emitted["radial"][dim - 1])]
        if dim == 3:
            todo += [("pure", lpure, emitted["pure"]), ("pure-radial", lpure, emitted["pure_radial"])]
        for typ, ll, trees in todo:
            n += 1
            rep.evaluated(1, (typ, dim, c["kind"], len(centres)))
            try:
                mom, rows = g.moments(ll, centres, fvals, typ, return_orders=True)
                mom, rows = np.asarray(mom, float), _rows(rows)
                if mom.shape != (len(rows), len(centres)):
                    raise ValueError(f"result has shape {mom.shape} for {len(rows)} rows and {len(centres)} centres")
            except Exception as e:
                rep.violation(f"{typ}:{ckey}:raises", f"Grid.moments({ll}, type_mom={typ!r}) raised {type(e).__name__}: {e}", info)
                continue
            trees = trees[:len(rows)]
            if len(trees) != len(rows):
                rep.violation(f"{typ}:{ckey}:row-count", f"{len(rows)} rows returned, specification lists {len(trees)}", info)
                continue
            for ci in range(len(centres)):
                terms = [(_q(t["coef"]), [_q(v) for v in t["at"]]) for t in item["terms"][ci]]
                want, _ = _basis_values(trees, terms)
                rad = [float(sum(float(v) ** 2 for v in at)) ** 0.5 for _, at in terms]
                for r, row in enumerate(rows):
                    deg = row[0] if typ in ("radial", "pure") else row[0] + row[1]
                    scale = sum(abs(float(cf)) * rr ** deg for (cf, _), rr in zip(terms, rad))
                    err = abs(mom[r, ci] - want[r])
                    if scale > 0:
                        _stat(f"{typ}_err_over_scale", err / scale)
                    if not err <= VAL_RTOL * scale:
                        rep.violation(f"{typ}:{ckey}:row={row}:centre={ci}",
                                      f"{typ} moment {row} about centre {centres[ci].tolist()}: specification {want[r]!r}, "
                                      f"implementation {mom[r, ci]!r} (scale {scale:.3g})",
                                      {**info, "type": typ, "row": row, "centre": ci, "spec": want[r], "observed": mom[r, ci]})

    # ---- dipoles -------------------------------------------------------------------------------
    from grid.utils import dipole_moment_of_molecule, isotopic_masses
    for k, item in enumerate(emitted["dipoles"], 1):
        c = item["case"]
        n += 1
        zs = [a["z"] for a in c["mol"]]
        rep.evaluated(1, ("dipole", tuple(zs)))
        coords = np.array([[float(_q(v)) for v in a["r"]] for a in c["mol"]])
        info = {"charges": zs, "coords": coords.tolist(), "points": [[str(_q(v)) for v in p] for p in c["pts"]]}
        try:
            env = {f"m{i + 1}": Fraction(repr(float(isotopic_masses[z]))) for i, z in enumerate(zs)}
            for i in range(len(zs), 4):
                env[f"m{i + 1}"] = Fraction(1)
            want = np.array([float(evaluate(t, env, "fraction")) for t in item["trees"]])
            g = _grid([[_q(v) for v in p] for p in c["pts"]], [_q(v) for v in c["wts"]])
            rho = np.array([float(_q(v)) for v in c["rho"]])
            got = np.asarray(dipole_moment_of_molecule(g, rho, coords, np.array(zs)), float).ravel()
            if got.shape != (3,):
                raise ValueError(f"result has shape {got.shape}")
        except Exception as e:
            rep.violation(f"dipole:case={k}:raises", f"dipole_moment_of_molecule raised {type(e).__name__}: {e}", info)
            continue
        mag = float(np.sum(np.abs(coords)) * max(zs) + np.sum(np.abs(g.points)) * np.max(np.abs(g.weights * rho))) + 1.0
        err = float(np.max(np.abs(got - want)))
        _stat("dipole_err_over_mag", err / mag)
        if not err <= DIP_RTOL * mag:
            rep.violation(f"dipole:case={k}:Z={zs}", f"dipole of charges {zs}: specification {want.tolist()}, implementation {got.tolist()}",
                          {**info, "spec": want.tolist(), "observed": got.tolist()})
    return {"orders": orders_obs, "cart": cart_obs}, n


def _run_families(rep: Report, tier: str, wd: Path) -> int:
    quick = tier == "quick"
    consts = {"MaxOrder": 8, "MaxL": 4 if quick else 6, "Seed": rep.seed, "NCases": 24 if quick else 480,
              "CartL": 4 if quick else 8, "PureL": 3 if quick else 6, "NDipole": 6 if quick else 40}
    _obs_module(wd, None)
    cfg = _cfg(wd, "MC_Moments_emit.cfg", {**consts, "Emit": True})
    res = tlc.run_tlc("MC_Moments", cfg, wd, workers=1, timeout=1500).require_ok("MC_Moments emit")
    if res.status != "ok" or not (wd / "cases_moments.json").exists():
        raise tlc.MachineryError(f"MC_Moments: emission failed\n{res.stdout[-3000:]}")
    with open(wd / "cases_moments.json") as f:
        emitted = json.load(f)
    obs, n = _observe(rep, tier, emitted)
    with open(wd / "obs_moments.json", "w") as f:
        json.dump(obs, f)
    _obs_module(wd, "obs_moments.json")
    cfg = _cfg(wd, "MC_Moments.cfg", {**consts, "Emit": False}, INVARIANTS)
    res = tlc.run_tlc("MC_Moments", cfg, wd, workers=16, timeout=1500).require_ok("MC_Moments")
    rep.tlc(res, "MC_Moments")
    if res.status == "violation":
        st = tlc.last_state(res)
        rep.violation(f"model:{','.join(res.violated)}", f"TLC: invariant(s) {res.violated} of MC_Moments violated; last state {st}", st)
    for t in _tagged(res.stdout, "MISMATCH"):
        kind = t[1]
        if kind in ("orders", "horton-order"):
            o = obs["orders"][t[2] - 1]
            call = (f"generate_orders_horton_order({o['order']}, {o['type']!r}, {o['dim']})" if o["via"] == "direct"
                    else f"Grid.moments({o['order']}, type_mom={o['type']!r}, return_orders=True) on a {o['dim']}D grid")
            rep.violation(f"orders:{o['via']}:{o['type']}:dim={o['dim']}:order={o['order']}:{kind}",
                          f"{call}: specification {t[3]}, implementation {t[4]}", {"call": call, "spec": t[3], "observed": t[4]})
        elif kind == "cart-rows":
            rep.violation(f"cartesian:case={t[2]}:row-count", f"{t[4]} rows returned, specification lists {t[3]}")
        else:
            c = emitted["values"][t[2] - 1]["case"]
            row, ci = t[3]
            rep.violation(f"cartesian:case={t[2]}:dim={c['dim']}:{c['kind']}:row={row}:centre={ci - 1}",
                          f"Cartesian moment {row} about centre {[str(_q(v)) for v in c['centres'][ci - 1]]}: specification "
                          f"{_q(t[4])}, implementation {_q(t[5])}",
                          {"points": [[str(_q(v)) for v in p] for p in c["pts"]], "weights": [str(_q(v)) for v in c["wts"]],
                           "fvals": [str(_q(v)) for v in c["fvals"]], "row": row, "spec": str(_q(t[4])), "observed": str(_q(t[5]))})
    rep.sample({"case": emitted["values"][0]["case"], "terms_centre_1": emitted["values"][0]["terms"][0][:2]})
    rep.sample({"dipole_case": emitted["dipoles"][0]["case"]})
    rep.sample({"orders_observed": obs["orders"][40]})
    return n


def _class_independence(rep: Report, tier: str) -> int:
    """'For every grid': the moments depend on the grid only through its points and weights.
    Every grid class (whatever way it stores its points) must return what the plain Grid built
    from .points/.weights returns - and the plain Grid is what the specification judges above."""
    import warnings
    from grid.angular import AngularGrid
    from grid.atomgrid import AtomGrid
    from grid.basegrid import Grid, LocalGrid, OneDGrid
    from grid.becke import BeckeWeights
    from grid.cubic import Tensor1DGrids, UniformGrid
    from grid.molgrid import MolGrid
    from grid.periodicgrid import PeriodicGrid
    rng = np.random.default_rng(rep.seed + 14)
    n = 0
    with warnings.catch_warnings():
        warnings.simplefilter("ignore")
        rg = OneDGrid(np.array([0.4, 1.1, 2.0]), np.array([0.3, 0.5, 0.7]), (0, np.inf))
        od = lambda k, s: OneDGrid(np.linspace(-1, 1, k) * s + 0.2, np.ones(k) * 2 * s / k, (-s + 0.2, s + 0.2))  # noqa: E731
        makers = {
            "AtomGrid[centre,rotate]": lambda: AtomGrid(rg, degrees=[3, 5, 3], center=np.array([0.3, -0.2, 0.5]), rotate=17),
            "AtomGrid[origin]": lambda: AtomGrid(rg, degrees=[5], center=np.zeros(3)),
            "MolGrid": lambda: MolGrid(np.array([1, 8]), [AtomGrid(rg, degrees=[3], center=np.array([0.0, 0.1, -0.7])),
                                                          AtomGrid(rg, degrees=[3], center=np.array([0.2, 0.0, 0.9]))], BeckeWeights(), store=True),
            "UniformGrid": lambda: UniformGrid(np.array([-0.5, 0.1, 0.3]), np.array([[0.5, 0, 0], [0.1, 0.4, 0], [0, 0.2, 0.3]]), np.array([3, 2, 3])),
            "Tensor1DGrids": lambda: Tensor1DGrids(od(3, 1.0), od(2, 0.5), od(3, 0.7)),
            "AngularGrid": lambda: AngularGrid(degree=5),
            "LocalGrid": lambda: LocalGrid(rng.uniform(-1, 1, (7, 3)), rng.uniform(0.1, 1, 7), np.array([0.1, 0.2, 0.3]), np.arange(7)),
            "PeriodicGrid": lambda: PeriodicGrid(rng.uniform(0, 1, (7, 3)), rng.uniform(0.1, 1, 7), np.array([[1.5, 0, 0], [0, 1.2, 0.1]])),
            "Tensor1DGrids[2D]": lambda: Tensor1DGrids(od(3, 1.0), od(4, 0.5)),
            "OneDGrid": lambda: od(5, 1.0),
        }
        for name, mk in makers.items():
            try:
                g = mk()
                pts, wts = np.array(g.points, dtype=float), np.array(g.weights, dtype=float)
                ref = Grid(pts.copy() if pts.ndim == 2 else pts.reshape(-1, 1).copy(), wts.copy())
                dim = ref.points.shape[1]
                f = np.cos(np.arange(len(wts)) * 0.7) + 1.5
                centers = np.vstack([np.zeros(dim), np.linspace(0.3, -0.4, dim)])
                types = ("cartesian", "radial", "pure", "pure-radial") if dim == 3 else ("cartesian", "radial")
            except Exception as e:  # noqa: BLE001
                rep.violation(f"class-independence:{name}:build", f"fixture of {name} raised {type(e).__name__}: {e}")
                continue
            for typ in types:
                n += 1
                rep.evaluated(1, ("class-independence", name, typ))
                try:
                    got, o1 = g.moments(3, centers, f, type_mom=typ, return_orders=True)
                    want, o2 = ref.moments(3, centers, f, type_mom=typ, return_orders=True)
                except Exception as e:  # noqa: BLE001
                    rep.violation(f"class-independence:{name}:{typ}:raises", f"{name}.moments(type_mom={typ!r}) raised {type(e).__name__}: {e}")
                    continue
                scale = float(np.max(np.abs(want))) + 1.0
                err = float(np.max(np.abs(np.asarray(got) - np.asarray(want)))) if np.shape(got) == np.shape(want) else float("inf")
                _stat("class_independence_err_over_scale", err / scale if np.isfinite(err) else 0.0)
                if not (err <= 1e-11 * scale and np.array_equal(o1, o2)):
                    rep.violation(f"class-independence:{name}:{typ}",
                                  f"{name}.moments(type_mom={typ!r}) differs from Grid(points, weights).moments on the same points "
                                  f"and weights (max difference {err:.3g}, scale {scale:.3g})",
                                  {"class": name, "type": typ, "centers": centers.tolist()})
    return n


def run(tier: str) -> int:
    rep = Report(PROP, tier, "model_checking")
    wd = tlc.scratch(f"{PROP}-{tier}")
    STATS.clear()
    n = _run_families(rep, tier, wd)
    n += _class_independence(rep, tier)
    rep.set("traces_validated_against_impl", n)
    rep.set("exhaustive", True)
    rep.set("rule", "one case = one call of generate_orders_horton_order / Grid.moments / dipole_moment_of_molecule on a case "
                    "emitted by the specification; distinct = distinct (type, dimension, order | point-set kind, number of centres)")
    rep.set("measured_max_errors", {k: float(f"{v:.3g}") for k, v in sorted(STATS.items())})
    rep.assume("Cartesian moments of dyadic point sets are computed without rounding by the implementation (checked: values "
               "off the lattice 2^-L are reported); they are judged exactly by TLC")
    rep.assume("radial / pure / pure-radial values and dipoles are compared by the harness with the specification's trees "
               "(explicit solid-harmonic formula, checked in TLC for harmonicity, homogeneity, sign convention, Unsold sum rule)")
    return rep.finish()


# --------------------------------------------------------------------------------------------
# sensitivity: textual mutants of grid/utils.py and grid/basegrid.py, loaded in-process

MUTANTS = [
    # (name, file, old, new)
    ("pure-order-direction", "utils", "orders += [[order, x], [order, -x]]", "orders += [[order, -x], [order, x]]"),
    ("cart3-inner-ascending", "utils", "for m_y in range(order - m_x, -1, -1):", "for m_y in range(0, order - m_x + 1):"),
    ("cart2-swapped", "utils", "orders.append([m_x, order - m_x])", "orders.append([order - m_x, m_x])"),
    ("pure-radial-l-range", "utils", "for l_deg in range(0, order):", "for l_deg in range(0, order + 1):"),
    ("pure-radial-m-sign-order", "utils", "orders += [[order, l_deg, m_ord], [order, l_deg, -m_ord]]", "orders += [[order, l_deg, -m_ord], [order, l_deg, m_ord]]"),
    ("solid-normalisation", "utils", "np.sqrt(4.0 * np.pi / (2 * degrees[:, None] + 1))", "np.sqrt(4.0 * np.pi / (2 * degrees[:, None] + 3))"),
    ("sph-theta-swapped", "utils", "theta = np.arctan2(relat_pts[:, 1], relat_pts[:, 0])", "theta = np.arctan2(relat_pts[:, 0], relat_pts[:, 1])"),
    ("sph-origin-not-fixed", "utils", "phi[r == 0.0] = 0.0", "pass"),
    ("dipole-sign", "utils", "result = (result - integrals.T).flatten()[1:]", "result = (result + integrals.T).flatten()[1:]"),
    ("dipole-centre-of-charge", "utils", "masses = np.array([isotopic_masses[charge] for charge in charges])", "masses = np.array([float(charge) for charge in charges])"),
    ("lm-row-offset-positive", "basegrid", "indices[m_orders > 0] += 2 * m_orders[m_orders > 0] - 1", "indices[m_orders > 0] += 2 * m_orders[m_orders > 0]"),
    ("lm-row-offset-negative", "basegrid", "indices[m_orders <= 0] += 2 * np.abs(m_orders[m_orders <= 0])", "indices[m_orders <= 0] += 2 * np.abs(m_orders[m_orders <= 0]) - (m_orders[m_orders <= 0] < 0)"),
    ("lm-row-base", "basegrid", "indices = l_degrees**2", "indices = l_degrees * (l_degrees + 1)"),
    ("pure-radial-n-plus-one", "basegrid", "cent_pts_with_order = cent_pts_with_order ** n_princ[:, None]", "cent_pts_with_order = cent_pts_with_order ** (n_princ[:, None] + 1)"),
    ("radial-n-plus-one", "basegrid", "cent_pts_with_order ** np.ravel(all_orders)[:, None]", "cent_pts_with_order ** (np.ravel(all_orders)[:, None] + 1)"),
    ("centre-broadcast", "basegrid", "centered_pts = self.points - center", "centered_pts = self.points - centers[0]"),
    ("cartesian-weights-dropped", "basegrid", 'integral = np.einsum("ln,n,n->l", cent_pts_with_order, func_vals, self.weights)\n            elif',
     'integral = np.einsum("ln,n->l", cent_pts_with_order, func_vals)\n            elif'),
    ("max-order-minus-one", "basegrid", "solid_harm = solid_harmonics(orders[-1], sph_pts)", "solid_harm = solid_harmonics(max(orders[-1] - 1, 0), sph_pts)"),
    ("first-order-skipped", "basegrid", "for l_ord in orders[1:]:", "for l_ord in orders[2:]:"),
]


def _load_mutant(fname, old, new):
    import importlib.util
    import sys
    src = Path(f"/repo/src/grid/{fname}.py").read_text()
    if src.count(old) < 1:
        raise tlc.MachineryError(f"mutant anchor not found: {old!r}")
    spec = importlib.util.spec_from_loader(f"grid._c14_mutant_{fname}", loader=None)
    mod = importlib.util.module_from_spec(spec)
    mod.__package__ = "grid"
    mod.__file__ = f"/verif/gen/C14-selftest/{fname}_mutant.py"
    sys.modules[mod.__name__] = mod
    exec(compile(src.replace(old, new), mod.__file__, "exec"), mod.__dict__)
    return mod


def selftest(tier: str = "quick") -> int:
    import grid.basegrid as bg
    import grid.utils as ut
    only = os.environ.get("C14_MUTANTS")
    killed, missed = [], []
    for name, fname, old, new in MUTANTS:
        if only and name not in only.split(","):
            continue
        mod = _load_mutant(fname, old, new)
        fns = ("generate_orders_horton_order", "solid_harmonics", "convert_cart_to_sph", "dipole_moment_of_molecule")
        saved_ut = {k: getattr(ut, k) for k in fns}
        saved_bg = {k: getattr(bg, k) for k in fns[:3]}
        saved_m = bg.Grid.moments
        try:
            if fname == "utils":
                for k in fns:
                    setattr(ut, k, getattr(mod, k))
                for k in fns[:3]:
                    setattr(bg, k, getattr(mod, k))
            else:
                bg.Grid.moments = mod.Grid.moments
            rep = Report(PROP, tier, "model_checking")
            wd = tlc.scratch(f"{PROP}-selftest")
            _run_families(rep, tier, wd)
            fresh = [v for v in rep.violations if rep._match_known(v["key"]) is None]
        finally:
            for k, v in saved_ut.items():
                setattr(ut, k, v)
            for k, v in saved_bg.items():
                setattr(bg, k, v)
            bg.Grid.moments = saved_m
        (killed if fresh else missed).append(name)
        print(f"mutant {name:30s} [{fname}] -> {'VIOLATION x%d, e.g. %s' % (len(fresh), fresh[0]['key'][:110]) if fresh else 'MISSED'}", flush=True)
    print(f"selftest: {len(killed)} killed, {len(missed)} missed {missed}")
    return 0 if not missed else 1


def replay(path: str) -> int:
    """Re-run the tier of a recorded violation with its seed; exit 1 if the same key is reported again."""
    with open(path) as f:
        v = json.load(f)
    os.environ["VERIF_SEED"] = str(v.get("seed", 0))
    rep = Report(PROP, v.get("tier", "quick"), "model_checking")
    wd = tlc.scratch(f"{PROP}-replay")
    _run_families(rep, v.get("tier", "quick"), wd)
    again = [x for x in rep.violations if x["key"] == v["key"]]
    print(f"replay {v['key']}: " + (f"reproduced: {again[0]['what'][:300]}" if again else "not reproduced"))
    return 1 if again else 0
