"""C16 - Poisson solvers reproduce Coulomb potentials of Gaussian charges and are linear.

Level: exploration (DESIGN.md section 5, C16).  TLC decides nothing numeric about the solvers;
it checks ``Poisson.tla`` (MC_Poisson.cfg), which EXTENDS ``Coulomb.tla``:
  * the per-channel radial equation u'' - l(l+1)/r^2 u = -4 pi r rho_lm in the {erf, E}
    differential algebra with Laurent coefficients; for the channel densities
    H_l(x,y,z) exp(-alpha r^2), l <= 2, the potential is DERIVED (erf coefficient from the multipole
    law, Gaussian part solved for on a rational lattice, unique for every alpha of a rational set,
    regular at the origin through the verified series erf = E S(r)); l = 0 reproduces C17's s-type
    potential; solid harmonics are harmonic and homogeneous; linearity;
  * the Laplacians used as oracle for interpolate_laplacian are derived symbolically (Expr!D);
  * the configuration space: 200 cases of 9 kinds (grids, centres, exponent/coefficient sets inside
    the resolution envelope, solver options), each checked admissible and emitted.
The harness replays a seeded subset: densities are evaluated on the grid from the emitted density
trees, the solvers are called, and the returned callables are compared at 30 points per atom with
the emitted potential trees.

CLAUSES, TOLERANCES (relative to max|oracle| over the evaluation points) AND CALIBRATION
(pinned tree, 2026-09-25, all 600 cases, seeds 0, 1, 2; coverage.calibration in the evidence):
  see TOL below; every entry lists measured worst sound value -> accepted.
Grids (chosen after calibration, stated in Poisson.tla): GaussLegendre(100|120) o Becke for
include_origin=True, GaussLegendre(200) o HandyRTransform(m=2) (first radial point ~1e-9) for
include_origin=False, because the solver then imposes u = 0 at the FIRST radial point and a Becke
grid (r_1 = 2e-4) gives errors of r_1 V(0) / r = 4e-3 at r = 0.05.  The ODE variable is the inverse
of the grid's own map.
include_origin=True is used only for spherical single-atom densities: with l > 0 content the
library's r = 0 node (coefficient -l(l+1)/1e-20) makes scipy's solve_bvp refine to ~36 000 nodes
with NaN residuals (50 s per channel; ValueError "didn't converge" at tol = 1e-8) - a performance /
robustness observation outside the property's accuracy statement, reported, not checked.
The zero initial guess is passed explicitly (ode_params["initial_guess_y"]): the library's default
is np.random.rand, which makes results irreproducible.
"""
from __future__ import annotations

import json
import random
import time
import warnings
from fractions import Fraction

import numpy as np

from .. import tlc, tlcx
from ..evidence import Report
from ..np_eval import np_eval, selfcheck
from . import c17

PROP = "C16"
NPTS = 30
BVP_TOL = 1e-6
# clause -> accepted relative deviation (see docstring / coverage.calibration)
TOL = {                     # measured worst over all 600 cases, seeds 0/1/2  -> accepted   (orders of margin)
    "bvp_s": 3e-4,          # 4.9e-6   (1.8)  centred s-Gaussian combinations, include_origin both ways
    "bvp_chan": 3e-4,       # 9.7e-6   (1.5)  s + pure l = 1, 2 channel densities
    "bvp_off": 5e-3,        # 1.3e-4   (1.6)  off-centre Gaussian (truncation of the l-expansion at deg // 2)
    "mol": 4e-2,            # 1.1e-3   (1.56) 2-3 centres >= 7 bohr apart, Becke weights, degree <= 7
    "ivp_s": 3e-3,          # 8.5e-5   (1.55) initial-value route, spherical, r >= 0.2
    "lin": 20 * BVP_TOL,    # 5.0e-9   (3.6)  |V[a rho1 + b rho2] - a V[rho1] - b V[rho2]|
    "robust_exact": 1e-10,  # 4.8e-16  (5.3)  rho = fitted core model: residual vanishes
    "robust_core": 2e-3,    # 5.2e-5   (1.6)  rho = core model + smooth part, every element, split2 both ways
    "robust_smooth": 1e-1,  # 2.9e-3   (1.54) rho smooth, H / C core model subtracted and re-added
    "robust_vs_plain": 1.2e-1,  # 3.7e-3 (1.5)
    "lap": 4e-2,            # 1.4e-3   (1.46) interpolate_laplacian vs symbolic Laplacian, 0.3 <= r <= 3
}
# Margins are 1.5 orders (not 3) on the sound side because the solvers' own accuracy on these grids is
# 1e-5..1e-3; the defects targeted (4 pi / sign, r factor, boundary value, l(l+1), weights omitted, core
# normalisation, dropped term) change the result by 1e-1..1 (selftest), i.e. >= 1.5 orders above.


def fr(q):
    return Fraction(int(q[0]), int(q[1]))


def vec(p):
    return np.array([float(fr(q)) for q in p])


class Oracles:
    def __init__(self, ctrees, ptrees):
        self.c = ctrees
        self.p = ptrees

    def _chan(self, l, i):
        return self.p["chan"][str(l)][i - 1]

    def term_env(self, term, atom, pts):
        cen = atom + vec(term["d"])
        rel = pts - cen
        r = np.sqrt(np.sum(rel * rel, axis=1))
        return {"x": rel[:, 0], "y": rel[:, 1], "z": rel[:, 2], "r": r, "alpha": float(fr(term["alpha"]))}

    def rho(self, term, atom, pts):
        env = self.term_env(term, atom, pts)
        c = float(fr(term["c"]))
        if term["l"] == 0:
            return c * np_eval(self.c["s"]["RhoDoc"], env)
        return c * np_eval(self._chan(term["l"], term["i"])["rho"], env)

    def pot(self, term, atom, pts):
        env = self.term_env(term, atom, pts)
        c = float(fr(term["c"]))
        with np.errstate(all="ignore"):
            if term["l"] == 0:
                v = np.asarray(np_eval(self.c["s"]["Vr"], env), dtype=float)
                v0 = float(np_eval(self.c["s"]["V0"], {"alpha": env["alpha"]}))
                return c * np.where(env["r"] > 0, v, v0)
            return c * np.asarray(np_eval(self._chan(term["l"], term["i"])["pot"], env), dtype=float)

    def lap(self, term, atom, pts):
        env = self.term_env(term, atom, pts)
        c = float(fr(term["c"]))
        if term["l"] == 0:
            return c * np_eval(self.p["laps"], env)
        return c * np_eval(self._chan(term["l"], term["i"])["lap"], env)


def spec_run(wd):
    with open(c17.JSON_PARAMS) as f:
        table = json.load(f)
    keys = list(table)
    c17.write_tables(wd, keys, [len(table[k]["alphas_s"]) for k in keys], maxalpha=[max(table[k]["alphas_s"]) for k in keys])
    res = tlc.run_tlc("Poisson", "MC_Poisson.cfg", wd, workers=8, timeout=900).require_ok("MC_Poisson")
    cases = [t[1] for t in tlcx.tagged(res.stdout, "CASE")]
    if res.status == "ok" and (not cases or len(cases) != res.stdout.count('"CASE"')):
        raise tlc.MachineryError("could not parse the cases emitted by Poisson.tla")
    cases.sort(key=lambda c: c["id"])
    with open(wd / "coulomb_trees.json") as f:
        ctrees = json.load(f)
    with open(wd / "poisson_trees.json") as f:
        ptrees = json.load(f)
    return res, cases, Oracles(ctrees, ptrees), table


# ---------------------------------------------------------------------------------------------

def eval_points(atoms, seed, lo=0.05, hi=8.0):
    rng = np.random.default_rng(seed)
    out = []
    for a in atoms:
        d = rng.normal(size=(NPTS, 3))
        d /= np.linalg.norm(d, axis=1)[:, None]
        out.append(a + d * (10 ** rng.uniform(np.log10(lo), np.log10(hi), size=NPTS))[:, None])
    return np.vstack(out)


def run_case(case, orc, table, seed):
    """Execute one case.  Returns list of (clause, relative deviation, detail) and list of errors."""
    from grid.atomgrid import AtomGrid
    from grid.becke import BeckeWeights
    from grid.molgrid import MolGrid
    from grid.onedgrid import GaussLegendre
    from grid.poisson import interpolate_laplacian, solve_poisson_bvp, solve_poisson_ivp
    from grid.robust_poisson import solve_poisson_robust
    from grid.rtransform import BeckeRTransform, HandyRTransform, InverseRTransform

    g = case["grid"]
    n = int(g["n"])
    if g["map"] == "Becke":
        tf = BeckeRTransform(float(fr(g["rmin"])), float(fr(g["R"])))
    else:
        tf = HandyRTransform(float(fr(g["rmin"])), float(fr(g["R"])), 2)
    rg = tf.transform_1d_grid(GaussLegendre(n))
    itf = InverseRTransform(tf if case["ode"] == "inverse-of-grid-map" else BeckeRTransform(0.0, 1.5))
    atoms = [vec(a) for a in case["atoms"]]
    # three of four cases use randomly rotated angular shells (AtomGrid(..., rotate=seed)): the expansions must
    # use the angles of the points the grid really has
    rot = (int(case["id"]) % 4) * 7
    ags = [AtomGrid(rg, degrees=[int(g["deg"])], center=a, rotate=rot + k if rot else 0) for k, a in enumerate(atoms)]
    if len(ags) == 1:
        grid = ags[0]
    else:
        grid = MolGrid(np.array([1] * len(ags)), ags, BeckeWeights(order=3), store=True)
    origin = bool(case["origin"])
    radial = np.hstack(([0.0], rg.points)) if (origin and np.all(rg.points > 0.0)) else rg.points
    rcut = float(case["rcut"]) if case["rcut"] else 1e6
    nrad = int(np.sum(radial <= rcut))         # the solver drops radial points > remove_large_pts (default 1e6)
    ode = {"tol": BVP_TOL, "initial_guess_y": np.zeros((2, nrad))}
    kw = {"include_origin": origin, "ode_params": ode}
    if case["rcut"]:
        kw["remove_large_pts"] = rcut
    terms = case["terms"]
    owner = [atoms[k % len(atoms)] for k in range(len(terms))]
    P = eval_points(atoms, seed * 1000 + case["id"])
    out = []

    def dens(ts, ows, pts):
        return sum(orc.rho(t, a, pts) for t, a in zip(ts, ows))

    def pot(ts, ows, pts):
        return sum(orc.pot(t, a, pts) for t, a in zip(ts, ows))

    def rel(got, ex):
        return float(np.max(np.abs(np.asarray(got, dtype=float) - ex)) / np.max(np.abs(ex)))

    kind = case["kind"]
    with warnings.catch_warnings():
        warnings.simplefilter("ignore")
        if kind in ("bvp_s", "bvp_chan", "bvp_off", "mol"):
            if case["boundary"] == "exact":
                q = sum(float(fr(t["c"])) for t in terms if t["l"] == 0)   # Coulomb!ErfCoefIsCharge: charge of a normalised s term = c
                kw["boundary"] = float(q * np.sqrt(4 * np.pi))            # documented: limit of r V_00 = Q / Y_00
            v = solve_poisson_bvp(grid, dens(terms, owner, grid.points), itf, **kw)
            out.append((kind, rel(v(P), pot(terms, owner, P)), None))
        elif kind == "lin":
            a, b = float(fr(case["lin"][0])), float(fr(case["lin"][1]))
            r1 = dens(terms[:1], owner[:1], grid.points)
            r2 = dens(terms[1:], owner[1:], grid.points)
            v12 = solve_poisson_bvp(grid, a * r1 + b * r2, itf, **kw)(P)
            v1 = solve_poisson_bvp(grid, r1, itf, **kw)(P)
            v2 = solve_poisson_bvp(grid, r2, itf, **kw)(P)
            scale = np.max(np.abs(a * v1)) + np.max(np.abs(b * v2))
            out.append(("lin", float(np.max(np.abs(v12 - a * v1 - b * v2)) / scale), None))
            out.append(("bvp_chan", rel(v12, a * pot(terms[:1], owner[:1], P) + b * pot(terms[1:], owner[1:], P)), None))
        elif kind == "ivp_s":
            rho = dens(terms, owner, grid.points)
            v = solve_poisson_ivp(grid, rho, itf, r_interval=(1000.0, 1e-3))
            Pi = eval_points(atoms, seed * 1000 + case["id"], lo=0.2, hi=8.0)
            out.append(("ivp_s", rel(v(Pi), pot(terms, owner, Pi)), None))
        elif kind in ("robust_exact", "robust_smooth", "robust_core"):
            atnums = np.array([_Z[e] for e in case["elements"]])
            atcoords = np.array(atoms)
            ts, ows = [], []
            if kind in ("robust_exact", "robust_core"):
                for e, a in zip(case["elements"], atoms):
                    for c, al in zip(table[e]["coeffs_s"], table[e]["alphas_s"]):
                        ts.append({"l": 0, "i": 1, "c": _q(c), "alpha": _q(al), "d": [[0, 1]] * 3})
                        ows.append(a)
            if kind in ("robust_smooth", "robust_core"):
                ts, ows = ts + list(terms), ows + list(owner)
            rho = dens(ts, ows, grid.points)
            v = solve_poisson_robust(grid, rho, itf, atnums, atcoords, split2=bool(case["split2"]), **kw)
            ex = pot(ts, ows, P)
            out.append((kind, rel(v(P), ex), None))
            if case["split2"]:
                # "split options": a user-supplied exponent basis listed from tight to diffuse (as basis-set
                # files do) spans the same functions as an ascending one and must serve equally well
                basis = np.geomspace(0.05, 5000.0, 20)[::-1].copy()
                v2 = solve_poisson_robust(grid, rho, itf, atnums, atcoords, split2=True, alphas_basis=basis, **kw)
                out.append((kind, rel(v2(P), ex), None))
            if kind == "robust_smooth":
                plain = solve_poisson_bvp(grid, rho, itf, **kw)(P)
                out.append(("robust_vs_plain", float(np.max(np.abs(v(P) - plain)) / np.max(np.abs(ex))), None))
        elif kind == "lap":
            f = dens(terms, owner, grid.points)
            lap = interpolate_laplacian(grid, f)
            Pl = eval_points(atoms, seed * 1000 + case["id"], lo=0.3, hi=3.0)
            ex = sum(orc.lap(t, a, Pl) for t, a in zip(terms, owner))
            out.append(("lap", rel(lap(Pl.copy()), ex), None))
        else:
            raise tlc.MachineryError(f"unknown case kind {kind}")
    return out


_Z = {"H": 1, "C": 6, "N": 7, "O": 8, "Cl": 17}


def _q(x):
    """float -> exact rational pair (floats are dyadic rationals)"""
    f = Fraction(float(x))
    return [f.numerator, f.denominator]


def _worker(args):
    case, seed = args
    t0 = time.time()
    try:
        res = run_case(case, _G["orc"], _G["table"], seed)
        return case["id"], res, None, time.time() - t0
    except tlc.MachineryError:
        raise
    except Exception as e:  # noqa: BLE001 - failures of the library are findings
        return case["id"], [], f"{type(e).__name__}: {e}"[:300], time.time() - t0


_G = {}


def select(cases, tier, rng):
    if tier == "thorough":
        return list(cases)
    # quick: one case of every kind (two of bvp_chan), seeded
    by = {}
    for c in cases:
        by.setdefault(c["kind"], []).append(c)
    kinds = ["bvp_chan", "robust_exact", "ivp_s", "lin", "bvp_s", "bvp_off", "robust_smooth", "robust_core", "lap", "mol"]
    rng.shuffle(kinds)
    picked = [rng.choice(by["bvp_chan"]),
              rng.choice([c for c in by["bvp_s"] if c["rcut"] and c["boundary"] == "auto"]),   # boundary value matters
              rng.choice([c for c in by["mol"] if len(c["atoms"]) == 3]),
              rng.choice([c for c in by["lap"] if len(c["atoms"]) >= 2]),                       # Laplacian on a molecular grid
              rng.choice([c for c in by["robust_exact"] + by["robust_core"] if len(c["atoms"]) == 2])]   # two elements
    for k in kinds:
        pool = by[k] if k != "lap" else [c for c in by[k] if any(t["l"] > 0 for t in c["terms"])]   # exercises l(l+1)
        picked.append(rng.choice(pool))
    return picked


def run(tier: str, _cases=None) -> int:
    rep = Report(PROP, tier, "exploration")
    rng = random.Random(rep.seed)
    wd = tlc.scratch(f"{PROP}-{tier}")
    res, cases, orc, table = spec_run(wd)
    rep.tlc(res, "MC_Poisson")
    if res.status == "violation":
        st = tlc.last_state(res)
        rep.violation(f"model:{','.join(res.violated)}", f"TLC: invariant(s) {res.violated} of Poisson.tla violated; last state {st}", st)
        return rep.finish()
    rep.set("cases_in_model", len(cases))
    # the vectorised evaluator against the trusted 50-digit one
    env = {"x": np.array([0.3, -1.2, 0.01]), "y": np.array([0.2, 0.4, -0.02]), "z": np.array([-0.5, 2.0, 0.03]),
           "alpha": 1.7}
    env["r"] = np.sqrt(env["x"] ** 2 + env["y"] ** 2 + env["z"] ** 2)
    worst = 0.0
    for l in ("0", "1", "2"):
        for ch in orc.p["chan"][l]:
            for k in ("rho", "pot", "lap"):
                if not (l == "0" and k == "pot" and False):
                    worst = max(worst, selfcheck(ch[k], env, n=3))
    worst = max(worst, selfcheck(orc.c["s"]["Vr"], env, n=3), selfcheck(orc.p["laps"], env, n=3))
    rep.set("np_eval_vs_expr_eval", worst)
    if not worst < 1e-9:
        raise tlc.MachineryError(f"vectorised evaluator disagrees with expr_eval: {worst}")

    sel = _cases(cases) if _cases is not None else select(cases, tier, rng)
    _G["orc"], _G["table"] = orc, table
    import multiprocessing as mp
    calib = {}
    times = {}
    with mp.get_context("fork").Pool(16 if tier == "thorough" else 11) as pool:
        results = list(pool.imap_unordered(_worker, [(c, rep.seed) for c in sel]))
    bycase = {c["id"]: c for c in sel}
    for cid, out, err, secs in sorted(results, key=lambda r: r[0]):
        c = bycase[cid]
        brief = {"id": cid, "kind": c["kind"], "grid": c["grid"], "atoms": c["atoms"], "terms": c["terms"],
                 "origin": c["origin"], "ode": c["ode"], "rcut": c["rcut"], "boundary": c["boundary"], "split2": c["split2"], "elements": c["elements"],
                 "results": [(k, d) for k, d, _ in out], "exception": err, "seconds": round(secs, 2)}
        rep.evaluated(1, (cid,))
        rep.sample(brief)
        times[c["kind"]] = max(times.get(c["kind"], 0.0), secs)
        if err is not None:
            rep.violation(f"{c['kind']}:case={cid}:raises", f"case {cid} ({c['kind']}): the library raised {err}", brief)
            continue
        for clause, dev, _ in out:
            g = calib.setdefault(clause, [0.0, 0])
            g[0] = max(g[0], dev) if np.isfinite(dev) else float("inf")
            g[1] += 1
            if not dev <= TOL[clause]:
                rep.violation(f"{clause}:case={cid}",
                              f"case {cid} ({c['kind']}), clause {clause}: relative deviation {dev:.3g} from the specification's "
                              f"oracle exceeds {TOL[clause]:g}", brief)
    rep.set("calibration", {k: {"worst": v[0], "n": v[1], "accepted": TOL[k]} for k, v in sorted(calib.items())})
    rep.set("max_seconds_per_kind", {k: round(v, 1) for k, v in times.items()})
    rep.set("rule", "one evaluation = one case (grid, centres, density, options) solved and compared at 30 points per atom; "
                    "distinct = distinct case ids; every density is a non-trivial combination of Gaussians inside the envelope")
    rep.assume("s-type oracle: Coulomb.tla (verified in C17); channel oracles: Poisson.tla; evaluation by vf/np_eval.py "
               "(cross-checked against vf/expr_eval.py in every run)")
    return rep.finish()


def selftest(tier: str = "quick") -> int:
    """In-process mutants of grid.poisson / grid.robust_poisson (never touches /repo)."""
    from ..mutants import run_mutants, src
    P, R = "grid.poisson", "grid.robust_poisson"
    rb = (("grid.robust_poisson", "solve_poisson_bvp"),)
    mutants = [
        ("bvp-rhs-sign", src(P, "return radial_components[i_spline](r) * -4 * np.pi * r", "return radial_components[i_spline](r) * 4 * np.pi * r", rb)),
        ("bvp-rhs-2pi", src(P, "return radial_components[i_spline](r) * -4 * np.pi * r", "return radial_components[i_spline](r) * -2 * np.pi * r", rb)),
        ("bvp-rhs-missing-r", src(P, "return radial_components[i_spline](r) * -4 * np.pi * r", "return radial_components[i_spline](r) * -4 * np.pi", rb)),
        ("bvp-boundary-times-Y00", src(P, "        boundary = atomgrid.integrate(func_vals) / sph_o_l[0, 0]\n\n    # Check if the domain",
                                       "        boundary = atomgrid.integrate(func_vals) * sph_o_l[0, 0]\n\n    # Check if the domain", rb)),
        ("bvp-l(l+1)-becomes-l*l", src(P, "                    a = -l_deg * (l_deg + 1) / r**2\n                # Note that this assumes",
                                       "                    a = -l_deg * l_deg / r**2\n                # Note that this assumes", rb)),
        ("aim-weights-omitted", src(P, "    func_vals_atom = func_vals * molgrid.aim_weights\n    # Go through each atomic grid and construct interpolation of f*w_n.\n    interpolate_funcs = []\n    for i in range(len(molgrid.atcoords)):\n        # Get the atomic grid",
                                    "    func_vals_atom = func_vals * 1.0\n    # Go through each atomic grid and construct interpolation of f*w_n.\n    interpolate_funcs = []\n    for i in range(len(molgrid.atcoords)):\n        # Get the atomic grid", rb)),
        ("molecular-sum-skips-last-atom", src(P, "        for interpolate in interpolate_funcs[1:]:\n            output += interpolate(points)\n        return output\n\n    return sum_of_interpolation_functions",
                                              "        for interpolate in interpolate_funcs[1:-1]:\n            output += interpolate(points)\n        return output\n\n    return sum_of_interpolation_functions", rb)),
        ("bvp-division-by-r-dropped-for-l>0", src(P, "r_values = np.array([spline(r_pts) / r_pts for spline in splines])",
                                                  "r_values = np.array([spline(r_pts) / (r_pts if k == 0 else r_pts ** 0) for k, spline in enumerate(splines)])", rb)),
        ("ivp-initial-slope-sign", src(P, "ivp = [boundary / r_max, -boundary / r_max**2.0]", "ivp = [boundary / r_max, boundary / r_max**2.0]")),
        ("ivp-first-derivative-coefficient", src(P, "                return 2.0 / r\n", "                return 1.0 / r\n")),
        ("laplacian-2/r-becomes-1/r", src(P, "second_component *= 2.0 / r_pts", "second_component *= 1.0 / r_pts")),
        ("laplacian-l(l+1)-becomes-l*l", src(P, "[[x * (x + 1)] * (2 * x + 1) for x in np.arange(0, atom_grid.l_max // 2 + 1)]",
                                             "[[x * x] * (2 * x + 1) for x in np.arange(0, atom_grid.l_max // 2 + 1)]")),
        ("robust-core-density-normalisation", src(R, "prefactor = c * (alpha / np.pi) ** 1.5", "prefactor = c * (alpha / np.pi) ** 1.5 * 1.01")),
        ("robust-core-density-ignores-centre", src(R, "r_sq = np.sum((points - center) ** 2, axis=1)\n    rho = np.zeros(len(points))",
                                                   "r_sq = np.sum((points - 0 * center) ** 2, axis=1)\n    rho = np.zeros(len(points))")),
        ("robust-drops-core-potential", src(R, "return v_core + v_bonding + v_residual", "return v_bonding + v_residual")),
        ("robust-drops-bonding-potential", src(R, "return v_core + v_bonding + v_residual", "return v_core + v_residual")),
        ("robust-core-potential-last-gaussian-dropped", src(R, "centers_rep = np.tile(center, (len(coeffs_s), 1))\n            v_core += coulomb_potential(\n                points,\n                centers_s=centers_rep,\n                coeffs_s=coeffs_s,\n                alphas_s=alphas_s,",
                                                            "centers_rep = np.tile(center, (len(coeffs_s) - 1, 1))\n            v_core += coulomb_potential(\n                points,\n                centers_s=centers_rep,\n                coeffs_s=coeffs_s[:-1],\n                alphas_s=alphas_s[:-1],")),
    ]
    return run_mutants(PROP, run, tier, mutants)


def replay(path: str) -> int:
    """Re-execute the case recorded in a replay file."""
    with open(path) as f:
        v = json.load(f)
    cid = (v.get("case") or {}).get("id")
    if cid is None:
        return run(v.get("tier", "quick"))
    from .. import evidence
    old = evidence.EVID
    evidence.EVID = tlc.GEN / f"{PROP}-replay-evidence"     # a replay must not overwrite the evidence of the tiers
    try:
        return run("thorough", _cases=lambda cases: [c for c in cases if c["id"] == cid])
    finally:
        evidence.EVID = old
