"""C16 - Poisson solvers reproduce Coulomb potentials of Gaussian charges and are linear.

Level: exploration (DESIGN.md section 5, C16).  TLC decides nothing numeric about the solvers;
it checks ``Poisson.tla`` (MC_Poisson.cfg), which EXTENDS ``Coulomb.tla``:
  * the per-channel radial equation u'' - l(l+1)/r^2 u = -4 pi r rho_lm in the {erf, E}
    differential algebra with Laurent coefficients; for the channel densities
    H_l(x,y,z) exp(-alpha r^2), l <= 2, the potential is DERIVED (erf coefficient from the multipole
    law, Gaussian part solved for on a rational lattice, unique for every alpha of a rational set,
    regular at the origin through the verified series erf = E S(r)); l = 0 reproduces C17's s-type
    potential; solid harmonics are harmonic and homogeneous; linearity;
  * the Laplacians used as oracle for interpolate_laplacian are derived symbolically (Expr!D);
  * the configuration space: 200 cases of 9 kinds (grids, centres, exponent/coefficient sets inside
    the resolution envelope, solver options), each checked admissible and emitted.
The harness replays a seeded subset: densities are evaluated on the grid from the emitted density
trees, the solvers are called, and the returned callables are compared at 30 points per atom with
the emitted potential trees.

CLAUSES, TOLERANCES (relative to max|oracle| over the evaluation points) AND CALIBRATION
(pinned tree, 2026-09-25, all 600 cases, seeds 0, 1, 2; coverage.calibration in the evidence):
  see TOL below; every entry lists measured worst sound value -> accepted.
Grids (chosen after calibration, stated in Poisson.tla): GaussLegendre(100|120) o Becke for
include_origin=True, GaussLegendre(200) o HandyRTransform(m=2) (first radial point ~1e-9) for
include_origin=False, because the solver then imposes u = 0 at the FIRST radial point and a Becke
grid (r_1 = 2e-4) gives errors of r_1 V(0) / r = 4e-3 at r = 0.05.  The ODE variable is the inverse
of the grid's own map.
include_origin=True is used only for spherical single-atom densities: with l > 0 content the
library's r = 0 node (coefficient -l(l+1)/1e-20) makes scipy's solve_bvp refine to ~36 000 nodes
with NaN residuals (50 s per channel; ValueError "didn't converge" at tol = 1e-8) - a performance /
robustness observation outside the property's accuracy statement, reported, not checked.
The zero initial guess is passed explicitly (ode_params["initial_guess_y"]): the library's default
is np.random.rand, which makes results irreproducible.

EXTENDED CONFIGURATION SPACE (``PoissonX.tla``, EXTENDS Poisson; MC_PoissonX.cfg re-checks every invariant of
MC_Poisson.cfg; case ids >= 1000, 240 per seed, 8 kinds).  Exponents, coefficients (both signs), centres, rotation
seeds and the discrete options of these cases are DRAWN in the specification from stated pools with a hash of
(XSeed = VERIF_SEED, case, slot); TLC checks every drawn case admissible (envelope, monopole not cancelling, band limit
ShellExact of pruned shells, unbounded radial range for l > 0 content and for the initial-value route, separations)
and, in the channel algebra, that the robust solver is affine but not linear in the density (AffineDerived).
  x_pruned   atomic grids with sector-wise angular degrees (AtomGrid(degrees=[per shell]) and AtomGrid.from_pruned), density
             s + l = 1 inside the band limit of every shell: bvp / Laplacian against the oracle
  x_hetmol   2-3 atoms with DIFFERENT radial sizes / maps (Handy2 160 / 180 / 200 points, HandyMod2) and atomic numbers; one
             ODE transform for all atoms; default (random) initial guess under a fixed NumPy seed; + linearity or Laplacian
  x_law      V_robust[rho; o] = V_core(oracle) + V_bvp[rho - rho_core(oracle); o] for arbitrary option records o
             (remove_large_pts 25 / 40 / 60, explicit boundary values, include_origin) and the affine combination law
  x_defaults nothing / None / {} / the documented defaults written out / remove_large_pts = None give the same potential;
             initial-value route with other intervals and integrators (RK45, LSODA, DOP853); Laplacian cut_off argument
  x_forms    density as float32 / list / longdouble / read-only / strided / the same object twice; points as float32 / read-only /
             Fortran order / strided / longdouble / a single point; atomic grid wrapped as one-atom MolGrid; robust solver with
             atnums / atcoords / density / points / alphas_basis as lists, int32, float, int; second evaluation of a callable
  x_pts      evaluation points 1e-6 .. 0.05 from a centre, 8 .. 500 away, and exactly AT the centres (known finding, see
             known_findings.d/C16.json and gen/proposals/C16-bvp-potential-at-centre.diff)
  x_tf       further 1-D rules under the Becke map (GaussChebyshev, type 2, FejerFirst, Trapezoidal and ClenshawCurtis, whose
             grids contain r = 0 and r = 1e16 themselves), LinearFinite / LinearInfinite / HandyMod maps, other Handy parameters
  x_lin      linearity of the initial-value route and of the Laplacian, weights from a pool with 0 and both signs, two-atom
             grids; zero density -> zero potential
Every extended case also checks that the density, the points, the option dictionary and the atom arrays are unchanged.
Calibration of the new tolerances: XTOL below.  Not covered (see the audit report): include_origin=True with l > 0
content (solver thrashes, see above), the default r_interval of the initial-value route (integrates below the first radial
point), points given as Python lists to the plain solvers (AttributeError in AtomGrid.convert_cartesian_to_spherical - the
parameter is documented as ndarray), float32 densities for the Laplacian (differentiation amplifies the rounding).
"""
from __future__ import annotations

import json
import random
import time
import warnings
from fractions import Fraction

import numpy as np

from .. import tlc, tlcx
from ..evidence import Report
from ..np_eval import np_eval, selfcheck
from . import c17

PROP = "C16"
NPTS = 30
BVP_TOL = 1e-6
# clause -> accepted relative deviation (see docstring / coverage.calibration)
TOL = {                     # measured worst over all 600 cases, seeds 0/1/2  -> accepted   (orders of margin)
    "bvp_s": 3e-4,          # 4.9e-6   (1.8)  centred s-Gaussian combinations, include_origin both ways
    "bvp_chan": 3e-4,       # 9.7e-6   (1.5)  s + pure l = 1, 2 channel densities
    "bvp_off": 5e-3,        # 1.3e-4   (1.6)  off-centre Gaussian (truncation of the l-expansion at deg // 2)
    "mol": 4e-2,            # 1.1e-3   (1.56) 2-3 centres >= 7 bohr apart, Becke weights, degree <= 7
    "ivp_s": 3e-3,          # 8.5e-5   (1.55) initial-value route, spherical, r >= 0.2
    "lin": 20 * BVP_TOL,    # 5.0e-9   (3.6)  |V[a rho1 + b rho2] - a V[rho1] - b V[rho2]|
    "robust_exact": 1e-10,  # 4.8e-16  (5.3)  rho = fitted core model: residual vanishes
    "robust_core": 2e-3,    # 5.2e-5   (1.6)  rho = core model + smooth part, every element, split2 both ways
    "robust_smooth": 1e-1,  # 2.9e-3   (1.54) rho smooth, H / C core model subtracted and re-added
    "robust_vs_plain": 1.2e-1,  # 3.7e-3 (1.5)
    "lap": 4e-2,            # 1.4e-3   (1.46) interpolate_laplacian vs symbolic Laplacian, 0.3 <= r <= 3
}
# ---- clauses of PoissonX.tla (extended configuration space, case ids >= 1000).  Existing clause names (bvp_s, bvp_chan,
# mol, lin, lap, ivp_s) are reused with their tolerances above; measured worst over the 240 x 3 cases of seeds 0, 1, 2
# (gen/c16-audit/calib.py, 2026-09-26) for those: bvp_s 5.3e-6, bvp_chan 6.5e-6, lap 9.7e-4, lin 5.6e-9, mol 2.3e-4, ivp_s 1.5e-4
# (interval / integrator variants; 1.3 orders).  New clauses: measured worst (orders of margin) and what the clause is.
# Mutants that each new clause detects: selftest below (deviations 1e-7 for the exact classes, 1e-2 .. inf for the others).
XTOL = {
    "mol_het": 4e-2,            # 3.2e-4 (2.1)  molecular grids whose atoms differ in radial size / map / atomic number (tolerance of "mol")
    "lap_het": 4e-2,            # 1.2e-3 (1.5)  Laplacian on such grids (tolerance of "lap")
    "robust_law": 1e-10,        # 8.1e-16 (5.1)  V_robust[rho; o] - V_core(oracle) - V_bvp[rho - rho_core(oracle); o]: same
                                #           floating-point operations up to the summation order of the core density
    "robust_affine": 20 * BVP_TOL,  # 5.4e-8 (2.6)  weights a, 1 - a (tolerance of "lin": derived from the BVP tolerance)
    "defaults_eq": 1e-10,       # 0 (bitwise)  option records denoting the same call: identical problems, identical meshes
    "lap_cut": 1e-12,           # 0 (bitwise)  cut_off below every evaluation radius: no effect
    "form_exact": 1e-12,        # 3.6e-15 (2.4)  PoissonX.tla prec = 12: same numbers in another container / layout / wider dtype
    "form_single": 1e-5,        # 1.9e-7 (1.7)  prec = 5: argument rounded to float32 (eps = 6e-8)
    "form_ivp": 3e-3,           # 1.3e-4 (1.4)  initial-value route: both results within ivp_s of the truth (derived)
    "ivp_tf": 3e-3,             # 1.2e-4 (1.4)  initial-value route on the further rules / maps (tolerance of ivp_s)
    "lin_ivp": 3e-3,            # 4.4e-5 (1.8)  derived: each of the three solutions is within ivp_s of its truth
    "lin_lap": 1e-10,           # 2.6e-13 (2.6)  splines and sums are linear: rounding only
    "zero": 1e-12,              # 0  absolute: zero density -> zero potential
    "pts_near": 3e-4,           # 6.3e-6 (1.7)  1e-6 (r = 0 in the mesh) / 1e-3 (first point 1e-9) <= r <= 0.05: tolerance of bvp_s
    "pts_far": 3e-4,            # 1.5e-5 (1.3)  8 <= r <= 500
    "pts_centre": 3e-4,         # exactly at the centre: KNOWN FINDING (1.0 measured; 2.4e-6 with the proposed repair)
    "pts_near_mol": 4e-2,       # 1.6e-4 (2.4)  tolerance of "mol"
    "pts_far_mol": 4e-2,        # 3.5e-4 (2.1)
    "pts_centre_mol": 4e-2,     # KNOWN FINDING (0.96-1.02 measured; 1e-3 with the proposed repair)
    "repeat": 1e-15,            # 0 (bitwise)  the same callable evaluated twice on the same points
    "unchanged": 0.5,           # 0 / 1: an argument was modified by the call
}
TOL.update(XTOL)

# Margins are 1.5 orders (not 3) on the sound side because the solvers' own accuracy on these grids is
# 1e-5..1e-3; the defects targeted (4 pi / sign, r factor, boundary value, l(l+1), weights omitted, core
# normalisation, dropped term) change the result by 1e-1..1 (selftest), i.e. >= 1.5 orders above.


def fr(q):
    return Fraction(int(q[0]), int(q[1]))


def vec(p):
    return np.array([float(fr(q)) for q in p])


class Oracles:
    def __init__(self, ctrees, ptrees):
        self.c = ctrees
        self.p = ptrees

    def _chan(self, l, i):
        return self.p["chan"][str(l)][i - 1]

    def term_env(self, term, atom, pts):
        cen = atom + vec(term["d"])
        rel = pts - cen
        r = np.sqrt(np.sum(rel * rel, axis=1))
        return {"x": rel[:, 0], "y": rel[:, 1], "z": rel[:, 2], "r": r, "alpha": float(fr(term["alpha"]))}

    def rho(self, term, atom, pts):
        env = self.term_env(term, atom, pts)
        c = float(fr(term["c"]))
        if term["l"] == 0:
            return c * np_eval(self.c["s"]["RhoDoc"], env)
        return c * np_eval(self._chan(term["l"], term["i"])["rho"], env)

    def pot(self, term, atom, pts):
        env = self.term_env(term, atom, pts)
        c = float(fr(term["c"]))
        with np.errstate(all="ignore"):
            if term["l"] == 0:
                v = np.asarray(np_eval(self.c["s"]["Vr"], env), dtype=float)
                v0 = float(np_eval(self.c["s"]["V0"], {"alpha": env["alpha"]}))
                return c * np.where(env["r"] > 0, v, v0)
            return c * np.asarray(np_eval(self._chan(term["l"], term["i"])["pot"], env), dtype=float)

    def lap(self, term, atom, pts):
        env = self.term_env(term, atom, pts)
        c = float(fr(term["c"]))
        if term["l"] == 0:
            return c * np_eval(self.p["laps"], env)
        return c * np_eval(self._chan(term["l"], term["i"])["lap"], env)


def spec_run(wd, seed=0):
    with open(c17.JSON_PARAMS) as f:
        table = json.load(f)
    keys = list(table)
    c17.write_tables(wd, keys, [len(table[k]["alphas_s"]) for k in keys], maxalpha=[max(table[k]["alphas_s"]) for k in keys])
    # PoissonX.tla EXTENDS Poisson.tla: MC_PoissonX.cfg checks every invariant of MC_Poisson.cfg plus the extended
    # configuration space / laws; XSeed = VERIF_SEED selects the seed-drawn exponents, coefficients, centres, options
    (wd / "Tables_poissonx.tla").write_text("---- MODULE Tables_poissonx ----\n\\* generated by vf/props/c16.py\n"
                                            f"XSeed == {int(seed) % 1000003}\n====\n")
    res = tlc.run_tlc("PoissonX", "MC_PoissonX.cfg", wd, workers=8, timeout=900).require_ok("MC_PoissonX")
    cases = [t[1] for t in tlcx.tagged(res.stdout, "CASE")]
    if res.status == "ok" and (not cases or len(cases) != res.stdout.count('"CASE"')):
        raise tlc.MachineryError("could not parse the cases emitted by Poisson.tla")
    xcases = [t[1] for t in tlcx.tagged(res.stdout, "XCASE")]
    if res.status == "ok" and (not xcases or len(xcases) != res.stdout.count('"XCASE"')):
        raise tlc.MachineryError("could not parse the cases emitted by PoissonX.tla")
    cases = cases + xcases
    cases.sort(key=lambda c: c["id"])
    with open(wd / "coulomb_trees.json") as f:
        ctrees = json.load(f)
    with open(wd / "poisson_trees.json") as f:
        ptrees = json.load(f)
    return res, cases, Oracles(ctrees, ptrees), table


# ---------------------------------------------------------------------------------------------

def eval_points(atoms, seed, lo=0.05, hi=8.0):
    rng = np.random.default_rng(seed)
    out = []
    for a in atoms:
        d = rng.normal(size=(NPTS, 3))
        d /= np.linalg.norm(d, axis=1)[:, None]
        out.append(a + d * (10 ** rng.uniform(np.log10(lo), np.log10(hi), size=NPTS))[:, None])
    return np.vstack(out)


def run_case(case, orc, table, seed):
    """Execute one case.  Returns list of (clause, relative deviation, detail) and list of errors."""
    from grid.atomgrid import AtomGrid
    from grid.becke import BeckeWeights
    from grid.molgrid import MolGrid
    from grid.onedgrid import GaussLegendre
    from grid.poisson import interpolate_laplacian, solve_poisson_bvp, solve_poisson_ivp
    from grid.robust_poisson import solve_poisson_robust
    from grid.rtransform import BeckeRTransform, HandyRTransform, InverseRTransform

    g = case["grid"]
    n = int(g["n"])
    if g["map"] == "Becke":
        tf = BeckeRTransform(float(fr(g["rmin"])), float(fr(g["R"])))
    else:
        tf = HandyRTransform(float(fr(g["rmin"])), float(fr(g["R"])), 2)
    rg = tf.transform_1d_grid(GaussLegendre(n))
    itf = InverseRTransform(tf if case["ode"] == "inverse-of-grid-map" else BeckeRTransform(0.0, 1.5))
    atoms = [vec(a) for a in case["atoms"]]
    # three of four cases use randomly rotated angular shells (AtomGrid(..., rotate=seed)): the expansions must
    # use the angles of the points the grid really has
    rot = (int(case["id"]) % 4) * 7
    ags = [AtomGrid(rg, degrees=[int(g["deg"])], center=a, rotate=rot + k if rot else 0) for k, a in enumerate(atoms)]
    if len(ags) == 1:
        grid = ags[0]
    else:
        grid = MolGrid(np.array([1] * len(ags)), ags, BeckeWeights(order=3), store=True)
    origin = bool(case["origin"])
    radial = np.hstack(([0.0], rg.points)) if (origin and np.all(rg.points > 0.0)) else rg.points
    rcut = float(case["rcut"]) if case["rcut"] else 1e6
    nrad = int(np.sum(radial <= rcut))         # the solver drops radial points > remove_large_pts (default 1e6)
    ode = {"tol": BVP_TOL, "initial_guess_y": np.zeros((2, nrad))}
    kw = {"include_origin": origin, "ode_params": ode}
    if case["rcut"]:
        kw["remove_large_pts"] = rcut
    terms = case["terms"]
    owner = [atoms[k % len(atoms)] for k in range(len(terms))]
    P = eval_points(atoms, seed * 1000 + case["id"])
    out = []

    def dens(ts, ows, pts):
        return sum(orc.rho(t, a, pts) for t, a in zip(ts, ows))

    def pot(ts, ows, pts):
        return sum(orc.pot(t, a, pts) for t, a in zip(ts, ows))

    def rel(got, ex):
        return float(np.max(np.abs(np.asarray(got, dtype=float) - ex)) / np.max(np.abs(ex)))

    kind = case["kind"]
    with warnings.catch_warnings():
        warnings.simplefilter("ignore")
        if kind in ("bvp_s", "bvp_chan", "bvp_off", "mol"):
            if case["boundary"] == "exact":
                q = sum(float(fr(t["c"])) for t in terms if t["l"] == 0)   # Coulomb!ErfCoefIsCharge: charge of a normalised s term = c
                kw["boundary"] = float(q * np.sqrt(4 * np.pi))            # documented: limit of r V_00 = Q / Y_00
            v = solve_poisson_bvp(grid, dens(terms, owner, grid.points), itf, **kw)
            out.append((kind, rel(v(P), pot(terms, owner, P)), None))
        elif kind == "lin":
            a, b = float(fr(case["lin"][0])), float(fr(case["lin"][1]))
            r1 = dens(terms[:1], owner[:1], grid.points)
            r2 = dens(terms[1:], owner[1:], grid.points)
            v12 = solve_poisson_bvp(grid, a * r1 + b * r2, itf, **kw)(P)
            v1 = solve_poisson_bvp(grid, r1, itf, **kw)(P)
            v2 = solve_poisson_bvp(grid, r2, itf, **kw)(P)
            scale = np.max(np.abs(a * v1)) + np.max(np.abs(b * v2))
            out.append(("lin", float(np.max(np.abs(v12 - a * v1 - b * v2)) / scale), None))
            out.append(("bvp_chan", rel(v12, a * pot(terms[:1], owner[:1], P) + b * pot(terms[1:], owner[1:], P)), None))
        elif kind == "ivp_s":
            rho = dens(terms, owner, grid.points)
            v = solve_poisson_ivp(grid, rho, itf, r_interval=(1000.0, 1e-3))
            Pi = eval_points(atoms, seed * 1000 + case["id"], lo=0.2, hi=8.0)
            out.append(("ivp_s", rel(v(Pi), pot(terms, owner, Pi)), None))
        elif kind in ("robust_exact", "robust_smooth", "robust_core"):
            atnums = np.array([_Z[e] for e in case["elements"]])
            atcoords = np.array(atoms)
            ts, ows = [], []
            if kind in ("robust_exact", "robust_core"):
                for e, a in zip(case["elements"], atoms):
                    for c, al in zip(table[e]["coeffs_s"], table[e]["alphas_s"]):
                        ts.append({"l": 0, "i": 1, "c": _q(c), "alpha": _q(al), "d": [[0, 1]] * 3})
                        ows.append(a)
            if kind in ("robust_smooth", "robust_core"):
                ts, ows = ts + list(terms), ows + list(owner)
            rho = dens(ts, ows, grid.points)
            v = solve_poisson_robust(grid, rho, itf, atnums, atcoords, split2=bool(case["split2"]), **kw)
            ex = pot(ts, ows, P)
            out.append((kind, rel(v(P), ex), None))
            if case["split2"]:
                # "split options": a user-supplied exponent basis listed from tight to diffuse (as basis-set
                # files do) spans the same functions as an ascending one and must serve equally well
                basis = np.geomspace(0.05, 5000.0, 20)[::-1].copy()
                v2 = solve_poisson_robust(grid, rho, itf, atnums, atcoords, split2=True, alphas_basis=basis, **kw)
                out.append((kind, rel(v2(P), ex), None))
            if kind == "robust_smooth":
                plain = solve_poisson_bvp(grid, rho, itf, **kw)(P)
                out.append(("robust_vs_plain", float(np.max(np.abs(v(P) - plain)) / np.max(np.abs(ex))), None))
        elif kind == "lap":
            f = dens(terms, owner, grid.points)
            lap = interpolate_laplacian(grid, f)
            Pl = eval_points(atoms, seed * 1000 + case["id"], lo=0.3, hi=3.0)
            ex = sum(orc.lap(t, a, Pl) for t, a in zip(terms, owner))
            out.append(("lap", rel(lap(Pl.copy()), ex), None))
        else:
            raise tlc.MachineryError(f"unknown case kind {kind}")
    return out


# ---------------------------------------------------------------------------------------------
# Extended configuration space (PoissonX.tla, case ids >= 1000)

_RULES = ("GaussLegendre", "GaussChebyshev", "GaussChebyshevType2", "FejerFirst", "Trapezoidal", "ClenshawCurtis", "UniformInteger")


def x_transform(g):
    from grid import rtransform as rt
    rmin, big = float(fr(g["rmin"])), float(fr(g["R"]))
    m = g["map"]
    if m == "Becke":
        return rt.BeckeRTransform(rmin, big)
    if m == "Handy2":
        return rt.HandyRTransform(rmin, big, 2)
    if m == "HandyMod2":
        return rt.HandyModRTransform(rmin, big, 2)
    if m == "LinFinite":
        return rt.LinearFiniteRTransform(rmin, big)
    if m == "LinInf":
        return rt.LinearInfiniteRTransform(rmin, big)
    raise tlc.MachineryError(f"unknown radial map {m}")


def x_rgrid(g):
    from grid import onedgrid
    if g["rule"] not in _RULES:
        raise tlc.MachineryError(f"unknown 1-D rule {g['rule']}")
    return x_transform(g).transform_1d_grid(getattr(onedgrid, g["rule"])(int(g["n"])))


def x_atomgrid(case, j, centre):
    """Atomic grid of atom j as the case describes it (uniform degree, or sector-wise degrees by either constructor)."""
    from grid.atomgrid import AtomGrid
    g = case["grids"][j]
    rg = x_rgrid(g)
    rot = int(case["rot"]) + j
    pr = case["pruned"]
    if not pr["degs"]:
        return AtomGrid(rg, degrees=[int(g["deg"])], center=centre, rotate=rot)
    cuts = np.array([float(fr(q)) for q in pr["cuts"]])
    degs = [int(d) for d in pr["degs"]]
    method = "lebedev"
    if int(case["id"]) % 2 == 1:
        # every second pruned case on maximum-determinant grids of the EVEN degree d - 1: the same band limit d // 2 per
        # shell as the odd Lebedev degree d the specification names (PoissonX!ShellExact speaks about d \div 2 only)
        method, degs = "maxdet", [d - 1 if d % 2 else d for d in degs]
    if case["ctor"] == "from_pruned":
        ag = AtomGrid.from_pruned(rg, 1.0, r_sectors=cuts, d_sectors=degs, center=centre, rotate=rot, method=method)
    else:
        # PoissonX.tla: the shell of radius r gets degs[1 + #{j : cuts[j] < r}]
        ag = AtomGrid(rg, degrees=[degs[int(np.searchsorted(cuts, r, side="left"))] for r in rg.points], center=centre, rotate=rot,
                      method=method)
    if not set(int(d) for d in ag.degrees) <= set(degs):
        raise tlc.MachineryError(f"pruned grid has degrees {sorted(set(ag.degrees))}, the case admits {degs}")
    return ag


def _form_of(a, form):
    """The same numbers in another representation (PoissonX.tla XFuncForms / XPointForms)."""
    a = np.asarray(a, dtype=float)
    if form == "float32":
        return a.astype(np.float32)
    if form == "list":
        return a.tolist()
    if form == "longdouble":
        return a.astype(np.longdouble)
    if form == "readonly":
        b = a.copy()
        b.flags.writeable = False
        return b
    if form == "strided":
        return np.repeat(a, 2, axis=0)[::2]
    if form == "fortran":
        return np.asfortranarray(a)
    if form in ("same-object-twice", "float64"):
        return a.copy()
    raise tlc.MachineryError(f"unknown form {form}")


def run_xcase(case, orc, table, seed):
    """One case of PoissonX.tla.  Returns [(clause, deviation, detail)]."""
    from grid.atomgrid import AtomGrid
    from grid.becke import BeckeWeights
    from grid.molgrid import MolGrid
    from grid.poisson import interpolate_laplacian, solve_poisson_bvp, solve_poisson_ivp
    from grid.robust_poisson import solve_poisson_robust
    from grid.rtransform import InverseRTransform

    kind, cid = case["kind"], int(case["id"])
    atoms = [vec(a) for a in case["atoms"]]
    nat = len(atoms)
    ags = [x_atomgrid(case, j, a) for j, a in enumerate(atoms)]
    if nat == 1:
        grid = ags[0]
    else:
        grid = MolGrid(np.array([int(z) for z in case["atnums"]]), ags, BeckeWeights(order=3), store=True)
    itf = InverseRTransform(x_transform(case["ode"]))
    origin = bool(case["origin"])
    rcut = float(case["rcut"]) if case["rcut"] else 1e6

    def nrad(ag):
        pts = ag.rgrid.points
        radial = np.hstack(([0.0], pts)) if (origin and np.all(pts > 0.0)) else pts
        return int(np.sum(radial <= rcut))

    same_n = len({nrad(a) for a in ags}) == 1
    # one initial guess serves every atom only if all atoms have the same number of radial points; otherwise the
    # library's default guess (np.random.rand) is used with a fixed NumPy seed (the problems are linear: the
    # converged solution does not depend on the guess - clause defaults_eq measures that)
    ode = {"tol": BVP_TOL, "initial_guess_y": np.zeros((2, nrad(ags[0])))} if same_n else {"tol": BVP_TOL}
    kw = {"include_origin": origin, "ode_params": ode}
    if case["rcut"]:
        kw["remove_large_pts"] = rcut
    if case["boundary"] != "auto":
        kw["boundary"] = float(fr(case["boundary"]))
    terms = case["terms"]
    owner = [atoms[k % nat] for k in range(len(terms))]
    pseed = seed * 1000 + cid
    P = eval_points(atoms, pseed)
    Pl = eval_points(atoms, pseed, lo=0.3, hi=3.0)
    Pi = eval_points(atoms, pseed, lo=0.2, hi=8.0)
    out = []

    def dens(ts, ows, pts):
        return sum(orc.rho(t, a, pts) for t, a in zip(ts, ows))

    def pot(ts, ows, pts):
        return sum(orc.pot(t, a, pts) for t, a in zip(ts, ows))

    def lapl(ts, ows, pts):
        return sum(orc.lap(t, a, pts) for t, a in zip(ts, ows))

    def rel(got, ex):
        return float(np.max(np.abs(np.asarray(got, dtype=float) - ex)) / np.max(np.abs(ex)))

    def reldiff(a, b):
        a, b = np.asarray(a, dtype=float), np.asarray(b, dtype=float)
        if a.shape != b.shape:
            return float("inf")
        return float(np.max(np.abs(a - b)) / max(np.max(np.abs(b)), 1e-300))

    def bvp(f, **over):
        np.random.seed(20240916)
        k2 = dict(kw)
        k2.update(over)
        return solve_poisson_bvp(grid, f, itf, **k2)

    def unchanged(tag, *pairs):
        bad = [n for n, now, before in pairs if not _same(now, before)]
        out.append(("unchanged", 1.0 if bad else 0.0, f"{tag}: {bad}" if bad else None))

    spherical = all(t["l"] == 0 for t in terms)
    rho = dens(terms, owner, grid.points)
    rho0, P0 = rho.copy(), P.copy()
    with warnings.catch_warnings():
        warnings.simplefilter("ignore")
        if kind == "x_pruned":
            v = bvp(rho)
            out.append(("bvp_chan", rel(v(P), pot(terms, owner, P)), None))
            Pl0 = Pl.copy()
            if case["lap"]:
                lap = interpolate_laplacian(grid, rho)
                out.append(("lap", rel(lap(Pl), lapl(terms, owner, Pl0)), None))
            unchanged("bvp/lap", ("density", rho, rho0), ("points", P, P0), ("lap points", Pl, Pl0))
        elif kind == "x_hetmol":
            ode0 = dict(ode)
            v = bvp(rho)
            out.append(("mol_het", rel(v(P), pot(terms, owner, P)), None))
            unchanged("bvp on a molecular grid", ("density", rho, rho0), ("points", P, P0), ("ode_params", ode, ode0))
            if cid % 2 == 0:
                a, b = float(fr(case["lin"][0])), float(fr(case["lin"][1]))
                r1, r2 = dens(terms[:1], owner[:1], grid.points), dens(terms[1:], owner[1:], grid.points)
                v12, v1, v2 = bvp(a * r1 + b * r2)(P), bvp(r1)(P), bvp(r2)(P)
                out.append(("lin", float(np.max(np.abs(v12 - a * v1 - b * v2)) / (np.max(np.abs(a * v1)) + np.max(np.abs(b * v2)))), None))
            else:
                lap = interpolate_laplacian(grid, rho)
                out.append(("lap_het", rel(lap(Pl.copy()), lapl(terms, owner, Pl)), None))
        elif kind == "x_law":
            atnums = np.array([_Z[e] for e in case["elements"]])
            atcoords = np.array(atoms)
            cs = float(fr(case["corescale"]))
            cts, cows = [], []
            for e, a in zip(case["elements"], atoms):
                for c, al in zip(table[e]["coeffs_s"], table[e]["alphas_s"]):
                    cts.append({"l": 0, "i": 1, "c": _q(c), "alpha": _q(al), "d": [[0, 1]] * 3})
                    cows.append(a)
            core = dens(cts, cows, grid.points)
            full = cs * core + rho
            full0 = full.copy()
            vr = solve_poisson_robust(grid, full, itf, atnums, atcoords, **kw)(P)
            vb = bvp(full - core)(P)
            out.append(("robust_law", float(np.max(np.abs(vr - pot(cts, cows, P) - vb)) / np.max(np.abs(vr))), None))
            a = float(fr(case["aff"]))
            v2 = solve_poisson_robust(grid, rho, itf, atnums, atcoords, **kw)(P)
            v12 = solve_poisson_robust(grid, a * full + (1 - a) * rho, itf, atnums, atcoords, **kw)(P)
            out.append(("robust_affine", float(np.max(np.abs(v12 - a * vr - (1 - a) * v2))
                                               / (np.max(np.abs(a * vr)) + np.max(np.abs((1 - a) * v2)))), None))
            unchanged("robust", ("density", full, full0), ("points", P, P0), ("atcoords", atcoords, np.array(atoms)),
                      ("atnums", atnums, np.array([_Z[e] for e in case["elements"]])))
        elif kind == "x_defaults":
            if not np.max(grid.rgrid.points) <= 1e6:
                raise tlc.MachineryError("x_defaults needs a radial grid without points beyond 1e6")
            ex = pot(terms, owner, P)
            vals = []
            for ov in case["optvariants"]:
                k2 = {}
                if ov["boundary"] == "None":
                    k2["boundary"] = None
                if ov["include_origin"] == "True":
                    k2["include_origin"] = True
                if ov["remove_large_pts"] == "1e6":
                    k2["remove_large_pts"] = 1e6
                elif ov["remove_large_pts"] == "None":
                    k2["remove_large_pts"] = None
                if ov["ode_params"] == "None":
                    k2["ode_params"] = None
                elif ov["ode_params"] == "empty":
                    k2["ode_params"] = {}
                np.random.seed(20240916)
                vals.append(np.asarray(solve_poisson_bvp(grid, rho, itf, **k2)(P), dtype=float))
            out.append(("bvp_s", rel(vals[0], ex), "no options given"))
            out.append(("defaults_eq", max(reldiff(v, vals[0]) for v in vals[1:]), None))
            exi = pot(terms, owner, Pi)
            gi = dict(case, grids=[case["ivpgrid"]], pruned={"cuts": [], "degs": []})
            agi = x_atomgrid(gi, 0, atoms[0])
            itfi = InverseRTransform(x_transform(case["ivpgrid"]))
            rhoi = dens(terms, owner, agi.points)
            worst, which = 0.0, None
            for iv in case["ivpvariants"]:
                k2 = {"r_interval": (float(fr(iv["b"])), float(fr(iv["a"])))}
                if iv["method"] != "omit":
                    k2["ode_params"] = {"method": iv["method"]}
                d = rel(solve_poisson_ivp(agi, rhoi, itfi, **k2)(Pi), exi)
                if not d <= worst:
                    worst, which = d, f"r_interval={k2['r_interval']}, method={iv['method']}"
            out.append(("ivp_s", worst, which))
            lap = interpolate_laplacian(grid, rho)
            l0 = lap(Pl.copy())
            dev = 0.0
            for n, c in enumerate(case["cutoffs"]):
                if c == [0, 1]:
                    got = lap(Pl.copy())
                elif n % 2:
                    got = lap(Pl.copy(), float(fr(c)))
                else:
                    got = lap(Pl.copy(), cut_off=float(fr(c)))
                dev = max(dev, reldiff(got, l0))
            out.append(("lap_cut", dev, None))
            unchanged("defaults", ("density", rho, rho0), ("points", P, P0))
        elif kind == "x_forms":
            _x_forms(case, out, grid, ags, itf, kw, rho, P, Pl, Pi, spherical, table, atoms, reldiff, bvp,
                     lambda pts: pot(terms, owner, pts), orc)
            unchanged("forms", ("density", rho, rho0), ("points", P, P0))
        elif kind == "x_pts":
            v = bvp(rho)
            suf = "_mol" if nat > 1 else ""
            for ps in case["pointsets"]:
                if ps["name"] == "centre":
                    pts = np.array(atoms)
                else:
                    pts = eval_points(atoms, pseed + 7, lo=float(fr(ps["lo"])), hi=float(fr(ps["hi"])))
                got = np.asarray(v(pts.copy()), dtype=float)
                ex = pot(terms, owner, pts)
                dev = rel(got, ex) if np.all(np.isfinite(got)) else float("inf")
                out.append((f"pts_{ps['name']}{suf}", dev, None))
            out.append(("repeat", reldiff(v(P), v(P)), "same callable, same points, twice"))
            unchanged("points", ("density", rho, rho0), ("points", P, P0))
        elif kind == "x_tf":
            v = bvp(rho)
            out.append(("bvp_s" if spherical else "bvp_chan", rel(v(P), pot(terms, owner, P)), None))
            if case["ivp"]:
                vi = solve_poisson_ivp(grid, rho, itf, r_interval=(1000.0, 1e-3))
                out.append(("ivp_tf", rel(vi(Pi), pot(terms, owner, Pi)), None))
            if case["lap"]:
                lap = interpolate_laplacian(grid, rho)
                out.append(("lap", rel(lap(Pl.copy()), lapl(terms, owner, Pl)), None))
            unchanged("transforms", ("density", rho, rho0), ("points", P, P0))
        elif kind == "x_lin":
            a, b = float(fr(case["lin"][0])), float(fr(case["lin"][1]))
            r1, r2 = dens(terms[:1], owner[:1], grid.points), dens(terms[1:], owner[1:], grid.points)
            r12 = a * r1 + b * r2
            sol = case["solver"]
            if sol == "ivp":
                f = lambda d: solve_poisson_ivp(grid, d, itf, r_interval=(1000.0, 1e-3))(Pi)
                name = "lin_ivp"
            elif sol == "lap":
                f = lambda d: interpolate_laplacian(grid, d)(Pl.copy())
                name = "lin_lap"
            else:
                f = lambda d: bvp(d)(P)
                name = "lin"
            v12, v1, v2 = f(r12), f(r1), f(r2)
            out.append((name, float(np.max(np.abs(v12 - a * v1 - b * v2)) / (np.max(np.abs(a * v1)) + np.max(np.abs(b * v2)))), None))
            if sol == "bvp":
                out.append(("zero", float(np.max(np.abs(f(np.zeros(grid.size))))), "zero density"))
                out.append(("bvp_s" if spherical and nat == 1 else ("mol" if nat > 1 else "bvp_chan"),
                            rel(v12, a * pot(terms[:1], owner[:1], P) + b * pot(terms[1:], owner[1:], P)), None))
        else:
            raise tlc.MachineryError(f"unknown case kind {kind}")
    return out


def _same(now, before):
    if isinstance(before, dict):
        return isinstance(now, dict) and sorted(now) == sorted(before) and all(_same(now[k], before[k]) for k in before)
    a, b = np.asarray(now), np.asarray(before)
    return a.shape == b.shape and a.dtype == b.dtype and bool(np.all(a == b))


def _x_forms(case, out, grid, ags, itf, kw, rho, P, Pl, Pi, spherical, table, atoms, reldiff, bvp, pot_rho, orc):
    """FormEquiv / Purity of PoissonX.tla: every representation of the arguments against the float64 ndarray call."""
    from grid.becke import BeckeWeights
    from grid.molgrid import MolGrid
    from grid.poisson import interpolate_laplacian, solve_poisson_bvp, solve_poisson_ivp
    from grid.robust_poisson import solve_poisson_robust

    worst = {5: 0.0, 12: 0.0, "ivp": 0.0}
    what = {5: None, 12: None, "ivp": None}

    def note(prec, dev, label):
        if label.startswith("ivp:"):
            prec = "ivp"                 # PoissonX.tla: judged with the accuracy of the initial-value route
        if not dev <= worst[prec]:
            worst[prec], what[prec] = dev, label

    ivp = (lambda f: solve_poisson_ivp(grid, f, itf, r_interval=(1000.0, 1e-3))) if spherical else None
    solvers = [("bvp", bvp, P), ("lap", lambda f: interpolate_laplacian(grid, f), Pl)]
    if ivp is not None:
        solvers.append(("ivp", ivp, Pi))
    base = {n: (s(rho), pts) for n, s, pts in solvers}
    ref = {n: np.asarray(c(pts.copy()), dtype=float) for n, (c, pts) in base.items()}
    # the density in other representations
    for k, ff in enumerate(case["funcforms"]):
        for n, s, pts in solvers:
            if n != "bvp" and (k + int(case["id"])) % 2:          # bvp sees every form, the others every second one
                continue
            if n == "lap" and ff["form"] == "float32":             # PoissonX.tla: not in the Laplacian's class
                continue
            arg = _form_of(rho, ff["form"])
            keep = np.array(arg, dtype=float)
            try:
                got = s(arg)(pts.copy())
                if ff["form"] == "same-object-twice":
                    got = s(arg)(pts.copy())                       # the same object (and the same option dictionary) again
            except Exception as e:  # noqa: BLE001
                note(ff["prec"], float("inf"), f"{n}: density as {ff['form']}: {type(e).__name__}: {e}"[:200])
                continue
            note(ff["prec"], reldiff(got, ref[n]), f"{n}: density as {ff['form']}")
            if not _same(np.array(arg, dtype=float), keep):
                out.append(("unchanged", 1.0, f"{n}: density passed as {ff['form']} was modified"))
    # the evaluation points in other representations
    for ff in case["pointforms"]:
        for n, (c, pts) in base.items():
            arg = pts[:1].copy() if ff["form"] == "single-point" else _form_of(pts, ff["form"])
            keep = np.array(arg, dtype=float)
            want = ref[n][:1] if ff["form"] == "single-point" else ref[n]
            try:
                got = c(arg)
            except Exception as e:  # noqa: BLE001
                note(ff["prec"], float("inf"), f"{n}: points as {ff['form']}: {type(e).__name__}: {e}"[:200])
                continue
            note(ff["prec"], reldiff(got, want), f"{n}: points as {ff['form']}")
            if not _same(np.array(arg, dtype=float), keep):
                out.append(("unchanged", 1.0, f"{n}: points passed as {ff['form']} were modified"))
    # the atomic grid wrapped as a molecular grid of one atom
    for ff in case["gridforms"]:
        mg = MolGrid(np.array([1]), [ags[0]], BeckeWeights(order=3), store=True)
        np.random.seed(20240916)
        note(ff["prec"], reldiff(solve_poisson_bvp(mg, rho, itf, **kw)(P), ref["bvp"]), "bvp: " + ff["form"])
        note(ff["prec"], reldiff(interpolate_laplacian(mg, rho)(Pl.copy()), ref["lap"]), "lap: " + ff["form"])
    # second evaluation of the same callables
    out.append(("repeat", max(reldiff(c(pts.copy()), ref[n]) for n, (c, pts) in base.items()), "callables evaluated a second time"))
    # the robust solver: atnums / atcoords / density / points / basis in other containers
    el = case["elements"][0]
    atnums, atcoords = np.array([_Z[el]]), np.array(atoms)
    split2 = bool(case["split2"])
    # density = core model + sgn * rho with sgn = sign of the leading coefficient: the residual after the core subtraction
    # is a combination of Gaussians with positive lead, so the NNLS fit of split2 is never empty (the bonding part of the
    # recombination is really exercised)
    cts = [{"l": 0, "i": 1, "c": _q(c), "alpha": _q(al), "d": [[0, 1]] * 3} for c, al in zip(table[el]["coeffs_s"], table[el]["alphas_s"])]
    sgn = 1.0 if fr(case["terms"][0]["c"]) > 0 else -1.0
    dens = sgn * rho + sum(orc.rho(t, atoms[0], grid.points) for t in cts)
    basis = np.array([1.0, 2.0, 5.0, 20.0, 100.0])

    def rob(d=dens, z=atnums, xyz=atcoords, pts=P, **extra):
        return np.asarray(solve_poisson_robust(grid, d, itf, z, xyz, split2=split2, **extra, **kw)(pts), dtype=float)

    r0 = rob()
    rb = rob(alphas_basis=basis) if split2 else None
    ex = sgn * pot_rho(P) + sum(orc.pot(t, atoms[0], P) for t in cts)
    out.append(("robust_core", float(np.max(np.abs(r0 - ex)) / np.max(np.abs(ex))), f"split2={split2}, default basis"))
    if split2:
        out.append(("robust_core", float(np.max(np.abs(rb - ex)) / np.max(np.abs(ex))), "split2, five-exponent basis"))
    for ff in case["robustforms"]:
        f = ff["form"]
        try:
            if f == "atnums-list":
                got, want = rob(z=[int(_Z[el])]), r0
            elif f == "atnums-int32":
                got, want = rob(z=atnums.astype(np.int32)), r0
            elif f == "atnums-float":
                got, want = rob(z=atnums.astype(float)), r0
            elif f == "atcoords-list":
                got, want = rob(xyz=atcoords.tolist()), r0
            elif f == "density-list":
                got, want = rob(d=dens.tolist()), r0
            elif f == "density-float32":
                got, want = rob(d=dens.astype(np.float32)), r0
            elif f == "points-list":
                got, want = rob(pts=P.tolist()), r0
            elif f == "basis-list":
                if not split2:
                    continue
                got, want = rob(alphas_basis=basis.tolist()), rb
            elif f == "basis-int":
                if not split2:
                    continue
                got, want = rob(alphas_basis=basis.astype(int)), rb
            else:
                raise tlc.MachineryError(f"unknown robust form {f}")
        except tlc.MachineryError:
            raise
        except Exception as e:  # noqa: BLE001
            note(ff["prec"], float("inf"), f"robust: {f}: {type(e).__name__}: {e}"[:200])
            continue
        note(ff["prec"], reldiff(got, want), f"robust: {f}")
    out.append(("form_exact", worst[12], what[12]))
    out.append(("form_single", worst[5], what[5]))
    if ivp is not None:
        out.append(("form_ivp", worst["ivp"], what["ivp"]))


_Z = {"H": 1, "C": 6, "N": 7, "O": 8, "Cl": 17}


def _q(x):
    """float -> exact rational pair (floats are dyadic rationals)"""
    f = Fraction(float(x))
    return [f.numerator, f.denominator]


def _worker(args):
    case, seed = args
    t0 = time.time()
    try:
        res = (run_xcase if int(case["id"]) >= 1000 else run_case)(case, _G["orc"], _G["table"], seed)
        return case["id"], res, None, time.time() - t0
    except tlc.MachineryError:
        raise
    except Exception as e:  # noqa: BLE001 - failures of the library are findings
        return case["id"], [], f"{type(e).__name__}: {e}"[:300], time.time() - t0


_G = {}


def select(cases, tier, rng):
    if tier == "thorough":
        return list(cases)
    # quick: one case of every kind (two of bvp_chan), seeded
    by = {}
    for c in cases:
        by.setdefault(c["kind"], []).append(c)
    kinds = ["bvp_chan", "robust_exact", "ivp_s", "lin", "bvp_s", "bvp_off", "robust_smooth", "robust_core", "lap", "mol"]
    rng.shuffle(kinds)
    picked = [rng.choice(by["bvp_chan"]),
              rng.choice([c for c in by["bvp_s"] if c["rcut"] and c["boundary"] == "auto"]),   # boundary value matters
              rng.choice([c for c in by["mol"] if len(c["atoms"]) == 3]),
              rng.choice([c for c in by["lap"] if len(c["atoms"]) >= 2]),                       # Laplacian on a molecular grid
              rng.choice([c for c in by["robust_exact"] + by["robust_core"] if len(c["atoms"]) == 2])]   # two elements
    for k in kinds:
        pool = by[k] if k != "lap" else [c for c in by[k] if any(t["l"] > 0 for t in c["terms"])]   # exercises l(l+1)
        picked.append(rng.choice(pool))
    # PoissonX.tla (drawn after the picks above, which therefore stay what they were): one or two cases of every kind,
    # chosen so that the sub-dimension a kind exists for is present in every quick run
    def charge(c):
        return sum(fr(t["c"]) for t in c["terms"] if t["l"] == 0)

    def pick(kind, pred=None):
        pool = [c for c in by[kind] if pred is None or pred(c)] or by[kind]
        picked.append(rng.choice(pool))

    pick("x_pruned", lambda c: c["id"] % 2 == 0)                               # Lebedev shells
    pick("x_pruned", lambda c: c["id"] % 2 == 1)                               # maximum-determinant shells of even degree
    pick("x_hetmol", lambda c: c["id"] % 2 == 0)                               # + linearity on the molecular grid
    pick("x_hetmol", lambda c: c["id"] % 2 == 1 and len(c["atoms"]) == 3)      # + Laplacian, three atoms
    pick("x_law", lambda c: len(c["atoms"]) == 1 and (c["rcut"] or c["boundary"] != "auto"))   # options are forwarded
    pick("x_law", lambda c: len(c["atoms"]) == 2)
    pick("x_defaults", lambda c: charge(c) < 0)                                # sign of the boundary value
    pick("x_forms", lambda c: c["split2"] and all(t["l"] == 0 for t in c["terms"]))   # initial-value route and basis forms
    pick("x_pts", lambda c: len(c["atoms"]) == 1 and c["origin"])
    pick("x_pts", lambda c: len(c["atoms"]) == 2)
    pick("x_tf", lambda c: c["origin"])
    pick("x_tf", lambda c: not c["origin"])
    pick("x_lin", lambda c: c["solver"] == "ivp")
    pick("x_lin", lambda c: c["solver"] == "lap")
    pick("x_lin", lambda c: c["solver"] == "bvp")
    # option combinations that two seeded changes needed (drawn last, so the picks above stay what they were):
    # an explicit boundary value together with a short radial range, and split2 with a density the residual fit
    # really has to represent (the descending user basis is then tried too)
    pick("bvp_s", lambda c: c["rcut"] and c["boundary"] == "exact")
    pick("robust_smooth", lambda c: c["split2"])
    pick("robust_core", lambda c: c["split2"])
    return picked


def run(tier: str, _cases=None) -> int:
    rep = Report(PROP, tier, "exploration")
    rng = random.Random(rep.seed)
    wd = tlc.scratch(f"{PROP}-{tier}")
    if _G.get("selftest") and _G.get("spec", (None,))[0] == rep.seed:
        _, res, cases, orc, table = _G["spec"]       # selftest: mutants change the library, not the specification - one TLC run
    else:
        res, cases, orc, table = spec_run(wd, rep.seed)
        if _G.get("selftest"):
            _G["spec"] = (rep.seed, res, cases, orc, table)
    rep.tlc(res, "MC_PoissonX")
    if res.status == "violation":
        st = tlc.last_state(res)
        rep.violation(f"model:{','.join(res.violated)}", f"TLC: invariant(s) {res.violated} of Poisson.tla violated; last state {st}", st)
        return rep.finish()
    rep.set("cases_in_model", len(cases))
    # the vectorised evaluator against the trusted 50-digit one
    env = {"x": np.array([0.3, -1.2, 0.01]), "y": np.array([0.2, 0.4, -0.02]), "z": np.array([-0.5, 2.0, 0.03]),
           "alpha": 1.7}
    env["r"] = np.sqrt(env["x"] ** 2 + env["y"] ** 2 + env["z"] ** 2)
    worst = 0.0
    for l in ("0", "1", "2"):
        for ch in orc.p["chan"][l]:
            for k in ("rho", "pot", "lap"):
                if not (l == "0" and k == "pot" and False):
                    worst = max(worst, selfcheck(ch[k], env, n=3))
    worst = max(worst, selfcheck(orc.c["s"]["Vr"], env, n=3), selfcheck(orc.p["laps"], env, n=3))
    rep.set("np_eval_vs_expr_eval", worst)
    if not worst < 1e-9:
        raise tlc.MachineryError(f"vectorised evaluator disagrees with expr_eval: {worst}")

    sel = _cases(cases) if _cases is not None else select(cases, tier, rng)
    _G["orc"], _G["table"] = orc, table
    import multiprocessing as mp
    calib = {}
    times = {}
    with mp.get_context("fork").Pool(8) as pool:
        results = list(pool.imap_unordered(_worker, [(c, rep.seed) for c in sel]))
    bycase = {c["id"]: c for c in sel}
    for cid, out, err, secs in sorted(results, key=lambda r: r[0]):
        c = bycase[cid]
        brief = {"id": cid, "kind": c["kind"], "grid": c["grid"] if "grid" in c else c["grids"], "atoms": c["atoms"], "terms": c["terms"],
                 "origin": c["origin"], "ode": c["ode"], "rcut": c["rcut"], "boundary": c["boundary"], "split2": c["split2"], "elements": c["elements"],
                 "results": [(k, d) if w is None else (k, d, w) for k, d, w in out], "exception": err, "seconds": round(secs, 2)}
        if cid >= 1000:
            brief.update({k: c[k] for k in ("rot", "atnums", "pruned", "ctor", "lin", "aff", "solver", "corescale", "pointsets")})
            brief["seed"] = rep.seed
        rep.evaluated(1, (cid,))
        rep.sample(brief)
        times[c["kind"]] = max(times.get(c["kind"], 0.0), secs)
        if err is not None:
            rep.violation(f"{c['kind']}:case={cid}:raises", f"case {cid} ({c['kind']}): the library raised {err}", brief)
            continue
        for clause, dev, why in out:
            g = calib.setdefault(clause, [0.0, 0])
            g[0] = max(g[0], dev) if np.isfinite(dev) else float("inf")
            g[1] += 1
            if not dev <= TOL[clause]:
                rep.violation(f"{clause}:case={cid}",
                              f"case {cid} ({c['kind']}), clause {clause}: relative deviation {dev:.3g} from the specification's "
                              f"oracle exceeds {TOL[clause]:g}" + (f" [{why}]" if why else ""), brief)
    rep.set("calibration", {k: {"worst": v[0], "n": v[1], "accepted": TOL[k]} for k, v in sorted(calib.items())})
    rep.set("max_seconds_per_kind", {k: round(v, 1) for k, v in times.items()})
    rep.set("rule", "one evaluation = one case (grid, centres, density, options) solved and compared at 30 points per atom; "
                    "distinct = distinct case ids; every density is a non-trivial combination of Gaussians inside the envelope")
    rep.assume("s-type oracle: Coulomb.tla (verified in C17); channel oracles: Poisson.tla; evaluation by vf/np_eval.py "
               "(cross-checked against vf/expr_eval.py in every run)")
    return rep.finish()


def selftest(tier: str = "quick") -> int:
    """In-process mutants of grid.poisson / grid.robust_poisson (never touches /repo)."""
    from ..mutants import run_mutants, src
    P, R = "grid.poisson", "grid.robust_poisson"
    rb = (("grid.robust_poisson", "solve_poisson_bvp"),)
    mutants = [
        ("bvp-rhs-sign", src(P, "return radial_components[i_spline](r) * -4 * np.pi * r", "return radial_components[i_spline](r) * 4 * np.pi * r", rb)),
        ("bvp-rhs-2pi", src(P, "return radial_components[i_spline](r) * -4 * np.pi * r", "return radial_components[i_spline](r) * -2 * np.pi * r", rb)),
        ("bvp-rhs-missing-r", src(P, "return radial_components[i_spline](r) * -4 * np.pi * r", "return radial_components[i_spline](r) * -4 * np.pi", rb)),
        ("bvp-boundary-times-Y00", src(P, "        boundary = atomgrid.integrate(func_vals) / sph_o_l[0, 0]\n\n    # Check if the domain",
                                       "        boundary = atomgrid.integrate(func_vals) * sph_o_l[0, 0]\n\n    # Check if the domain", rb)),
        ("bvp-l(l+1)-becomes-l*l", src(P, "                    a = -l_deg * (l_deg + 1) / r**2\n                # Note that this assumes",
                                       "                    a = -l_deg * l_deg / r**2\n                # Note that this assumes", rb)),
        ("aim-weights-omitted", src(P, "    func_vals_atom = func_vals * molgrid.aim_weights\n    # Go through each atomic grid and construct interpolation of f*w_n.\n    interpolate_funcs = []\n    for i in range(len(molgrid.atcoords)):\n        # Get the atomic grid",
                                    "    func_vals_atom = func_vals * 1.0\n    # Go through each atomic grid and construct interpolation of f*w_n.\n    interpolate_funcs = []\n    for i in range(len(molgrid.atcoords)):\n        # Get the atomic grid", rb)),
        ("molecular-sum-skips-last-atom", src(P, "        for interpolate in interpolate_funcs[1:]:\n            output += interpolate(points)\n        return output\n\n    return sum_of_interpolation_functions",
                                              "        for interpolate in interpolate_funcs[1:-1]:\n            output += interpolate(points)\n        return output\n\n    return sum_of_interpolation_functions", rb)),
        ("bvp-division-by-r-dropped-for-l>0", src(P, "r_values = np.array([spline(r_pts) / r_pts for spline in splines])",
                                                  "r_values = np.array([spline(r_pts) / (r_pts if k == 0 else r_pts ** 0) for k, spline in enumerate(splines)])", rb)),
        ("ivp-initial-slope-sign", src(P, "ivp = [boundary / r_max, -boundary / r_max**2.0]", "ivp = [boundary / r_max, boundary / r_max**2.0]")),
        ("ivp-first-derivative-coefficient", src(P, "                return 2.0 / r\n", "                return 1.0 / r\n")),
        ("laplacian-2/r-becomes-1/r", src(P, "second_component *= 2.0 / r_pts", "second_component *= 1.0 / r_pts")),
        ("laplacian-l(l+1)-becomes-l*l", src(P, "[[x * (x + 1)] * (2 * x + 1) for x in np.arange(0, atom_grid.l_max // 2 + 1)]",
                                             "[[x * x] * (2 * x + 1) for x in np.arange(0, atom_grid.l_max // 2 + 1)]")),
        ("robust-core-density-normalisation", src(R, "prefactor = c * (alpha / np.pi) ** 1.5", "prefactor = c * (alpha / np.pi) ** 1.5 * 1.01")),
        ("robust-core-density-ignores-centre", src(R, "r_sq = np.sum((points - center) ** 2, axis=1)\n    rho = np.zeros(len(points))",
                                                   "r_sq = np.sum((points - 0 * center) ** 2, axis=1)\n    rho = np.zeros(len(points))")),
        ("robust-drops-core-potential", src(R, "return v_core + v_bonding + v_residual", "return v_bonding + v_residual")),
        ("robust-drops-bonding-potential", src(R, "return v_core + v_bonding + v_residual", "return v_core + v_residual")),
        ("robust-core-potential-last-gaussian-dropped", src(R, "centers_rep = np.tile(center, (len(coeffs_s), 1))\n            v_core += coulomb_potential(\n                points,\n                centers_s=centers_rep,\n                coeffs_s=coeffs_s,\n                alphas_s=alphas_s,",
                                                            "centers_rep = np.tile(center, (len(coeffs_s) - 1, 1))\n            v_core += coulomb_potential(\n                points,\n                centers_s=centers_rep,\n                coeffs_s=coeffs_s[:-1],\n                alphas_s=alphas_s[:-1],")),
    ]
    # ---- mutants for the clauses of PoissonX.tla --------------------------------------------------------------
    A = "grid.atomgrid"
    ag_rb = (("grid.poisson", "AtomGrid"), ("grid.molgrid", "AtomGrid"), ("grid.robust_poisson", "AtomGrid"))
    helper_idx = "        start_index = molgrid.indices[i]\n        final_index = molgrid.indices[i + 1]\n        atom_grid = molgrid[i]\n\n        # Add the interpolation"
    pub_sig = ("def solve_poisson_bvp(\n    molgrid: MolGrid | AtomGrid,\n    func_vals: np.ndarray,\n    transform: BaseTransform,\n"
               "    boundary: float | type(None) = None,\n    include_origin: bool = True,\n    remove_large_pts: float = 1e6,")
    centre_old = ('        with np.errstate(divide="ignore"):\n            r_values = np.array([spline(r_pts) / r_pts for spline in splines])\n'
                  "            # Since spline(r=0) = 0, then set points to zero there.\n            r_values[:, np.abs(r_pts) < 1e-300] = 0.0\n")
    mutants += [
        # pruned atomic grids: channels a low-degree shell cannot integrate are no longer zeroed (x_pruned)
        ("pruned-shell-channels-not-zeroed", src(A, "                radial_components[num_nonzero_sph:, i] = 0.0", "                pass", ag_rb)),
        ("pruned-shell-keeps-one-l-too-few", src(A, "num_nonzero_sph = (self.degrees[i] // 2 + 1) ** 2", "num_nonzero_sph = (self.degrees[i] // 2) ** 2", ag_rb)),
        # molecular grids whose atoms differ in size (x_hetmol)
        ("molecular-slices-use-size-of-first-atom", src(P, helper_idx, helper_idx.replace("molgrid.indices[i]", "i * molgrid[0].size").replace("molgrid.indices[i + 1]", "(i + 1) * molgrid[0].size"), rb)),
        ("density-weighted-in-place", src(P, "    func_vals_atom = func_vals * molgrid.aim_weights\n    # Go through each atomic grid and construct interpolation of f*w_n.\n    interpolate_funcs = []\n    for i in range(len(molgrid.atcoords)):\n        # Get the atomic grid",
                                          "    func_vals *= molgrid.aim_weights\n    func_vals_atom = func_vals\n    # Go through each atomic grid and construct interpolation of f*w_n.\n    interpolate_funcs = []\n    for i in range(len(molgrid.atcoords)):\n        # Get the atomic grid", rb)),
        # robust-solver law for every option record (x_law)
        ("robust-does-not-forward-boundary-and-cutoff", src(R, "solve_poisson_bvp(molgrid, residual, transform, **bvp_kwargs)",
                                                            "solve_poisson_bvp(molgrid, residual, transform, **{k: v for k, v in bvp_kwargs.items() if k not in ('boundary', 'remove_large_pts')})")),
        ("robust-clips-negative-residual", src(R, "    # SPLIT 2: Bonding/Residual Fitting (Optional)", "    residual = np.clip(residual, 0.0, None)\n    # SPLIT 2: Bonding/Residual Fitting (Optional)")),
        # documented defaults (x_defaults)
        ("default-remove_large_pts-1e3", src(P, pub_sig, pub_sig.replace("remove_large_pts: float = 1e6", "remove_large_pts: float = 1e3"), rb)),
        ("remove_large_pts-None-not-handled", src(P, "    if remove_large_pts is not None:\n        indices = np.where", "    if True:\n        indices = np.where", rb)),
        ("boundary-value-loses-its-sign-ivp", src(P, "    r_max = r_interval[0]\n    boundary = atomgrid.integrate(func_vals) / sph_o_l[0, 0]", "    r_max = r_interval[0]\n    boundary = abs(atomgrid.integrate(func_vals)) / sph_o_l[0, 0]")),
        ("boundary-value-loses-its-sign-bvp", src(P, "        boundary = atomgrid.integrate(func_vals) / sph_o_l[0, 0]\n\n    # Check if the domain",
                                                  "        boundary = abs(atomgrid.integrate(func_vals)) / sph_o_l[0, 0]\n\n    # Check if the domain", rb)),
        ("boundary-value-never-zero", src(P, "        boundary = atomgrid.integrate(func_vals) / sph_o_l[0, 0]\n\n    # Check if the domain",
                                          "        boundary = (atomgrid.integrate(func_vals) or 1e-3) / sph_o_l[0, 0]\n\n    # Check if the domain", rb)),
        # representations of the arguments (x_forms)
        ("density-must-be-an-ndarray", src(P, "    func_vals_atom = func_vals * molgrid.aim_weights\n    # Go through each atomic grid and construct interpolation of f*w_n.\n    interpolate_funcs = []\n    for i in range(len(molgrid.atcoords)):\n        # Get the atomic grid",
                                           "    func_vals_atom = func_vals.astype(float) * molgrid.aim_weights\n    # Go through each atomic grid and construct interpolation of f*w_n.\n    interpolate_funcs = []\n    for i in range(len(molgrid.atcoords)):\n        # Get the atomic grid", rb)),
        ("robust-points-must-be-an-ndarray", src(R, "        points = np.asarray(points, dtype=float)\n        if points.ndim", "        if points.ndim")),
        ("robust-density-single-precision-copy", src(R, "residual = np.array(density_vals, dtype=float)", "residual = np.array(density_vals, dtype=np.float32).astype(float)")),
        ("laplacian-centres-points-in-place", src(P, "            r_pts, theta, phi = atom_grid.convert_cartesian_to_spherical(points).T\n\n            if np.any(r_pts < cutoff):",
                                                  "            points -= atom_grid.center\n            r_pts, theta, phi = atom_grid.convert_cartesian_to_spherical(points, center=np.zeros(3)).T\n            points += atom_grid.center * (1 + 1e-9)\n\n            if np.any(r_pts < cutoff):")),
        # evaluation points (x_pts)
        ("potential-zeroed-below-1e-3", src(P, "r_values[:, np.abs(r_pts) < 1e-300] = 0.0", "r_values[:, np.abs(r_pts) < 1e-3] = 0.0", rb)),
        # linearity of the other routes (x_lin)
        ("laplacian-of-squared-weights", src(P, "    func_vals_atom = func_vals * molgrid.aim_weights\n    # Go through each atomic grid and construct interpolation of f*w_n.\n    interpolate_funcs = []\n    for i in range(len(molgrid.atcoords)):\n        start_index",
                                             "    func_vals_atom = func_vals * molgrid.aim_weights + 1e-6 * func_vals ** 2\n    # Go through each atomic grid and construct interpolation of f*w_n.\n    interpolate_funcs = []\n    for i in range(len(molgrid.atcoords)):\n        start_index")),
        # the proposed repair of the known finding (gen/proposals/C16-bvp-potential-at-centre.diff) must be ACCEPTED
        ("anti:potential-at-centre-repaired", src(P, centre_old,
                                                  "        r_eval = np.maximum(r_pts, max(1e-6, 1e3 * rad_points[0]))\n        r_values = np.array([spline(r_eval) / r_eval for spline in splines])\n", rb)),
    ]
    import os
    only = os.environ.get("C16_SELFTEST_ONLY")          # development aid: comma-separated substrings of mutant names
    if only:
        mutants = [m for m in mutants if any(o in m[0] for o in only.split(","))]
    _G["selftest"] = True
    try:
        return run_mutants(PROP, run, tier, mutants, expect={"anti:potential-at-centre-repaired": 0})
    finally:
        _G.pop("selftest", None)
        _G.pop("spec", None)


def replay(path: str) -> int:
    """Re-execute the case recorded in a replay file."""
    with open(path) as f:
        v = json.load(f)
    cid = (v.get("case") or {}).get("id")
    if cid is None:
        return run(v.get("tier", "quick"))
    from .. import evidence
    import os
    old = evidence.EVID
    evidence.EVID = tlc.GEN / f"{PROP}-replay-evidence"     # a replay must not overwrite the evidence of the tiers
    old_seed = os.environ.get("VERIF_SEED")
    if "seed" in v["case"]:                                  # cases of PoissonX.tla are drawn per seed
        os.environ["VERIF_SEED"] = str(v["case"]["seed"])
    try:
        return run("thorough", _cases=lambda cases: [c for c in cases if c["id"] == cid])
    finally:
        evidence.EVID = old
        if old_seed is None:
            os.environ.pop("VERIF_SEED", None)
        else:
            os.environ["VERIF_SEED"] = old_seed
