"""C11 - periodic local grids contain every periodic image inside the sphere exactly once.

Flow (DESIGN.md section 5, C11; specification /verif/spec/Periodic.tla):
 1. the tier parameters (digit radices of the numbered configuration families L1/L2/L3 and the
    radius lists) are written to Gen_periodic.tla; a seeded sample of configuration numbers is
    drawn; TLC (module Emit_periodic, a constant-level evaluation of Periodic!CaseOf /
    Periodic!Construct) decodes the numbers into configurations and emits them with the
    specification's reciprocal vectors and wrapped points              -> cases.json
 2. every emitted configuration is replayed into
    PeriodicGrid(points, weights, realvecs, wrap).get_localgrid(center, radius); the observed
    sequence of (index, integer position, integer weight) is recorded  -> obs.json
 3. ONE TLC run over Periodic.tla (a) enumerates EVERY configuration within the tier bounds
    and checks  AlgSet = DeclSet  (Complete, Sound, ExactlyOnce), the reciprocal-vector and
    wrap laws and "no lattice = plain grid"; (b) judges every recorded observation against
    DeclSet (ObsConforms; mismatches are printed, all of them are reported) and prints the
    situations each observed case exercises (Flags; every situation must occur).
 Secondary, harness-judged float observables of the constructor (recivecs, spacings,
 frac_intvls, wrapped points) are compared with the values TLC emitted in step 1.

Why integer data are decisive for the float implementation: all coordinates are integers and
2 r^2 is odd, so |x - c|^2 = r^2 is impossible; the k-d tree compares integers with a
half-integer.  The bounds ceil(fmin - fc - r/s), floor(fmax - fc + r/s) are computed in floating
point; a rounding error can only change them when the exact argument IS an integer, and then
the additional / missing displaced sphere touches the extreme lattice plane of the points in at
most one point at distance exactly r, which is impossible - so the result set (the only thing
that is compared) does not depend on rounding.  The same holds for `wrap`: rounding can move a
point that lies exactly on a cell face to the opposite face, which changes neither the set of
images nor their indices (accepted for the wrapped-points attribute check, see _check_attrs).

Presentations (audit round 4; Periodic.tla, section PRESENTATIONS).  Every emitted case is handed to
the class in every admissible presentation Periodic!PresOf names: base, none (realvecs=None), sim (real
similarity x -> k x Q with a seeded Haar-random orthogonal Q, proper or improper, and k in [0.3, 3.3]:
real-valued, generally oriented data), shift (centre 1000 / -777 / 513 cells away, every point moved by
its own lattice translation - 41 i / -29 i cells when wrapped, one cell when not), basis (sheared,
sign-changed basis of the same lattice), replica (7 lattice-translated copies of every point: 7..21
points, coinciding when wrapped), split (grid[K] for two complementary selections in all index
forms, union of the two local grids), session (another query answered first by the same object; the
query repeated; caller's arrays, earlier results and grid.points must not change), int / intvecs / f32 /
argforms (integer arrays, float32 arrays, list / tuple / Python-scalar / 0-d centres, Python-int /
NumPy-scalar / 0-d radii, strided and Fortran-ordered arrays, NumPy bool for wrap).  The presented
configurations (shifted points, other basis, selections, earlier query) are computed by TLC
(Emit_periodic); the harness only applies the inverse of the law's map (subtract T, undo k Q, map
sub-grid indices back) and hands the result to the same judge.  All presentations of a case that give
the same multiset are ONE observation for TLC, so a correct library costs no extra judging.  The laws
behind the maps (SimLaw for the 2/8/48 signed permutations, ScaleLaw k = 2, ShiftLaw, BasisLaw,
ReplicaLaw, SplitLaw, SessionLaw, QueryKeepsGrid) are invariants checked by TLC for the definition AND the
algorithm on every LawEvery-th observed case (thorough: and every LawEveryMC-th enumerated one).
'sim' and 'f32' are admissible only when no image can lie on the sphere (2 r^2 odd, or inf): every image
is then at least |r^2 - d^2| >= 1/2 (integer units) away from the sphere, rounding of the mapped data
(<= 1e-13) or float32 fractional coordinates (<= 1e-6, relevant for the bounds only, see above) cannot
change membership.  Back-mapped 'sim' positions must lie within SIM_TOL = 1e-6 of integer points:
measured worst distance 2.9e-15 (quick), so > 8 orders of slack; a wrong lattice translation moves a
position by >= 0.3 (smallest |k a_j|), a truncated centre loses / adds whole images.  Attribute
tolerance for 'sim' is ATOL as below (measured 2.0e-14).

Tolerances (attribute checks only; the property itself is judged on integers by TLC):
recivecs/spacings/frac_intvls are compared with the specification's exact rationals with
absolute tolerance 1e-9; measured worst deviation on the pinned tree 5.4e-15 (thorough tier,
51 000 cases), i.e. more than 5 orders of magnitude of slack; the smallest deviation a wrong
formula can produce on these integer cells is > 1e-3 (entries are rationals with denominators
<= 2000).
"""
from __future__ import annotations

import json
import math
import random
import warnings

import numpy as np

from .. import tlc
from ..evidence import Report

PROP = "C11"
FAMS = ("L1", "L2", "L3")
INVARIANTS = ("RecipIdentity RecipInSpan WrapInCell WrapIsTranslation NoWrapNoMove Complete Sound "
              "ExactlyOnce AlgEqualsDecl NoLatticeIsPlainGrid RadiusZero ObsConforms Flags "
              "SimLaw ScaleLaw ShiftLaw BasisLaw ReplicaLaw SplitLaw SessionLaw QueryKeepsGrid").split()
CFG = "SPECIFICATION Spec\n" + "".join(f"INVARIANT {i}\n" for i in INVARIANTS)
ATOL = 1e-9

# Tier parameters: digit radices of the configuration numbers (meaning of the digits: Periodic.tla)
#   L1 cell : form(flat|col), vector code (0 none, +1,-1,+2,-2,...), n-1, d1-1, d2-1, reversed
#   L1 inner: wrap, p1, centre, radius index (last value = inf, admissible only without vectors)
#   L2 cell : nv, a1x, a1y, a2x, a2y          L2 inner: wrap, shape, bx, by, cx, cy, radius index
#   L3 cell : nv, cell number, rotation       L3 inner: wrap, shape, bx, by, bz, cx, cy, cz, radius index
PARAMS = {
    "quick": dict(
        CellRadix={"L1": [2, 5, 3, 2, 1, 2], "L2": [3, 3, 3, 3, 3], "L3": [4, 12, 1]},
        InnerRadix={"L1": [2, 3, 5, 5], "L2": [2, 4, 2, 1, 2, 2, 4], "L3": [2, 6, 2, 1, 1, 2, 2, 2, 3]},
        RadList={"L1": [0, 2, 9, 33], "L2": [0, 2, 13], "L3": [2, 9]},   # r2x2 = 2 r^2; 2, 8, 18 = integer radii (images ON the sphere)
        sample={"L1": 1200, "L2": 1200, "L3": 900},
        LawEvery=(8, 0),      # presentation laws on every 8th observed case
    ),
    "thorough": dict(
        CellRadix={"L1": [2, 9, 3, 3, 2, 2], "L2": [3, 5, 5, 5, 5], "L3": [4, 12, 3]},
        InnerRadix={"L1": [2, 5, 11, 8], "L2": [2, 6, 2, 1, 3, 2, 5], "L3": [2, 6, 2, 1, 1, 3, 2, 2, 4]},
        RadList={"L1": [0, 1, 2, 8, 19, 33, 61], "L2": [0, 2, 5, 13], "L3": [0, 2, 11]},
        sample={"L1": 17000, "L2": 17000, "L3": 17000},
        LawEvery=(8, 194),    # ... every 8th observed case and every 194th enumerated configuration (7 300 + 3 400 states)
    ),
}


# ---------------------------------------------------------------------------------------------
# generated modules

def write_gen(wd, par, mode="both", obs_file=None, variant="code", block=64, law_every=None):
    lines = ["---- MODULE Gen_periodic ----",
             "\\* generated by vf/props/c11.py: tier parameters and recorded observations",
             "EXTENDS Integers, Sequences, TLC, Json"]
    for k in ("CellRadix", "InnerRadix", "RadList"):
        lines.append(f"{k} == {tlc.tla(par[k])}")
    lines += [f"BlockSize == {block}", f'Mode == "{mode}"', f'Variant == "{variant}"']
    le = law_every if law_every is not None else par.get("LawEvery", (1, 0))
    lines += [f"LawEvery == {le[0]}", f"LawEveryMC == {le[1]}"]
    if obs_file:
        lines += [f'ObsAll == JsonDeserialize("{obs_file}")', "ObsIdx == ObsAll.idx", "ObsVal == ObsAll.val"]
    else:
        lines += ["ObsIdx == [L1 |-> <<>>, L2 |-> <<>>, L3 |-> <<>>]",
                  "ObsVal == [L1 |-> <<>>, L2 |-> <<>>, L3 |-> <<>>]"]
    lines.append("====")
    (wd / "Gen_periodic.tla").write_text("\n".join(lines) + "\n")


EMIT = r"""---- MODULE Emit_periodic ----
\* generated by vf/props/c11.py: decode configuration numbers, emit the configurations together
\* with the specification's constructor state (reciprocal vectors h/D, wrapped points wp,
\* fractional numerators wf) for the replay harness
EXTENDS Periodic
Want == JsonDeserialize("want.json")
CaseJson(f, p) ==
    LET cf == CaseOf(f, p[1], p[2]) gr == Construct(cf) IN
    [fam |-> f, cell |-> p[1], inner |-> p[2], dim |-> cf.dim, form |-> cf.form, vecs |-> cf.vecs,
     pts |-> cf.pts, w |-> cf.w, c |-> cf.c, r2x2 |-> cf.r2x2, wrap |-> cf.wrap,
     rc |-> [j \in 1..Len(cf.vecs) |-> <<gr.rc[j].h, gr.rc[j].D>>], wp |-> gr.wp, wf |-> gr.wf,
     \* presentations (Periodic!PresOf): the presented configurations are computed HERE
     pres |-> PresOf(cf, p[2]),
     shift |-> IF Len(cf.vecs) = 0 THEN [pts |-> <<>>, c |-> <<>>, T |-> <<>>]
               ELSE [pts |-> ShiftCfg(cf).pts, c |-> ShiftCfg(cf).c, T |-> ShiftT(cf)],
     basis |-> BasisVecs(cf.vecs),
     replica |-> IF Len(cf.vecs) = 0 THEN [pts |-> <<>>, w |-> <<>>, m |-> ReplicaM]
                 ELSE [pts |-> ReplicaCfg(cf).pts, w |-> ReplicaCfg(cf).w, m |-> ReplicaM],
     split |-> SplitOf(cf),
     pre |-> PreQuery(f, cf, p[2])]
Emit(f) == LET ok == SelectSeq(Want[f], LAMBDA p : ValidCase(f, p[1], p[2]))
           IN [k \in 1..Min2(Len(ok), Want.count[f]) |-> CaseJson(f, ok[k])]
ASSUME JsonSerialize("cases.json", [L1 |-> Emit("L1"), L2 |-> Emit("L2"), L3 |-> Emit("L3")])
ASSUME PrintT(<<"CELLS", [f \in Fams |-> Cardinality({cc \in 0..CellCount[f] - 1 : ValidCell(f, cc)})]>>)
====
"""


def _prod(xs):
    p = 1
    for x in xs:
        p *= x
    return p


def emit_cases(wd, par, rng, counts):
    """Seeded sample of configuration numbers -> configurations decoded BY TLC."""
    want = {}
    for f in FAMS:
        nc, ni = _prod(par["CellRadix"][f]), _prod(par["InnerRadix"][f])
        # numbers that do not denote a configuration (singular cell, unused digits, inf with
        # lattice vectors) are dropped by Periodic!ValidCase; oversample and cut afterwards
        want[f] = [[rng.randrange(nc), rng.randrange(ni)] for _ in range(counts[f] * 8)]
    want["count"] = {f: counts[f] for f in FAMS}
    (wd / "want.json").write_text(json.dumps(want))
    (wd / "Emit_periodic.tla").write_text(EMIT)
    (wd / "Emit.cfg").write_text("SPECIFICATION Spec\nCONSTRAINT StaticOnly\n")
    res = tlc.run_tlc("Emit_periodic", wd / "Emit.cfg", wd, workers=1, timeout=900).require_ok("Emit_periodic")
    if res.status != "ok":
        raise tlc.MachineryError("Emit_periodic: " + res.stdout[-2000:])
    with open(wd / "cases.json") as fh:
        cases = json.load(fh)
    out = {}
    for f in FAMS:
        seen, lst = set(), []
        for c in cases[f]:
            k = (c["cell"], c["inner"])
            if k in seen:
                continue
            seen.add(k)
            lst.append(c)
            if len(lst) >= counts[f]:
                break
        out[f] = lst
    cells = tlc.tagged(res.stdout, "CELLS")
    if not cells:
        raise tlc.MachineryError("Emit_periodic printed no CELLS line")
    return out, res, cells[0][1]


# ---------------------------------------------------------------------------------------------
# driving the implementation

PRES = ("base", "none", "shift", "basis", "replica", "intvecs", "sim", "f32", "split", "session", "int", "argforms", "halfint")
SIM_TOL = 1e-6   # integer units; see module docstring (presentations)


def _seq(x):
    """TLC's Json module writes an empty function as {} and a non-empty one as a list."""
    return list(x) if x else []


def _radius(r2):
    return np.inf if r2 == -1 else (0.0 if r2 == 0 else math.sqrt(r2 / 2.0))


def _similarity(case, seed):
    """Seeded real similarity x -> k x Q (row vectors) for the 'sim' presentation."""
    fam = FAMS.index(case["fam"])
    rng = np.random.default_rng([int(seed), fam, int(case["cell"]), int(case["inner"]), 11])
    dim = case["dim"]
    k = float(np.exp(rng.uniform(-1.2, 1.2)))
    if dim == 1:
        Q = np.array([[1.0 if rng.random() < 0.5 else -1.0]])
    else:
        Q, R = np.linalg.qr(rng.normal(size=(dim, dim)))
        Q = Q * np.sign(np.diag(R))           # Haar distributed; proper and improper rotations
        if rng.random() < 0.5:
            Q[:, 0] = -Q[:, 0]
    return k, Q


def _inputs(case, pres, seed):
    """(points, weights, realvecs, wrap, centre, radius, back) for one presentation of a case;
    back maps an (m, dim) float array of returned positions to the positions of the base case."""
    dim, nv = case["dim"], len(case["vecs"])
    P = np.array(case["pts"], dtype=float).reshape(-1, dim)
    W = np.array(case["w"], dtype=float)
    A = np.array(case["vecs"], dtype=float).reshape(nv, dim)
    C = np.array(case["c"], dtype=float).reshape(dim)
    r2 = case["r2x2"]
    radius = _radius(r2)
    wrap = bool(case["wrap"])
    back = lambda X: X
    extra = {}
    if pres == "shift":
        P = np.array(case["shift"]["pts"], dtype=float).reshape(-1, dim)
        C = np.array(case["shift"]["c"], dtype=float).reshape(dim)
        T = np.array(case["shift"]["T"], dtype=float).reshape(dim)
        back = lambda X: X - T
    elif pres == "basis":
        A = np.array(case["basis"], dtype=float).reshape(nv, dim)
    elif pres == "replica":
        P = np.array(case["replica"]["pts"], dtype=float).reshape(-1, dim)
        W = np.array(case["replica"]["w"], dtype=float)
    elif pres == "sim":
        k, Q = _similarity(case, seed)
        P, A, C = k * (P @ Q), k * (A @ Q), k * (C @ Q)
        radius = k * radius
        back = lambda X: (X @ Q.T) / k
        extra = {"k": k, "Q": Q}
    flat = case["form"] == "flat"
    sel = (int(case["inner"]) + int(case["cell"])) % 3
    if pres == "halfint":      # units of 2: integer-dtype points (all even in the base case), half-integer everything else
        P, A, C = (P / 2).astype(np.int64), A / 2, C / 2
        radius = radius / 2
        back = lambda X: np.asarray(X, dtype=float) * 2   # noqa: E731
    if pres == "int":
        P, W, C = P.astype(np.int64), W.astype(np.int64), C.astype(np.int64)
    elif pres == "intvecs":
        A = A.astype(np.int64)
    elif pres == "f32":
        P, W, A, C = (x.astype(np.float32) for x in (P, W, A, C))
    elif pres == "argforms":   # strided / Fortran-ordered arrays, NumPy bool, other scalar kinds
        big = np.full((len(P), 2 * dim), 99.0)
        big[:, ::2] = P
        P = big[:, ::2]
        bw = np.full(2 * len(W), 99.0)
        bw[::2] = W
        W = bw[::2]
        A = np.asfortranarray(A) if nv else A
        wrap = np.bool_(wrap)
        if np.isfinite(radius):
            radius = int(round(radius)) if r2 in (0, 2, 8, 18) else (np.float64(radius), np.array(radius), np.float64(radius))[sel]
        else:
            radius = np.float64(radius)
    if flat:
        P, A = P[:, 0], A[:, 0]
        if pres == "argforms":
            c = (int(C[0]), np.float64(C[0]), np.array(float(C[0])))[sel]
        elif pres in ("int",):
            c = (int(C[0]), np.int64(C[0]), np.array(int(C[0])))[sel]
        elif pres == "f32":
            c = np.float32(C[0])
        else:
            c = float(C[0])
        if not P.flags["C_CONTIGUOUS"] and pres != "argforms":
            P, A = P.copy(), A.copy()
    else:
        c = C
        if pres == "argforms":
            c = (C.tolist(), tuple(C.tolist()), [int(x) for x in C])[sel]
    rv = None if pres == "none" else A
    return P, W, rv, wrap, c, radius, back, extra


def _as_int_rows(a, dim, tol=0.0):
    a = np.asarray(a, dtype=float).reshape(-1, dim)
    r = np.rint(a)
    if a.size:
        if not np.all(np.isfinite(a)):
            return None
        dev = float(np.max(np.abs(a - r)))
        if tol:
            _DEV[1] = max(_DEV[1], dev)
        if dev > tol:
            return None
    return r.astype(int).tolist()


def _build(P, W, rv, wrap):
    from grid.periodicgrid import PeriodicGrid
    with warnings.catch_warnings():
        warnings.simplefilter("ignore")
        return PeriodicGrid(P, W, rv, wrap=wrap)


def _query(g, c, radius):
    with warnings.catch_warnings():
        warnings.simplefilter("ignore")
        return g.get_localgrid(c, radius)


def _entries(lg, g, c, dim, back, tol):
    """Well-formedness of one LocalGrid and its entries [index, integer position, integer weight]
    in the coordinates of the base case: (status, entries)."""
    from grid.basegrid import LocalGrid
    if not isinstance(lg, LocalGrid):
        return "type:" + type(lg).__name__, []
    idx = np.asarray(lg.indices)
    if idx.ndim != 1 or (idx.size and not np.issubdtype(idx.dtype, np.integer)):
        return "indices:" + str(idx.dtype), []
    p = np.asarray(lg.points)
    ww = np.asarray(lg.weights)
    if not (len(p) == len(ww) == len(idx)) or p.shape[1:] != np.asarray(g.points).shape[1:]:
        return "shape", []
    if not np.array_equal(np.asarray(lg.center, dtype=float), np.asarray(c, dtype=float)):
        return "center", []
    rows = _as_int_rows(back(np.asarray(p, dtype=float).reshape(-1, dim)), dim, tol)
    wi = _as_int_rows(ww, 1)
    if rows is None or wi is None:
        return "nonint", []
    return "ok", [[int(i), r, x[0]] for i, r, x in zip(idx.tolist(), rows, wi)]


def _select(g, K, sel):
    """grid[K] with K (0-based positions) in one of the accepted index forms."""
    n = g.size
    if len(K) == 1:
        return g[(K[0], np.int64(K[0]), [K[0]])[sel]]
    if K == list(range(1, n, 2)):
        if sel == 0:
            return g[1::2]
        if sel == 1:
            m = np.zeros(n, dtype=bool)
            m[K] = True
            return g[m]
    return g[(K, np.array(K), np.array(K, dtype=np.int32))[sel]]


def observe(case, pres="base", seed=0):
    """One observation of the implementation in one presentation: ({st, e}, other problems).
    `e` is in the coordinates / numbering of the base case (inverse of the presentation's law)."""
    if pres is True or pres is False:      # replay files written before the presentations existed
        pres = "none" if pres else "base"
    dim = case["dim"]
    attr = []
    P, W, rv, wrap, c, radius, back, extra = _inputs(case, pres, seed)
    tol = SIM_TOL if pres == "sim" else 0.0
    keep = [np.array(x, copy=True) for x in (P, W, np.zeros(0) if rv is None else rv, np.asarray(c))]
    try:
        g = _build(P, W, rv, wrap)
    except Exception as e:  # admissible input: the constructor must accept it
        return {"st": f"ctor:{type(e).__name__}", "e": []}, attr
    if pres in ("base", "none", "sim"):
        try:
            attr = _check_attrs(case, g, extra.get("k", 1.0), extra.get("Q"))
        except Exception as e:
            attr = [("attrs", f"{type(e).__name__}: {e}")]
    try:
        if pres == "split":
            ent = []
            sel = (int(case["inner"]) + int(case["cell"])) % 3
            for K1 in case["split"]:
                K = [k - 1 for k in _seq(K1)]
                if not K:
                    continue
                try:
                    sub = _select(g, K, sel)
                except Exception as e:
                    return {"st": f"getitem:{type(e).__name__}", "e": []}, attr
                if type(sub) is not type(g) or sub.size != len(K):
                    return {"st": "getitem:result", "e": []}, attr
                st, e1 = _entries(_query(sub, c, radius), sub, c, dim, back, tol)
                if st != "ok":
                    return {"st": st, "e": []}, attr
                if any(not 0 <= e[0] < len(K) for e in e1):
                    return {"st": "indices:range", "e": []}, attr
                ent += [[K[e[0]], e[1], e[2]] for e in e1]
            return {"st": "ok", "e": ent}, attr
        if pres == "session":
            gp0 = np.array(g.points, copy=True)
            pc = np.array(case["pre"]["c"], dtype=float)
            pc = float(pc[0]) if case["form"] == "flat" else pc
            lg0 = _query(g, pc, _radius(case["pre"]["r2x2"]))
            snap0 = [np.array(x, copy=True) for x in (lg0.points, lg0.weights, lg0.indices)]
            lg = _query(g, c, radius)
            snap = [np.array(x, copy=True) for x in (lg.points, lg.weights, lg.indices)]
            lg2 = _query(g, c, radius)
            if not all(np.array_equal(x, y) and x.dtype == y.dtype
                       for x, y in zip(snap, (lg2.points, lg2.weights, lg2.indices))):
                attr.append(("session:not-repeatable", "the same query on the same grid object gives two different local grids"))
            if not all(np.array_equal(x, y) for x, y in zip(snap0, (lg0.points, lg0.weights, lg0.indices))) \
                    or not all(np.array_equal(x, y) for x, y in zip(snap, (lg.points, lg.weights, lg.indices))):
                attr.append(("session:earlier-result-changed", "a local grid handed out earlier changed when the grid was queried again"))
            if not np.array_equal(gp0, g.points):
                attr.append(("session:grid-points-changed", "grid.points changed while the grid was queried"))
            now = (P, W, np.zeros(0) if rv is None else rv, np.asarray(c))
            if not all(np.array_equal(x, y) and x.dtype == y.dtype for x, y in zip(keep, now)):
                attr.append(("session:input-modified", "constructor / query modified an array passed by the caller"))
        else:
            lg = _query(g, c, radius)
    except Exception as e:
        return {"st": type(e).__name__, "e": []}, attr
    try:
        st, ent = _entries(lg, g, c, dim, back, tol)
        if pres == "replica" and st == "ok":
            # inverse of Periodic!ReplicaSet: defined when every entry occurs once per copy; otherwise the
            # observation is handed over as it is (indices >= n are then "not in the specification")
            n, m = len(case["pts"]), int(case["replica"]["m"])
            red = {}
            for i, x, w_ in ent:
                red.setdefault(json.dumps([i % n, x, w_]), []).append(i // n)
            if all(sorted(q) == list(range(m)) for q in red.values()):
                ent = [json.loads(k_) for k_ in red]
        return {"st": st, "e": ent}, attr
    except Exception as e:
        return {"st": "result:" + type(e).__name__, "e": []}, attr


def _check_attrs(case, g, k=1.0, Q=None):
    """Constructor attributes against the specification's exact values (emitted by TLC); for the
    'sim' presentation x -> k x Q the reciprocal vectors are g_j Q / k, the spacings k s_j, the
    fractional coordinates are unchanged."""
    bad = []
    dim, nv = case["dim"], len(case["vecs"])
    if Q is None:
        Q = np.eye(dim)
    exact = k == 1.0 and np.array_equal(Q, np.eye(dim))
    tol = 0.0 if exact else ATOL
    if nv == 0:
        if np.asarray(g.recivecs).size or np.asarray(g.spacings).size or np.asarray(g.frac_intvls).size:
            bad.append(("attrs", "non-empty lattice attributes without lattice vectors"))
        ref = k * (np.array(case["pts"], dtype=float).reshape(-1, dim) @ Q)
        if not np.array_equal(np.asarray(g.points, dtype=float).reshape(-1, dim), ref):
            bad.append(("points", "points changed without lattice vectors"))
        return bad
    H = np.array([h for h, _ in case["rc"]], dtype=float).reshape(nv, dim)
    D = np.array([d for _, d in case["rc"]], dtype=float)
    G = (H / D[:, None]) @ Q / k
    rec = np.asarray(g.recivecs, dtype=float).reshape(nv, dim)
    dev = float(np.max(np.abs(rec - G)))
    _DEV[0] = max(_DEV[0], dev)
    if not dev <= ATOL:
        bad.append(("recivecs", f"recivecs {rec.tolist()} differ from the exact reciprocal vectors {G.tolist()} by {dev:.3g}"))
    sp = np.asarray(g.spacings, dtype=float).reshape(-1)
    sp_ref = k * D / np.sqrt(np.sum(H * H, axis=1))
    dev = float(np.max(np.abs(sp - sp_ref))) if sp.shape == sp_ref.shape else float("inf")
    _DEV[0] = max(_DEV[0], dev if np.isfinite(dev) else 0.0)
    if not dev <= ATOL:
        bad.append(("spacings", f"spacings {sp.tolist()} differ from the exact plane spacings {sp_ref.tolist()}"))
    P = np.asarray(g.points, dtype=float).reshape(-1, dim)
    WP = k * (np.array(case["wp"], dtype=float).reshape(-1, dim) @ Q)
    WF = np.array(case["wf"], dtype=float).reshape(-1, nv)
    A = k * (np.array(case["vecs"], dtype=float).reshape(nv, dim) @ Q)
    if P.shape != WP.shape:
        bad.append(("points", f"points have shape {P.shape}"))
        return bad
    # stored points: the specification's wrapped points; a point exactly on a cell face
    # (fractional numerator 0) may appear on the opposite face (+ a_j), see module docstring
    # (base presentation: integer arithmetic as before, K must be integers exactly)
    K = (P - WP) @ H.T / D if exact else (P - WP) @ G.T
    K0 = np.rint(K)
    _DEV[0] = max(_DEV[0], float(np.max(np.abs(K - K0))) if not exact else 0.0)
    ok = (np.max(np.abs(K - K0)) <= tol and np.max(np.abs(K0 @ A - (P - WP))) <= tol
          and np.all((K0 == 0) | ((K0 == 1) & (WF == 0) & bool(case["wrap"]))))
    if not ok:
        bad.append(("points", f"stored points {P.tolist()}: specification {WP.tolist()} (wrap={case['wrap']})"))
    fi = np.asarray(g.frac_intvls, dtype=float)
    fr = P @ G.T
    ref = np.stack([fr.min(axis=0), fr.max(axis=0)], axis=1)
    dev = float(np.max(np.abs(fi - ref))) if fi.shape == ref.shape else float("inf")
    _DEV[0] = max(_DEV[0], dev if np.isfinite(dev) else 0.0)
    if not dev <= ATOL:
        bad.append(("frac_intvls", f"frac_intvls {fi.tolist()} are not the extent {ref.tolist()} of the stored points"))
    return bad


_DEV = [0.0, 0.0]   # worst attribute deviation, worst distance of a back-mapped 'sim' position from an integer point


def _worker(args):
    chunk, seed = args
    out = []
    for case in chunk:
        for pres in case["pres"]:
            o, attr = observe(case, pres, seed)
            out.append((case["fam"], case["cell"], case["inner"], pres, o, attr))
    return out, list(_DEV)


def _pres_suffix(pres):
    if pres is True or pres == "none":
        return ":realvecs=None"
    if pres in (False, None, "base"):
        return ""
    return f":pres={pres}"


def case_key(case, st="", none=False):
    r = "inf" if case["r2x2"] == -1 else ("0" if case["r2x2"] == 0 else f"sqrt({case['r2x2']}/2)")
    k = (f"r={r}:nv={len(case['vecs'])}:dim={case['dim']}:{case['form']}:wrap={int(bool(case['wrap']))}:"
         f"vecs={json.dumps(case['vecs'], separators=(',', ':'))}:pts={json.dumps(case['pts'], separators=(',', ':'))}:"
         f"c={json.dumps(case['c'], separators=(',', ':'))}" + _pres_suffix(none))
    return (st + ":" if st else "") + k


def run_observations(cases, tier, seed=0):
    flat = [c for f in FAMS for c in cases[f]]
    n = 64
    chunks = [(flat[i::n], seed) for i in range(n)]
    import multiprocessing as mp
    res = []
    dev = [0.0, 0.0]
    with mp.get_context("fork").Pool(8) as pool:
        for part, d in pool.imap(_worker, chunks):
            res += part
            dev = [max(a_, b_) for a_, b_ in zip(dev, d)]
    order = {p: i for i, p in enumerate(PRES)}
    res.sort(key=lambda t: (t[0], t[1], t[2], order[t[3]]))
    return res, dev


# ---------------------------------------------------------------------------------------------

_LAST_EMIT = [None]


def run(tier: str) -> int:
    rep = Report(PROP, tier, "model_checking")
    _execute(rep, tier)
    return rep.finish()


def _execute(rep, tier, variant="code", mode="both", tag=None, sample=None, emitted=None):
    rng = random.Random(rep.seed)
    par = dict(PARAMS[tier])
    if sample:
        par["sample"] = sample
    wd = tlc.scratch(f"{PROP}-{tag or tier}")
    _variant, _mode = variant, mode

    # ---- 1. cases from the specification ------------------------------------------------------
    write_gen(wd, par, mode="obs")
    if emitted is None:
        emitted = emit_cases(wd, par, rng, par["sample"])
    _LAST_EMIT[0] = emitted
    cases, r_emit, ncells = emitted
    rep.tlc(r_emit, "Emit_periodic")
    bykey = {(c["fam"], c["cell"], c["inner"]): c for f in FAMS for c in cases[f]}

    # ---- 2. observations of the implementation ---------------------------------------------
    # every case in every admissible presentation (Periodic!PresOf); the results are mapped back
    # to the base case, so on a correct implementation all presentations of a case give the same
    # multiset: TLC judges every DISTINCT observation of a case (normally one).
    obs, dev = run_observations(cases, tier, rep.seed)
    rep.set("max_attr_deviation", dev[0])
    rep.set("max_sim_position_deviation", dev[1])
    idx = {f: [] for f in FAMS}
    val = {f: [] for f in FAMS}
    meta = {f: [] for f in FAMS}
    npres = dict.fromkeys(PRES, 0)
    groups = {}
    for f, cell, inner, pres, o, attr in obs:
        case = bykey[(f, cell, inner)]
        npres[pres] += 1
        rep.evaluated(1, (f, cell, inner, pres))
        for what, msg in attr:
            rep.violation(f"attr:{what}:" + case_key(case, none=pres), msg, {"case": case, "pres": pres})
        canon = {"st": o["st"], "e": sorted(o["e"])}
        groups.setdefault((f, cell, inner), {}).setdefault(json.dumps(canon), (canon, []))[1].append(pres)
    for (f, cell, inner), g in groups.items():
        case = bykey[(f, cell, inner)]
        for canon, names in g.values():
            idx[f].append([cell, inner])
            val[f].append(canon)
            meta[f].append((case, names))
    rep.set("presentations", npres)
    rep.set("distinct_observations_judged", sum(len(v) for v in val.values()))
    (wd / "obs.json").write_text(json.dumps({"idx": idx, "val": val}))
    for f in FAMS:
        if val[f]:
            rep.sample({"case": {k: meta[f][0][0][k] for k in ("dim", "form", "vecs", "pts", "w", "c", "r2x2", "wrap")},
                        "presentations": meta[f][0][1], "observed": val[f][0]})
    for f in FAMS:  # a few larger ones
        big = [i for i, v in enumerate(val[f]) if len(v["e"]) >= 6][:2]
        for i in big:
            rep.sample({"case": {k: meta[f][i][0][k] for k in ("dim", "form", "vecs", "pts", "w", "c", "r2x2", "wrap")},
                        "presentations": meta[f][i][1], "observed": val[f][i]})

    # ---- 3. TLC: exhaustive model + judge of the observations -------------------------------
    write_gen(wd, par, mode=_mode, obs_file="obs.json", variant=_variant)
    (wd / "MC_Periodic.cfg").write_text(CFG)
    # (no action coverage: TLC's cost model expands every operator per call site and runs out of memory
    #  on the presentation laws; "every action was taken" is established from the state counts below)
    res = tlc.run_tlc("Periodic", wd / "MC_Periodic.cfg", wd, workers=8, timeout=3000).require_ok("MC_Periodic")
    rep.tlc(res, "MC_Periodic")
    if res.status == "violation":
        st = tlc.last_state(res)
        cf = st.get("s_cfg")
        key = "model:" + ",".join(res.violated) + ":" + (json.dumps(cf, separators=(",", ":"), sort_keys=True) if isinstance(cf, dict) else str(cf))
        rep.violation(key, f"TLC: invariant(s) {res.violated} of Periodic.tla violated (algorithm of periodicgrid.py vs. "
                           f"definition of the image set); configuration {cf}", st)
    for t in tlc.tagged(res.stdout, "MISMATCH"):
        _, f, cell, inner, k, st, missing, extra, nobs, nexp = t
        case, names = meta[f][k - 1]
        rep.violation(case_key(case, st, names[0]),
                      f"get_localgrid (presentations {names}): status {st}; images required by the specification but not returned: {missing}; "
                      f"returned but not in the specification: {extra}; returned {nobs} entries, specification has {nexp} "
                      f"(entries are <<index, position, weight>>, mapped back to the base presentation)",
                      {"case": case, "pres": names[0], "presentations": names, "observed": val[f][k - 1], "missing": missing, "extra": extra,
                       "params": {k_: par[k_] for k_ in ("CellRadix", "InnerRadix", "RadList")}})
    # non-vacuity: every situation named in the property occurs among the judged cases
    names = ["many_images", "empty_sphere", "wrap_moves", "outside_cell_unwrapped", "partial_skew",
             "empty_range", "inf", "negative_1d", "left_handed", "no_lattice"]
    tot = dict.fromkeys(names, 0)
    judged = 0
    maximg = 0
    for t in tlc.tagged(res.stdout, "FLAGS"):
        judged += 1
        for n_, b in zip(names, t[3]):
            tot[n_] += b
        maximg = max(maximg, t[4])
    rep.set("situations", tot)
    rep.set("largest_local_grid", maximg)
    nobs = sum(len(v) for v in val.values())
    if res.status == "ok" and _mode != "mc" and not sample:
        if judged != nobs:
            raise tlc.MachineryError(f"TLC judged {judged} of {nobs} observations")
        empty = [n_ for n_, v in tot.items() if v == 0] + [n_ for n_, v in npres.items() if v == 0]
        if empty:
            raise tlc.MachineryError(f"vacuous tier bounds: situations never exercised: {empty}")
    rep.set("traces_validated_against_impl", judged)
    if res.status == "ok" and _mode == "both":
        block = 64
        aux = 1 + sum(ncells[f] * (1 + -(-_prod(par["InnerRadix"][f]) // block)) for f in FAMS)
        aux += sum(-(-len(val[f]) // block) + 3 * len(val[f]) for f in FAMS)   # (observation states are distinct per k)
        rep.set("configurations_in_model", (res.distinct - aux) // 3)
        rep.set("valid_cells", ncells)
        # vacuity guard (both tiers): the run consists of 1 initial state, the cell / block states, three
        # states (case, built, done) per enumerated configuration and per judged observation; every valid
        # cell has at least one valid configuration - so PickCell, PickBlock, PickCase, DoConstruct, DoQuery
        # were taken (PickObsBlock / PickObs: judged == nobs above)
        if (res.distinct - aux) % 3 != 0 or (res.distinct - aux) // 3 < sum(ncells.values()) or min(ncells.values()) < 1:
            raise tlc.MachineryError(f"Periodic: unexpected state count {res.distinct} (auxiliary {aux}, valid cells {ncells})")
    rep.set("exhaustive", True)
    rep.set("rule", "one case = one presentation (Periodic!PresOf: base, realvecs=None, real similarity, lattice shifts, other "
                    "basis, sub-grids, session, dtypes / argument forms) of a configuration decoded by TLC, run through "
                    "PeriodicGrid(points, weights, realvecs, wrap).get_localgrid(center, radius), mapped back and judged by TLC "
                    "against Periodic!DeclSet; distinct = distinct (family, cell number, inner number, presentation)")
    rep.assume("real similarities, far lattice shifts and other bases are related to the base configuration by the laws "
               "SimLaw / ScaleLaw / ShiftLaw / BasisLaw / SplitLaw, which TLC checks on their integer instances")
    rep.assume("the k-d tree ball query is modelled as exact ball membership (integer coordinates, 2r^2 odd)")
    rep.assume("the SVD pseudo-inverse is modelled as (A A^T)^-1 A in exact arithmetic; bound to the code by the recivecs/spacings attribute checks")


# ---------------------------------------------------------------------------------------------
# sensitivity: in-process mutants of the library and of the specification's algorithm

class _Quiet(Report):
    """Report that neither writes evidence nor replay files (selftest)."""

    def finish(self):
        return [v for v in self.violations if self._match_known(v["key"]) is None]


def _mutate(cls, name, old, new):
    import inspect
    import sys
    import textwrap
    src = textwrap.dedent(inspect.getsource(cls.__dict__[name]))
    if src.count(old) != 1:
        raise tlc.MachineryError(f"mutant: {old!r} occurs {src.count(old)} times in {cls.__name__}.{name}")
    src = src.replace(old, new).replace("super().__init__(", "Grid.__init__(self, ")
    ns = {}
    exec(compile(src, f"<mutant {cls.__name__}.{name}>", "exec"), vars(sys.modules[cls.__module__]), ns)
    orig = cls.__dict__[name]
    setattr(cls, name, ns[name])
    return orig


MUTANTS = [
    # (name, method, old text, new text, what)
    ("signed_spacing_1d", "__init__", "spacings = abs(1 / self._recivecs)", "spacings = 1 / self._recivecs",
     "the defect repaired by 7b1a7fd: negative 1-D lattice vector gives a negative spacing"),
    ("plus_delta", "get_localgrid", "self._points[indices] - delta", "self._points[indices] + delta",
     "stored position p + delta"),
    ("range_excludes_max", "get_localgrid", "range(imin, imax + 1)", "range(imin, imax)", "off by one: last image dropped"),
    ("spacing_is_vector_length", "__init__", "spacings = 1 / np.linalg.norm(self._recivecs, axis=1)",
     "spacings = np.linalg.norm(realvecs, axis=1)", "plane spacing replaced by |a_j| (wrong on skewed cells only)"),
    ("fmax_in_lower_bound", "get_localgrid", "self._frac_intvls[:, 0] - frac_center - radius", "self._frac_intvls[:, 1] - frac_center - radius",
     "copy/paste slip: lower bound from the maximal fractional coordinate"),
    ("stale_frac_after_wrap", "__init__", "frac_points += frac_shift", "pass",
     "points wrapped, fractional interval taken before wrapping"),
    ("weights_not_indexed", "get_localgrid", "local_weights.append(self._weights[indices])",
     "local_weights.append(self._weights[: len(indices)])", "weights of the first k points instead of the found ones"),
    ("empty_sphere_unrepaired", "get_localgrid", "if len(local_indices) == 0:", "if False:",
     "the defect repaired by 8c448c7: empty sphere raises"),
    ("wrap_rounds", "__init__", "frac_shift = -np.floor(frac_points)", "frac_shift = -np.round(frac_points)",
     "wrap to [-1/2, 1/2] instead of [0, 1): local grids unchanged, stored points outside the documented cell"),
    ("centre_displaced_backwards", "get_localgrid", "displaced_center = center + delta", "displaced_center = center - delta",
     "sphere displaced in the wrong direction"),
    ("wrap_sign_1d", "__init__", "points = points + frac_shift * realvecs", "points = points - frac_shift * realvecs",
     "1-D wrap shifts the points the wrong way (flat 1-D arrays with wrap only)"),
    # ---- presentations (audit round 4): each of these passes the base presentation
    ("wrap_in_place", "__init__", "points = points + frac_shift @ realvecs", "points += frac_shift @ realvecs",
     "wrap writes into the caller's array: session (input modified), int (casting error)"),
    ("ranges_memoised", "get_localgrid", "ilc_iterator = itertools.product(",
     "if getattr(self, '_rng', None) is None:\n        self._rng = (ilc_min, ilc_max)\n    ilc_min, ilc_max = self._rng\n"
     "    ilc_iterator = itertools.product(",
     "translation ranges of the first query kept for later queries: session"),
    ("getitem_drops_lattice", "__getitem__", "np.array(self.weights[index]),\n            self.realvecs,",
     "np.array(self.weights[index]),", "grid[K] forgets the lattice vectors: split"),
    ("getitem_int_drops_lattice", "__getitem__", "np.array([self.weights[index]]),\n            self.realvecs,",
     "np.array([self.weights[index]]),", "grid[i] (integer index) forgets the lattice vectors: split with one selected point"),
    ("centre_truncated", "get_localgrid", "center = np.asarray(center)", "center = np.asarray(center).astype(int)",
     "centre truncated to integers (all integer-valued data unaffected): sim"),
    ("delta_rounded", "get_localgrid", "delta = ilc @ self._realvecs", "delta = np.rint(ilc @ self._realvecs)",
     "lattice translation rounded to integers: sim"),
    ("far_centre_clamped", "get_localgrid", "slack = 1e-9", "slack = 1e-9\n    frac_center = np.clip(frac_center, -100, 100)",
     "fractional centre clamped to 100 cells: shift"),
    ("radius_must_be_float", "get_localgrid", "if not np.isfinite(radius):",
     "if not isinstance(radius, float) or not np.isfinite(radius):", "Python int / 0-d array radius rejected: argforms"),
    ("float64_only", "__init__", "assert recivecs.shape == realvecs.shape",
     "assert recivecs.shape == realvecs.shape and recivecs.dtype == np.float64", "float32 lattice vectors rejected: f32"),
    ("spacing_floor", "__init__", "self._spacings = spacings", "self._spacings = np.maximum(spacings, 0.4)",
     "plane spacings below 0.4 raised to 0.4 (fewer translations; the quick tier's own cells have spacings >= 0.44): basis"),
    ("ceil_becomes_floor_plus_one", "get_localgrid", "ilc_min = np.ceil(", "ilc_min = 1 + np.floor(",
     "EQUIVALENT mutant (differs only when the bound is exactly an integer, where the extra sphere is empty): must NOT be reported"),
]
SPEC_VARIANTS = [("veclen", "algorithm with spacing = |a_j|"), ("plusdelta", "algorithm storing p + delta"),
                 ("stalefrac", "algorithm with fractional interval taken before wrapping"),
                 ("clampfc", "algorithm with the centre's fractional coordinate clamped to 100 cells (refuted by ShiftLaw only)")]


def selftest(tier: str = "quick") -> int:
    from grid.periodicgrid import PeriodicGrid
    small = {"L1": 400, "L2": 400, "L3": 300}
    results = []
    base = _Quiet(PROP, "quick", "model_checking")
    _execute(base, "quick", mode="obs", tag="selftest", sample=small)
    em = _LAST_EMIT[0]      # the same TLC-decoded cases for every mutant
    if base.finish():
        print("selftest: unmutated library is reported - fix the check first", base.finish()[:2])
        return 2
    for name, meth, old, new, what in MUTANTS:
        orig = _mutate(PeriodicGrid, meth, old, new)
        try:
            rep = _Quiet(PROP, "quick", "model_checking")
            _execute(rep, "quick", mode="obs", tag="selftest", sample=small, emitted=em)
            v = rep.finish()
        finally:
            setattr(PeriodicGrid, meth, orig)
        results.append((name, len(v), v[0]["key"] if v else "", what))
        by = sorted({(x.get("case") or {}).get("pres", "model") for x in v})
        print(f"selftest mutant {name}: {'KILLED' if v else 'survived'} ({len(v)} violations; presentations {by}) {v[0]['key'][:110] if v else ''}")
    for var, what in SPEC_VARIANTS:
        rep = _Quiet(PROP, "quick", "model_checking")
        _execute(rep, "quick", variant=var, mode="obs", tag="selftest", sample=small, emitted=em)
        v = [x for x in rep.finish() if x["key"].startswith("model:")]
        results.append(("spec:" + var, len(v), v[0]["key"] if v else "", what))
        print(f"selftest specification variant {var}: {'REFUTED by TLC' if v else 'not refuted'} {v[0]['key'][:160] if v else ''}")
    expected_survivors = {"ceil_becomes_floor_plus_one"}
    bad = [r for r in results if (r[1] == 0) != (r[0] in expected_survivors)]
    print(f"selftest: {sum(1 for r in results if r[1])} of {len(results)} mutants reported; "
          f"expected survivors (equivalent mutants): {sorted(expected_survivors)}; unexpected: {[r[0] for r in bad]}")
    return 1 if bad else 0


def replay(path: str) -> int:
    """Re-run one reported case: drive the implementation again and let TLC judge it again."""
    with open(path) as f:
        v = json.load(f)
    c = v.get("case") or {}
    case = c.get("case")
    if not (isinstance(case, dict) and "fam" in case):
        print("replay: model-level violation; rerunning the check")
        return run(v.get("tier", "quick"))
    pres = c.get("pres") or ("none" if c.get("realvecs_none") else "base")
    case.setdefault("pres", [pres])
    o, attr = observe(case, pres, int(v.get("seed", 0)))
    o = {"st": o["st"], "e": sorted(o["e"])}
    par = c.get("params") or PARAMS[v.get("tier", "quick")]   # numbering of the run that reported it
    wd = tlc.scratch(f"{PROP}-replay")
    obs = {"idx": {f: [] for f in FAMS}, "val": {f: [] for f in FAMS}}
    obs["idx"][case["fam"]].append([case["cell"], case["inner"]])
    obs["val"][case["fam"]].append(o)
    (wd / "obs.json").write_text(json.dumps(obs))
    write_gen(wd, par, mode="obs", obs_file="obs.json", law_every=(1, 0))
    (wd / "MC_Periodic.cfg").write_text(CFG)
    res = tlc.run_tlc("Periodic", wd / "MC_Periodic.cfg", wd, workers=1, timeout=600).require_ok("MC_Periodic")
    mism = tlc.tagged(res.stdout, "MISMATCH")
    if res.status == "ok" and len(tlc.tagged(res.stdout, "FLAGS")) != 1:
        raise tlc.MachineryError("replay: TLC did not judge the case (configuration numbering changed?)")
    print("replay:", case_key(case, none=pres), "-> observed", o, "other problems", attr,
          "TLC:", res.status, "mismatch" if mism else "agrees with Periodic!DeclSet")
    return 1 if (mism or attr or res.status != "ok") else 0
