"""C15 - ODE solvers return the solution of the stated problem under any transformation.

Level: exploration with spec-manufactured oracles (DESIGN.md section 5, C15).

 1. TLC checks ``Ode.tla`` (MC_Ode.cfg): partial Bell polynomials (recurrence = declarative
    partition sum = the six closed forms hard-coded in grid/ode.py, n <= 3; n = 4 recurrence =
    definition), Faa di Bruno for i <= 3 and "the transformed equation is satisfied by the
    transformed solution" as exact polynomial identities (6 maps g x 4 functions Y x 4 coefficient
    tuples), jet laws (M * M^-1, explicit form), and EVERY problem of the manufactured lattice
    (1824 problems: order 1..3, polynomial solution and coefficients over small integers, f
    computed by the specification, two intervals, initial data, boundary-condition patterns with a
    well-posedness rule, assigned transformations admissible).  TLC emits the problems, the
    catalogue of transformations (125 parameterised instances of all 12 classes of
    grid.rtransform), 48 rational helper cases and the Bell matrix as expression trees.
 2. the harness solves the emitted problems with ``solve_ode_ivp`` (DOP853, RK45, Radau;
    rtol = atol = 1e-10; forwards and backwards) and ``solve_ode_bvp`` (tol = 1e-8, zero initial
    guess, 21 mesh points), directly and through the two transformations the specification
    assigns to the solve, evaluates the returned callable at the specification's rational points
    and compares y and all returned derivatives (w.r.t. the ORIGINAL variable) with the exact
    rationals emitted by TLC.  Boundary data of transformed BVPs (documented to be derivatives
    w.r.t. the new variable) are obtained from the exact jets by the specification's Bell matrix.
 3. helper functions (_derivative_transformation_matrix, _transform_ode_from_derivs,
    _rearrange_to_explicit_ode) on the rational cases emitted by TLC.

Tiers: quick = 300 seeded solves (240 BVP/DOP853, 45 RK45, 15 Radau) + all helper cases; thorough =
every BVP and DOP853 solve the specification assigns (15 984) and a seeded third / tenth of the RK45 /
Radau ones (~2 400).  Each solve runs under a CPU-time guard (90 s; sound solves need < 14 s) so that a
defect that makes a solver diverge is reported as a violation, not as a hang.

Acceptance (per derivative order k, relative to max|y^(k)| over the sample points):
  direct solves 1e-6, solves through a transformation 1e-4.

CALIBRATION (2026-09-25, pinned tree, EVERY (problem, solve, transformation) triple the
specification assigns - 26 928 solves, all four solver kinds; the tiers run subsets of exactly
this set, so every seed is covered):
  direct:       IVP worst 1.9e-9 (DOP853), 1.3e-9 (RK45), 1.8e-11 (Radau); BVP worst 1.6e-10
  transformed:  worst per class  Handy(m<=2) 8.5e-8, Knowles 5.7e-8, Power 2.9e-8, MultiExp 1.8e-8,
                Becke 1.4e-8, HandyMod 1.3e-8, Inverse(*) <= 1.2e-8, Exp 7.6e-9, LinearFinite 2.1e-9,
                Identity 2.3e-10
  => margins: direct 2.7 orders below 1e-6 (DESIGN.md asked for 1e-6; kept, margin stated);
     transformed 3.07 orders below 1e-4.  HandyRTransform with m = 3 reached 8.5e-7 (the map spans
     three decades of r on [-1/2, 1/2]) and is therefore not in the catalogue.  Every mutant of the
     selftest produces errors >= 1e-2.
  LinearInfiniteRTransform: all 942 assigned solves raise (AttributeError / TypeError) - genuine
  defect, see gen/proposals/C15-ode-scalar-point-derivatives.diff (repaired in /repo by ca3b528; the
  selftest now takes the repair back and expects the failures to re-appear).

EXTENSION (audit of 2026-09-26; specification spec/OdeX.tla + MC_OdeX.cfg, harness vf/c15x.py)
 4. TLC checks ``OdeX.tla``: 315 problems whose solution and coefficients are expression trees (exp(-x),
    sin 2x + x, 1/(2+x), x exp(x/2), log(2+x), two polynomials; coefficient pools of constants and
    functions with declared signs), f built by the specification's symbolic derivative; exact laws on
    the rational fragment (derivative trees = closed forms, residual identity, declared signs); five
    intervals, three with INTEGER end points exactly on the boundary of the transformation's domain
    and the rule which classes are admitted there; boundary-condition patterns with second
    derivatives, all conditions at one end, permuted order (two-point patterns with a second-
    derivative condition only through affine maps - see the comment at XAffine); the catalogue
    extended by inverses of the half-line classes, double inverses, trim_inf=False and user-defined
    polynomial transformations (monotone where admitted; "the transformed equation is satisfied by the
    transformed solution" and Faa di Bruno as polynomial identities for them; 16 exact helper cases
    with polynomial coefficient FUNCTIONS); the call forms as program dimensions (type of y0 / x_span
    / constants, coefficient container, no_derivatives, bd_cond form, initial guess omitted, four
    meshes, all six scipy methods + every optional argument omitted + a solver class).
 5. the harness executes the assigned solves (6291; quick: a seeded sample of 170 in which every
    dimension occurs at least 3 times; thorough: all BVP / fast methods, a seeded half / third of the
    Radau / RK23 ones) and applies, per solve: accuracy against the 50-digit values of the
    specification's jet trees; shape ((N,) for a transformed solve with no_derivatives=True);
    the prescribed initial / boundary conditions in the variable they are stated in; the same numbers
    for reversed / repeated / single / scalar / 0-d / list / float32 points and after a second solve;
    no argument object modified.

CALIBRATION of the extension (2026-09-26, pinned tree + fixes up to 37c1f44, ALL 6291 assigned solves,
0 exceptions; worst error relative to max|y^(k)|  ->  acceptance  (orders of margin)):
  IVP DOP853/RK45/Radau/class at 1e-10:  direct 2.3e-8 -> 1e-4 (3.6);  transformed 3.0e-8 -> 1e-4 (3.5)
  BVP tol 1e-8:                          direct 1.2e-8 -> 1e-4 (3.9);  transformed 3.7e-7 -> 1e-3 (3.4)
  IVP RK23/BDF/LSODA at 1e-10:           direct 9.3e-8 -> 1e-4 (3.0);  transformed 9.0e-7 -> 1e-3 (3.05)
  IVP, every optional argument omitted:  direct 3.5e-6, transformed 2.7e-6 -> 5e-3 (3.2)
  interval given as float32 array + transformation (grid.rtransform maps the end points in float32):
                                         1.26e-5 (BDF, Knowles k=3) -> 2e-2 (3.2)
  float32 points: transformed 2.3e-6 -> 3e-3 (3.1); direct 1.1e-7 (scipy's LSODA interpolant) -> 1e-4 (3.0)
  same numbers for reversed / repeated / single / scalar / list points: worst 1.1e-15 -> 1e-12
  initial conditions (one-step methods, no float32 interval): |returned - prescribed| <= 1e3 x
      eps (max|y^(k)| + cond(M) max|data|); measured worst 0.32 x (3.5 orders); BDF / LSODA excluded
      (their interpolants do not reproduce the initial point: measured 2.6e-7)
  boundary conditions: derived, not calibrated - scipy accepts a BVP solution only with all boundary
      residuals < tol = 1e-8 (absolute); acceptance 3 x (tol + rounding of the jet mapping);
      measured worst 0.96 x tol
  exact helper cases (polynomial g and coefficients): worst deviation 0 (acceptance 1e-12 relative)
  Every mutant of the selftest aimed at these clauses produces errors >= 1e-1 or an exception.
  One assigned solve was unsound in the first calibration and led to a RULE in the specification instead of a
  tolerance: a two-point pattern with a second-derivative condition through KnowlesRTransform(.,.,1)
  is a singular boundary-value problem in the new variable (XAffine in OdeX.tla).
  Classes with an exponent at the end point x = -1 are not admitted on the boundary intervals (their
  derivative formulas contain (1+x)^(k-2); C03's subject).
GENUINE DEFECT found by the extension (known_findings.d/C15.json, gen/proposals/
C15-transformed-callable-scalar-and-list-points.diff): the callable of a TRANSFORMED solve cannot be
evaluated at a scalar point (IndexError; with no_derivatives=True it returns the state vector in the
NEW variable instead of y(x)) nor at a list of points (TypeError), unlike the callable of the direct
solve of the same problem.
"""
from __future__ import annotations

import json
import math
import os
import random
import time
import warnings
from fractions import Fraction

import numpy as np

from .. import c15x, tlc, tlcx
from ..evidence import Report
from ..expr_eval import evaluate

PROP = "C15"
ACCEPT_DIRECT = 1e-6
ACCEPT_TRANSFORMED = 1e-4
IVP_METHODS = ["DOP853", "RK45", "Radau"]
IVP_TOL = 1e-10
SMALL, SMALL_RTOL, SMALL_ATOL = 1e-6, 1e-4, 1e-13    # data of size 1e-6 solved to 1e-4 RELATIVE: needs atol << 1e-6 * 1e-4
ACCEPT_SMALL = 2e-2                                    # measured <= 2e-4 x max|y^(k)| (calibration below); atol ignored: >= 0.2
BVP_TOL = 1e-8
BVP_MESH = 21
BVP_MAX_NODES = 50000


def fr(q):
    return Fraction(int(q[0]), int(q[1]))


def polyfun(coefs):
    """callable x -> p(x) for integer coefficients c0, c1, ... (numpy Horner)"""
    c = [float(v) for v in coefs]

    def f(x):
        x = np.asarray(x, dtype=float)
        out = np.zeros_like(x)
        for v in reversed(c):
            out = out * x + v
        return out
    return f


def coef_arg(coefs):
    """ODE coefficient as the library accepts it: a number if constant, else a callable."""
    if len(coefs) == 0:
        return 0
    if len(coefs) == 1:
        return float(coefs[0]) if coefs[0] % 2 else int(coefs[0])  # exercise int and float constants
    return polyfun(coefs)


HYP = 9001   # index of the harness-side catalogue entry (not assigned by the specification)
HYP_ENTRY = {"cls": "HyperbolicRTransform", "p": [[1, 2], [1, 50]], "inv": False, "dom": "half"}


def _entry(catalogue, dom, idx):
    return HYP_ENTRY if idx == HYP else catalogue[dom][idx - 1]


def build_transform(entry):
    import grid.rtransform as rt
    cls = getattr(rt, entry["cls"])
    ps = [float(fr(q)) for q in entry["p"]]
    if entry["cls"] in ("KnowlesRTransform", "HandyRTransform", "HandyModRTransform"):
        ps[2] = int(ps[2])
    t = cls(*ps)
    if entry["inv"]:
        t = rt.InverseRTransform(t)
    return t


def tf_name(entry):
    ps = ",".join(str(fr(q)) for q in entry["p"])
    s = f"{entry['cls']}({ps})"
    return f"Inverse({s})" if entry["inv"] else s


def bell_matrix(trees, g, n):
    env = {"g1": g[0], "g2": g[1], "g3": g[2]}
    return np.array([[evaluate(trees[i][j], env, "float") for j in range(n)] for i in range(n)], dtype=float)


def solve_one(job, catalogue, trees):
    """Run one solve.  Returns dict(err=[per derivative], msg=exception text or None, t=seconds)."""
    from grid.ode import solve_ode_bvp, solve_ode_ivp
    p = job["prob"]
    K = p["ord"]
    x0, x1 = float(fr(p["x0"])), float(fr(p["x1"]))
    pts = np.array([float(fr(q)) for q in p["pts"]])
    exact = np.array([[float(fr(v)) for v in row] for row in p["vals"]]).T  # (K, N)
    coeffs = [coef_arg(c) for c in p["a"]]
    fx = polyfun(p["f"])
    tf = None
    if job["tf"] is not None:
        tf = build_transform(_entry(catalogue, p["dom"], job["tf"]))
    t0 = time.time()
    out = {"err": None, "msg": None, "t": 0.0}
    try:
        with warnings.catch_warnings():
            warnings.simplefilter("ignore")
            if job["type"] == "ivp":
                fwd = job["dir"] == "fwd"
                span = (x0, x1) if fwd else (x1, x0)
                # Initial data as numbers of the type the problem states them in.  The manufactured problem is
                # linear, so c*y solves the same equation with right-hand side c*f: every second problem is
                # posed for c = lcm of the denominators of its initial data, which makes the data integers,
                # passed as Python ints or as an integer ndarray ("list or ndarray" of numbers).
                raw = [fr(v) for v in p["ivp"]["fwd" if fwd else "bwd"]]
                y0 = [float(v) for v in raw]
                cden = 1
                for v in raw:
                    cden = cden * v.denominator // math.gcd(cden, v.denominator)
                shared = None
                if int(p["id"]) % 4 == 1:
                    # float ndarray data, used for TWO solves of the same problem (through the transformation,
                    # then directly): both must answer for the stated data
                    y0 = np.array(y0, dtype=float)
                    shared = y0
                if int(p["id"]) % 2 == 0 and cden <= 4096 and not job.get("small"):
                    y0 = [int(v * cden) for v in raw]
                    if int(p["id"]) % 4 == 0:
                        y0 = np.array(y0, dtype=int)
                    f0 = fx
                    fx = (lambda x, f0=f0, cden=cden: cden * f0(x))
                    exact = exact * cden
                rtol, atol = IVP_TOL, IVP_TOL
                if job.get("small"):
                    y0 = [float(v) * SMALL for v in raw]
                    f1 = fx
                    fx = (lambda x, f1=f1: SMALL * f1(x))
                    exact = exact * SMALL
                    shared = None
                    rtol, atol = SMALL_RTOL, SMALL_ATOL
                sol = solve_ode_ivp(span, fx, coeffs, y0, transform=tf, method=job["method"],
                                    no_derivatives=False, rtol=rtol, atol=atol)
                if shared is not None and tf is not None:
                    sol_direct = solve_ode_ivp(span, fx, coeffs, shared, transform=None, method=job["method"],
                                               no_derivatives=False, rtol=IVP_TOL, atol=IVP_TOL)
                    g2 = np.asarray(sol_direct(pts), dtype=float)
                    g2 = g2[None, :] if g2.ndim == 1 else g2
                    sc2 = np.maximum(np.max(np.abs(exact), axis=1), 1e-300)
                    e2 = np.max(np.abs(g2 - exact), axis=1) / sc2 if g2.shape == exact.shape else np.array([np.inf])
                    if not np.all(e2 <= 1e-6):
                        raise AssertionError(f"the direct solve that re-uses the same initial-data array after the transformed "
                                             f"solve is off by {float(np.max(e2)):.3e} (the data array was changed?)")
            else:
                mesh = np.linspace(x0, x1, BVP_MESH)
                increasing = True
                if tf is not None:
                    r = tf.transform(np.array([x0, x1]))
                    increasing = bool(r[0] < r[1])
                    if not increasing:
                        mesh = mesh[::-1].copy()
                bcs = []
                for side, der, val in p["bvp"][job["pattern"]]:
                    xe = x0 if side == 0 else x1
                    value = float(fr(val))
                    if tf is not None and der > 0:
                        # documented: derivative conditions refer to the NEW variable r = g(x):
                        # (d^j y/dx^j)_j = M (d^j Y/dr^j)_j with the specification's Bell matrix
                        jet = [float(fr(v)) for v in p["jets"]["x0" if side == 0 else "x1"]]
                        g = [float(np.asarray(d(np.array([xe]))).ravel()[0]) for d in (tf.deriv, tf.deriv2, tf.deriv3)]
                        m = bell_matrix(trees, g, K - 1)
                        value = float(np.linalg.solve(m, np.array(jet[1:]))[der - 1])
                    bcs.append((side if increasing else 1 - side, der, value))
                sol = solve_ode_bvp(mesh, fx, coeffs, bcs, transform=tf, tol=BVP_TOL, max_nodes=BVP_MAX_NODES,
                                    initial_guess_y=np.zeros((K, mesh.size)), no_derivatives=False)
            got = np.asarray(sol(pts), dtype=float)
        if got.ndim == 1:
            got = got[None, :]
        if got.shape != exact.shape:
            out["msg"] = f"returned shape {got.shape}, expected {exact.shape}"
        else:
            scale = np.maximum(np.max(np.abs(exact), axis=1), 1e-300)
            err = np.max(np.abs(got - exact), axis=1) / scale
            out["err"] = [float(e) if np.isfinite(e) else float("inf") for e in err]
    except Exception as e:  # noqa: BLE001 - every failure of the library is a finding, not a crash
        out["msg"] = f"{type(e).__name__}: {e}"[:300]
    out["t"] = time.time() - t0
    return out


_G = {}


CPU_LIMIT_S = 90.0   # per solve, CPU seconds of the worker (calibration: sound solves need <= 14 s wall on a loaded machine)


class SolveTimeout(Exception):
    pass


def _on_timer(signum, frame):
    raise SolveTimeout(f"solve did not finish within {CPU_LIMIT_S:g} CPU seconds (sound solves: <= 14 s)")


def _worker(job):
    import signal
    signal.signal(signal.SIGVTALRM, _on_timer)
    signal.setitimer(signal.ITIMER_VIRTUAL, CPU_LIMIT_S)
    try:
        if job.get("x"):
            return job["key"], c15x.solve_pair(job)       # extension: spec/OdeX.tla
        return job["key"], solve_one(job, _G["catalogue"], _G["trees"])
    except SolveTimeout as e:   # raised outside solve_one's own try block
        return job["key"], {"err": None, "msg": f"SolveTimeout: {e}", "t": CPU_LIMIT_S}
    finally:
        signal.setitimer(signal.ITIMER_VIRTUAL, 0)


def make_jobs(probs, tier, rng):
    """Jobs = (problem, solve kind, transformation | none), as assigned by the specification."""
    jobs = []
    for p in probs:
        solves = [("ivp", s) for s in range(3)] + [("bvp", n) for n in range(len(p["bvp"]))]
        for typ, s in solves:
            slot = s if typ == "ivp" else 4 + s
            for tf in (None, p["tfs"][slot][0], p["tfs"][slot][1]):
                j = {"prob": p, "type": typ, "tf": tf}
                if typ == "ivp":
                    j.update(method=IVP_METHODS[s], dir=p["ivpdir"][s])
                    j["key"] = (p["id"], f"ivp:{IVP_METHODS[s]}:{p['ivpdir'][s]}", tf)
                else:
                    j.update(pattern=s)
                    j["key"] = (p["id"], "bvp:" + ",".join(f"{a}{b}" for a, b, _ in p["bvp"][s]), tf)
                jobs.append(j)
        # "within the solver tolerance" has two parts: one IVP per problem is posed for 1e-6 x the data (the equation is
        # linear) with rtol = 1e-4 and atol = 1e-13 - the absolute tolerance has to be honoured for the answer to be right
        # relative to the solution's own size
        s0 = p["id"] % 3
        if IVP_METHODS[s0] != "Radau":
            j = {"prob": p, "type": "ivp", "tf": None, "method": IVP_METHODS[s0], "dir": p["ivpdir"][s0], "small": True}
            j["key"] = (p["id"], f"ivp:{IVP_METHODS[s0]}:{p['ivpdir'][s0]}:small-data", None)
            jobs.append(j)
        # HyperbolicRTransform is outside the specification's catalogue (its methods refuse arrays of N points unless
        # b (N - 1) < 1, so a BVP mesh decides whether it is admissible); the initial-value solver evaluates it point
        # by point, so there it is a coordinate transformation like the others: one extra solve per half-line problem
        if p["dom"] == "half" and len(p["pts"]) <= 40 and float(fr(p["x1"])) < 40 and float(fr(p["x0"])) >= 0:
            s = p["id"] % 3
            j = {"prob": p, "type": "ivp", "tf": HYP, "method": IVP_METHODS[s], "dir": p["ivpdir"][s]}
            j["key"] = (p["id"], f"ivp:{IVP_METHODS[s]}:{p['ivpdir'][s]}", HYP)
            jobs.append(j)
    return jobs


def tolerance_clause(rep):
    """'Within the solver tolerance' for data far below 1: the manufactured problems of Ode.tla have polynomial
    solutions, which Runge-Kutta methods of order >= 4 integrate exactly whatever the step - so the tolerances never
    bite there.  Here: y'' + y = 0 (y = c sin x), y' + y = 0 (y = c exp(-x)) and y'' - 4 y = 0 (y = c cosh 2x) with
    c = 1e-6, solved with rtol = 1e-4 and atol = 1e-13, directly and through BeckeRTransform: the answer must be right
    to ~rtol RELATIVE TO c, which needs the caller's atol to reach the integrator (closed forms; harness-level clause)."""
    from grid.ode import solve_ode_ivp
    from grid.rtransform import BeckeRTransform
    c = SMALL
    probs = [("y''+y=0", [1, 0, 1], [0.0, c], lambda x: c * np.sin(x), lambda x: c * np.cos(x)),
             ("y'+y=0", [1, 1], [c], lambda x: c * np.exp(-x), None),
             ("y''-4y=0", [-4, 0, 1], [c, 0.0], lambda x: c * np.cosh(2 * x), lambda x: 2 * c * np.sinh(2 * x))]
    pts = np.linspace(0.05, 0.7, 9)
    worst = 0.0
    for name, coeffs, y0, y, dy in probs:
        for method in ("RK45", "DOP853", "Radau"):
            for tfn in (None, "Becke"):
                tf = None if tfn is None else BeckeRTransform(0.0, 1.0)
                # through the transformation the interval is x in [-1, 1): solve the same equation in r on [0, 0.75] <-> use
                # the inverse picture: y as a function of x = original variable on [0, 0.75] for the direct solve, and
                # for the transformed solve the original variable is x in (-1, 1) with r = tf(x); keep it simple: only the
                # direct interval is used for both (a transformation defined on [-1, 1] contains [0, 0.75])
                key = f"ivp:tolerance:{name}:{method}:{tfn or 'direct'}"
                rep.evaluated(1, key)
                import signal
                signal.signal(signal.SIGVTALRM, _on_timer)      # these solves take milliseconds of CPU; a library that
                signal.setitimer(signal.ITIMER_VIRTUAL, 30.0)    # starts to crawl must give a verdict, not hang the check
                try:
                    with warnings.catch_warnings():
                        warnings.simplefilter("ignore")
                        sol = solve_ode_ivp((0.0, 0.75), lambda x: 0.0 * np.asarray(x, dtype=float), coeffs, list(y0), transform=tf,
                                            method=method, no_derivatives=False, rtol=SMALL_RTOL, atol=SMALL_ATOL)
                        got = np.asarray(sol(pts), dtype=float)
                except SolveTimeout:
                    signal.setitimer(signal.ITIMER_VIRTUAL, 0)
                    rep.violation(key + ":timeout", f"solve_ode_ivp({name}, method={method}, {tfn or 'direct'}) did not finish within 30 CPU seconds "
                                                    "(it takes milliseconds on the pinned tree)", {"problem": name, "method": method})
                    continue
                except Exception as e:  # noqa: BLE001
                    signal.setitimer(signal.ITIMER_VIRTUAL, 0)
                    rep.violation(key + ":raises", f"solve_ode_ivp raised {type(e).__name__}: {e}", {"problem": name, "method": method})
                    continue
                signal.setitimer(signal.ITIMER_VIRTUAL, 0)
                got = got[None, :] if got.ndim == 1 else got
                err = float(np.max(np.abs(got[0] - y(pts)))) / c
                if dy is not None and got.shape[0] > 1:
                    err = max(err, float(np.max(np.abs(got[1] - dy(pts)))) / (2 * c))
                worst = max(worst, err)
                if not err <= ACCEPT_SMALL:
                    rep.violation(key, f"solve_ode_ivp({name}, data of size {c:g}, rtol={SMALL_RTOL:g}, atol={SMALL_ATOL:g}, method={method}, "
                                       f"{'through BeckeRTransform(0, 1)' if tf else 'direct'}) is off by {err:.3g} x the size of the solution "
                                       f"(accepted {ACCEPT_SMALL:g}): the absolute tolerance did not reach the integrator",
                                  {"problem": name, "method": method, "transform": tfn, "rel_err": err})
    rep.set("tolerance_clause_worst_rel_err", worst)


def helper_cases(rep, jets):
    """Rational cases emitted by TLC against the helper functions of grid.ode (exact dyadic
    rationals: the float results must agree to rounding)."""
    from grid import ode
    worst = 0.0
    for c in jets:
        g = [float(fr(q)) for q in c["g"]]
        funcs = [lambda x, v=v: np.full(np.shape(x), v) if np.ndim(x) else v for v in g]
        key = f"helper:jet-case-{c['id']}"
        try:
            for n in (1, 2, 3):
                m = ode._derivative_transformation_matrix(funcs, 0.3, n)
                exp = np.array([[float(fr(c["M"][i][j])) for j in range(n)] for i in range(n)])
                d = float(np.max(np.abs(np.asarray(m) - exp)))
                worst = max(worst, d)
                if not d <= 1e-12 * max(1.0, float(np.max(np.abs(exp)))):
                    rep.violation(f"_derivative_transformation_matrix:order={n}",
                                  f"derivative transformation matrix for (g',g'',g''')={c['g']}: {np.asarray(m).tolist()} "
                                  f"but the Bell matrix of the specification is {exp.tolist()}", c)
            for K in (1, 2, 3):
                a = [float(fr(q)) for q in c["a"][:K]] + [float(fr(c["a"][3]))]
                # expected b from the specification: recompute by linearity from the emitted order-3 case is
                # not possible, so only the full case K = 3 uses c["b"]; K < 3 are checked via the Bell matrix
                x = np.array([0.25, 0.5])
                b = ode._transform_ode_from_derivs(a, funcs, x)
                M = np.array([[float(fr(c["M"][i][j])) for j in range(3)] for i in range(3)])
                exp = np.zeros(K + 1)
                exp[0] = a[0]
                for j in range(1, K + 1):
                    exp[j] = sum(a[k] * M[k - 1][j - 1] for k in range(j, K + 1))
                if K == 3:
                    exp3 = np.array([float(fr(q)) for q in c["b"]])
                    if not np.allclose(exp, exp3, rtol=1e-14, atol=1e-14):
                        raise tlc.MachineryError("harness and specification disagree on CoefTransform")
                d = float(np.max(np.abs(np.asarray(b) - exp[:, None])))
                worst = max(worst, d)
                if b.shape != (K + 1, 2) or not d <= 1e-12 * max(1.0, float(np.max(np.abs(exp)))):
                    rep.violation(f"_transform_ode_from_derivs:order={K}",
                                  f"transformed coefficients for a={a}, (g',g'',g''')={c['g']}: {np.asarray(b)[:, 0].tolist()} "
                                  f"but b_j = sum_k a_k B_kj = {exp.tolist()}", c)
            b = np.array([[float(fr(q))] * 2 for q in c["b"]])
            y = np.array([[float(fr(q))] * 2 for q in c["y"]] + [[0.0, 0.0]])
            f = np.array([float(fr(c["f"]))] * 2)
            f_before = f.copy()
            rhs = ode._rearrange_to_explicit_ode(y, b, f)
            exp = float(fr(c["rhs"]))
            d = float(np.max(np.abs(np.asarray(rhs) - exp)))
            worst = max(worst, d / max(1.0, abs(exp)))
            if not d <= 1e-12 * max(1.0, abs(exp)) or not np.array_equal(f, f_before):
                rep.violation("_rearrange_to_explicit_ode", f"explicit form: {np.asarray(rhs).tolist()} expected {exp}", c)
        except tlc.MachineryError:
            raise
        except Exception as e:  # noqa: BLE001
            rep.violation(key + ":raises", f"{type(e).__name__}: {e}", c)
        rep.evaluated(1, ("jet", c["id"]))
    return worst


def spec_run(wd):
    res = tlc.run_tlc("Ode", "MC_Ode.cfg", wd, workers=8, timeout=900).require_ok("MC_Ode")
    probs = [t[1] for t in tlcx.tagged(res.stdout, "PROB")]
    jets = [t[1] for t in tlcx.tagged(res.stdout, "JET")]
    tfs = tlcx.tagged(res.stdout, "TF")
    if res.status == "ok" and (len(probs) != res.stdout.count('"PROB"') or not probs or not jets or not tfs):
        raise tlc.MachineryError("could not parse the problems emitted by Ode.tla")
    probs.sort(key=lambda p: p["id"])
    cat = {"unit": {}, "half": {}}
    nunit = sum(1 for t in tfs if t[2]["dom"] == "unit")
    for _, n, e in tfs:
        cat[e["dom"]][n if e["dom"] == "unit" else n - nunit] = e
    catalogue = {d: [cat[d][i] for i in sorted(cat[d])] for d in cat}
    with open(wd / "ode_trees.json") as f:
        trees = json.load(f)["bell"]
    return res, probs, jets, catalogue, trees


def run(tier: str, _select=None) -> int:
    rep = Report(PROP, tier, "exploration")
    rng = random.Random(rep.seed)
    wd = tlc.scratch(f"{PROP}-{tier}")
    res, probs, jets, catalogue, trees = spec_run(wd)
    rep.tlc(res, "MC_Ode")
    if res.status == "violation":
        st = tlc.last_state(res)
        rep.violation(f"model:{','.join(res.violated)}:{st.get('pc')}:{st.get('idx')}",
                      f"TLC: invariant(s) {res.violated} of Ode.tla violated; last state {st}", st)
        return rep.finish()
    rep.set("problems_in_model", len(probs))
    rep.set("transform_catalogue", {d: len(v) for d, v in catalogue.items()})

    worst_helper = helper_cases(rep, jets)
    rep.set("helper_worst_abs_dev", worst_helper)

    # ---- extension (spec/OdeX.tla): smooth non-polynomial problems, boundary intervals, call forms ----------
    resx, xdata = c15x.spec_run(wd)
    rep.tlc(resx, "MC_OdeX")
    if resx.status == "violation":
        st = tlc.last_state(resx)
        rep.violation(f"model:OdeX:{','.join(resx.violated)}:{st.get('pc')}:{st.get('idx')}",
                      f"TLC: invariant(s) {resx.violated} of OdeX.tla violated; last state {st}", st)
        return rep.finish()
    c15x.set_data(xdata, trees)
    rep.set("x_problems_in_model", len(xdata["probs"]))
    rep.set("x_admissible_transformations", {e["iv"]: e["n"] for e in xdata["adm"]})
    rep.set("x_helper_worst_rel_dev", c15x.helper_cases(rep, xdata, polyfun, coef_arg))
    xjobs = c15x.make_jobs(xdata)
    rep.set("x_solves_assigned_by_spec", len(xjobs))

    jobs = make_jobs(probs, tier, rng)
    rep.set("solves_assigned_by_spec", len(jobs))
    if _select is not None:
        jobs = _select(jobs, False)
        xjobs = _select(xjobs, True)
    elif tier == "quick":
        xjobs = c15x.sample_quick(xjobs, random.Random(rep.seed + 15))
        # every order / interval / kind present: stratified sample, seeded
        rng.shuffle(jobs)
        fast = [j for j in jobs if j["type"] == "bvp" or j["method"] == "DOP853"]
        rk = [j for j in jobs if j["type"] == "ivp" and j["method"] == "RK45"]
        radau = [j for j in jobs if j["type"] == "ivp" and j["method"] == "Radau"]
        hyp = [j for j in jobs if j["tf"] == HYP and j["method"] != "Radau"]
        hyp += [j for j in jobs if j.get("small")][:24]
        jobs = fast[:240] + rk[:45] + radau[:15]
        jobs += [j for j in hyp if j not in jobs][:40]
    else:
        xjobs = c15x.select_thorough(xjobs, random.Random(rep.seed + 15))
        # RK45 / Radau at 1e-10 are slow (0.3 / 2 s per solve): thorough runs every DOP853 and BVP
        # solve and a seeded third / tenth of the RK45 / Radau ones (the calibration covered all)
        keep = []
        for j in jobs:
            frac = 1.0 if j["type"] == "bvp" or j["method"] == "DOP853" else THOROUGH_FRACTION[j["method"]]
            if rng.random() < frac:
                keep.append(j)
        jobs = keep
    tolerance_clause(rep)
    import multiprocessing as mp
    _G["catalogue"], _G["trees"] = catalogue, trees
    results, xresults = {}, {}
    t0 = time.time()
    with mp.get_context("fork").Pool(POOL) as pool:
        for key, out in pool.imap_unordered(_worker, jobs + xjobs, chunksize=4):
            (xresults if key[0] == "x" else results)[key] = out
    rep.set("solve_wall_s", round(time.time() - t0, 1))
    rep.set("x_calibration", c15x.report(rep, xjobs, xresults))
    rep.set("x_acceptance", {"accuracy": c15x.ACCEPT, "float32_interval": c15x.ACCEPT_F32_SPAN, "same_numbers": c15x.ACCEPT_SAME,
                             "float32_points": c15x.ACCEPT_F32, "ic_factor": c15x.IC_FACTOR, "bc_factor": c15x.BC_FACTOR})
    rep.set("x_solves_run", len(xjobs))

    calib = {}
    bykey = {j["key"]: j for j in jobs}
    for key in sorted(results, key=lambda k: (k[0], k[1], -1 if k[2] is None else k[2])):
        out = results[key]
        j = bykey[key]
        p = j["prob"]
        tfe = None if j["tf"] is None else _entry(catalogue, p["dom"], j["tf"])
        tname = "direct" if tfe is None else tf_name(tfe)
        cls = "direct" if tfe is None else ("Inverse:" if tfe["inv"] else "") + tfe["cls"]
        rep.evaluated(1, key)
        case = {"problem": {k: p[k] for k in ("id", "ord", "dom", "x0", "x1", "a", "f", "y")},
                "solve": key[1], "transform": tname, "errors": out["err"], "exception": out["msg"], "seconds": round(out["t"], 3)}
        if len(rep.cov["samples"]) < 8 and (p["id"] % 97 == 1 or tfe is not None):
            rep.sample(case)
        vkey = f"{key[1].split(':')[0]}:order={p['ord']}:{key[1]}:{tname}:problem={p['id']}"
        accept = ACCEPT_DIRECT if tfe is None else ACCEPT_TRANSFORMED
        if j.get("small"):
            accept = ACCEPT_SMALL
        if out["msg"] is not None:
            rep.violation(vkey + ":raises:" + out["msg"].split(":")[0], f"solve_ode_{j['type']} failed on manufactured problem {p['id']} "
                                            f"(order {p['ord']}, {key[1]}, transform {tname}): {out['msg']}", case)
            continue
        w = max(out["err"])
        g = calib.setdefault(f"{j['type']}:{'small-data' if j.get('small') else 'direct' if tfe is None else 'transformed'}:order{p['ord']}", [0.0, 0])
        g[0] = max(g[0], w)
        g[1] += 1
        g2 = calib.setdefault(f"class:{cls}", [0.0, 0])
        g2[0] = max(g2[0], w)
        g2[1] += 1
        if not w <= accept:
            k = int(np.argmax(out["err"]))
            rep.violation(vkey, f"solve_ode_{j['type']} ({key[1]}, transform {tname}) on manufactured problem {p['id']} of order {p['ord']}: "
                                f"derivative order {k} deviates from the exact polynomial solution by {out['err'][k]:.3g} x max|y^({k})| "
                                f"(accepted: {accept:g})", case)
    rep.set("calibration", {k: {"worst_rel_err": v[0], "solves": v[1]} for k, v in sorted(calib.items())})
    rep.set("acceptance", {"direct": ACCEPT_DIRECT, "transformed": ACCEPT_TRANSFORMED})
    rep.set("rule", "one evaluation = one solve (problem, solver kind, transformation | direct) compared at the specification's "
                    "rational points, or one rational helper case; distinct = distinct (problem id, solve, transformation); "
                    "all problems have a non-constant polynomial solution of degree >= 2 and a non-trivial operator; extension: "
                    "one evaluation = one solve assigned by OdeX.tla (problem X, slot, transformation | direct) with all its "
                    "clauses, or one exact helper case with a polynomial transformation")
    rep.assume("derivative methods of grid.rtransform are used to map boundary DATA of transformed BVPs (verified by C03)")
    rep.assume("scipy.integrate.solve_ivp / solve_bvp meet their tolerances on these well-conditioned problems (calibrated)")
    rep.assume("OdeX.tla: the symbolic derivative D of Expr.tla is checked exactly on the rational families by TLC and against "
               "50-digit numerical differentiation for the transcendental ones by the harness; declared signs of the "
               "transcendental coefficients are checked on a 601-point grid")
    return rep.finish()


THOROUGH_FRACTION = {"RK45": 0.35, "Radau": 0.1}
POOL = 8


_SCALAR_OLD = """    def interpolate_wrt_original_var(pt):
        transf_pts = tf.transform(pt)
        # Row is which func/deriv and Col is points.
        interpolated = result.sol(transf_pts)
        # If derivatives are not wanted then only return y(x).
        if no_derivs:
            if interpolated.ndim == 1:
                return interpolated
            return interpolated[0, :]
        deriv_funcs = [tf.deriv, tf.deriv2, tf.deriv3]
        new_interpolate = np.zeros(interpolated.shape)
        new_interpolate[0, :] = interpolated[0, :]
        for i in range(interpolated.shape[1]):
            # Calculate the jacobian dr/dx of the original domain.
            deriv = _derivative_transformation_matrix(deriv_funcs, pt[i], order - 1)
            new_interpolate[1:, i] = deriv.dot(interpolated[1:, i])
        return new_interpolate
"""
_SCALAR_NEW = """    def interpolate_wrt_original_var(pt):
        pt = np.asarray(pt, dtype=float)
        is_scalar = pt.ndim == 0
        pt = np.atleast_1d(pt)
        transf_pts = tf.transform(pt)
        interpolated = result.sol(transf_pts)
        if no_derivs:
            values = interpolated[0, :]
            return values[0] if is_scalar else values
        deriv_funcs = [tf.deriv, tf.deriv2, tf.deriv3]
        new_interpolate = np.zeros(interpolated.shape)
        new_interpolate[0, :] = interpolated[0, :]
        for i in range(interpolated.shape[1]):
            deriv = _derivative_transformation_matrix(deriv_funcs, float(pt[i]), order - 1)
            new_interpolate[1:, i] = deriv.dot(interpolated[1:, i])
        return new_interpolate[:, 0] if is_scalar else new_interpolate
"""


def selftest(tier: str = "quick") -> int:
    """In-process mutants of grid.ode (the file in /repo is never touched)."""
    from ..mutants import run_mutants, src
    global CPU_LIMIT_S
    CPU_LIMIT_S = 25.0   # mutants can make solves diverge; a timeout is a VIOLATION as well
    M = "grid.ode"
    mutants = [
        ("bell-3-2-factor-3-becomes-2", src(M, "coeff_b[2] += coeff_a_mtr[3] * 3 * derivs[0] * derivs[1]",
                                            "coeff_b[2] += coeff_a_mtr[3] * 2 * derivs[0] * derivs[1]")),
        ("bell-3-1-third-derivative-term-dropped", src(M, "        coeff_b[1] += coeff_a_mtr[3] * derivs[2]\n", "")),
        ("bell-2-1-uses-first-derivative", src(M, "coeff_b[1] += coeff_a_mtr[2] * derivs[1]", "coeff_b[1] += coeff_a_mtr[2] * derivs[0]")),
        ("bell-3-3-square-instead-of-cube", src(M, "coeff_b[3] += coeff_a_mtr[3] * derivs[0] ** 3", "coeff_b[3] += coeff_a_mtr[3] * derivs[0] ** 2")),
        ("ivp-initial-derivatives-mapped-the-wrong-way", src(M, "y_derivs = solve(deriv, np.array(y0[1:]))", "y_derivs = deriv.dot(np.array(y0[1:]))")),
        ("returned-derivatives-left-in-new-variable", src(M, "new_interpolate[1:, i] = deriv.dot(interpolated[1:, i])",
                                                          "new_interpolate[1:, i] = interpolated[1:, i]")),
        ("ivp-coefficients-evaluated-in-new-variable", src(M, "            orig_dom = transform.inverse(x)\n            dy_dx = _transform_and_rearrange_to_explicit_ode(orig_dom, y, coeffs, transform, fx)\n        else:\n            coeffs_mt = _evaluate_coeffs_on_points(x, coeffs)\n            dy_dx = _rearrange_to_explicit_ode(y, coeffs_mt, fx(x))\n        # (*y[1:, :],) returns a tuple of all rows excluding the first row.\n        #    This is due to conversion to system",
                                                           "            orig_dom = x\n            dy_dx = _transform_and_rearrange_to_explicit_ode(orig_dom, y, coeffs, transform, fx)\n        else:\n            coeffs_mt = _evaluate_coeffs_on_points(x, coeffs)\n            dy_dx = _rearrange_to_explicit_ode(y, coeffs_mt, fx(x))\n        # (*y[1:, :],) returns a tuple of all rows excluding the first row.\n        #    This is due to conversion to system")),
        ("explicit-form-sign-of-lower-terms", src(M, "result = result - b * y[i]", "result = result + b * y[i]")),
        ("explicit-form-no-division-by-leading-coefficient", src(M, "    return result / coeff_b[-1]\n", "    return result\n")),
        ("transformation-matrix-diagonal-off-by-one", src(M, "deriv_transf[i, j] = float(bell(i + 1, j + 1, derivs_at_pt))",
                                                          "deriv_transf[i, j] = float(bell(i + 1, j + 1, derivs_at_pt)) if (i, j) != (1, 0) else 0.0")),
        ("bvp-boundary-side-swapped-for-derivative-conditions", src(M, "conds.append(bonds[i][deriv] - value)",
                                                                    "conds.append(bonds[i if deriv == 0 else 1 - i][deriv] - value)")),
        ("constant-int-coefficient-ignored", src(M, "        if isinstance(val, Number):\n            coeff_mtr[i] += val",
                                                 "        if isinstance(val, Number):\n            coeff_mtr[i] += val if not isinstance(val, int) else 0 * val + (val if val >= 0 else 0)")),
        # the repair of ca3b528 (derivatives of the transformation evaluated on a one-element array) taken back:
        # LinearInfiniteRTransform solves raise again
        ("REGRESSION-scalar-point-derivatives", src(M, "[np.ravel(np.asarray(dev(point_arr), dtype=float))[0] for dev in deriv_func_list]",
                                                    "[dev(point) for dev in deriv_func_list]")),
        # ---- mutants that only the clauses of the extension (spec/OdeX.tla, vf/c15x.py) can see --------------------
        ("X-no-derivatives-returns-last-row", src(M, "            values = interpolated[0, :]\n", "            values = interpolated[-1, :]\n")),
        ("X-domain-check-excludes-the-end-points", src(M, "if min(x_span) < transform.domain[0] or max(x_span) > transform.domain[1]:",
                                                       "if min(x_span) <= transform.domain[0] or max(x_span) >= transform.domain[1]:")),
        ("X-bvp-second-derivative-condition-reads-first", src(M, "conds.append(bonds[i][deriv] - value)",
                                                              "conds.append(bonds[i][min(deriv, 1)] - value)")),
        ("X-mapped-initial-derivatives-inherit-float32", src(M, "        y_derivs = solve(deriv, np.array(y0[1:]))\n",
                                                             "        y_derivs = solve(deriv, np.array(y0[1:]))\n"
                                                             "        if getattr(y0, 'dtype', None) == np.float32:\n"
                                                             "            y_derivs = y_derivs.astype(np.float32)\n")),
        ("X-returned-callables-share-the-last-result",
         src(M, "        transf_pts = tf.transform(pt)\n        # Row is which func/deriv and Col is points.\n        interpolated = result.sol(transf_pts)\n",
                "        transf_pts = tf.transform(pt)\n        interpolated = globals().setdefault('_LAST', {}).setdefault('r', result).sol(transf_pts)\n")),
        ("X-constants-must-be-int-or-float", src(M, "        if isinstance(val, Number):\n            coeff_mtr[i] += val",
                                                 "        if isinstance(val, (int, float)):\n            coeff_mtr[i] += val")),
        ("X-right-hand-side-assumed-to-be-an-array", src(M, "    result = fx\n", "    result = fx.copy()\n")),
        ("X-evaluation-points-sorted", src(M, "        pt = np.atleast_1d(pt)\n        transf_pts = tf.transform(pt)\n",
                                           "        pt = np.sort(np.atleast_1d(pt))\n        transf_pts = tf.transform(pt)\n")),
        ("X-random-initial-guess-has-one-row-too-many", src(M, "initial_guess_y = np.random.rand(order, x.size)",
                                                            "initial_guess_y = np.random.rand(order + 1, x.size)")),
        ("X-coefficient-callables-of-the-transformed-equation-see-r", src(M, "    coeff_b = _transform_ode_from_rtransform(coeff_a, tf, x)\n",
                                                                          "    coeff_b = _transform_ode_from_rtransform(coeff_a, tf, tf.transform(x))\n")),
        # the defect repaired by the fix "the callable of a transformed ODE solve cannot be evaluated at a scalar or a
        # list of points", put back: the evaluation-form clauses must report it
        ("REGRESSION-transformed-callable-indexes-its-argument",
         src(M, "        pt = np.asarray(pt, dtype=float)\n        is_scalar = pt.ndim == 0\n        pt = np.atleast_1d(pt)\n",
                "        is_scalar = False\n")),
    ]
    only = os.environ.get("C15_MUTANTS")
    if only:
        mutants = [m for m in mutants if any(m[0].startswith(o) for o in only.split(","))]
    return run_mutants(PROP, run, tier, mutants)


def replay(path: str) -> int:
    """Re-execute the solve recorded in a replay file (the problem is re-emitted by TLC)."""
    with open(path) as f:
        v = json.load(f)
    c = v.get("case") or {}
    if "problem" not in c and "xkey" not in c:
        return run(v.get("tier", "quick"))
    xkey = c.get("xkey")
    if xkey is None:
        pid, solve, tname = c["problem"]["id"], c["solve"], c["transform"]

    def pick(jobs, isx):
        if xkey is not None or isx:
            return [j for j in jobs if isx and xkey is not None and list(j["key"][1:]) == list(xkey)]
        _, _, _, catalogue, _ = _REPLAY["spec"]
        out = []
        for j in jobs:
            if j["key"][0] != pid or j["key"][1] != solve:
                continue
            tfe = None if j["tf"] is None else _entry(catalogue, j["prob"]["dom"], j["tf"])
            if ("direct" if tfe is None else tf_name(tfe)) == tname:
                out.append(j)
        return out
    wd = tlc.scratch(f"{PROP}-replay")
    _REPLAY["spec"] = spec_run(wd)
    from .. import evidence
    old = evidence.EVID
    evidence.EVID = wd / "evidence"     # a replay must not overwrite the evidence of the tiers
    try:
        return run("thorough", _select=pick)
    finally:
        evidence.EVID = old


_REPLAY = {}
