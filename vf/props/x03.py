"""X03 - the product state machine GridSystem: caches, points / weights / neighbour tree and caller
buffers over ONE heap, with the cross-object ALIASING TABLE of the library made explicit
(spec/GridSystem.tla, ShippedShares) and bound to the code.  Not one of the twenty listed properties
(DESIGN.md section 11 / Appendix A).

 1. TLC checks GridSystem exhaustively over abstract library data (2 methods x 2 degrees, <= 3 live
    objects, behaviours of at most D calls - a call counter in the state, CONSTRAINT calls <= D) from the empty state and from three
    scenario starts (molecule with / without stored atoms, grid + local grid sharing arrays):
    FreshIsShipped, CacheClean, NoAliasCacheUser, CacheMonotone (CacheSys), TreeFresh, QueryCorrect,
    ItemCorrect, RejectIsAtomic (LocalGridSys), CallerFrame (CallFrame), and the cross-subsystem laws
    OwnershipDiscipline, FreshIsFresh, NoSpookyAction, EditReachesAliases, IntegralCorrect,
    MolWeightsAtBirth.  Two variants must be refuted (instances receive the cached arrays; a caller that
    queries through a tree outdated by an in-place edit) and three witnesses must be reached.
 2. TLC generates behaviours of 12-14 calls with -simulate (GridSystemGen: class, instance, execution).
    Each is replayed on real objects (AngularGrid, Grid, LocalGrid, AtomGrid, MolGrid) under two
    concretisations of (method, degree); after EVERY call the harness records the full projection of the
    real state: live objects, np.shares_memory between every pair of reachable arrays, the content of every
    array that changed (cell encoding below), which result arrays are the argument arrays, cache integrity
    and aliasing, caller arrays changed by a library call, returned object / value.
 3. TLC judges the recorded traces (GridSystemTrace): every event must be what Do(state, action) of the
    specification predicts - aliasing matrix, contents, observation - else the first failing clause is the
    violation key.

Cell encoding (TLC has no floats): a weight that is integer-valued is itself; any other float is an opaque
token BIG + 64 * id + 32 + e where id names the value up to a power of two 2^e (so doubling is +1; values are
identified up to 1e-11 relative - measured on the pinned tree: the library's arrays are bit-identical (max
deviation 0) to the independent derivation from the shipped files, and distinct weight mantissas differ by
>= 2.3e-2 relative: 9 orders of slack on either side).  A point row that is integer-valued is <<x, y, z>>, else <<BIG + id>>.
"""
from __future__ import annotations

import concurrent.futures as cf
import json
import math
import os
import warnings

import numpy as np

from .. import extract, tlc
from ..evidence import Report

PROP = "X03"
BIG = 100000
INF = -1
MAXOBJS = 5
RGRID = ([1.0, 2.0], [0.5, 0.25])
CEN = [[0.0, 0.0, 0.0], [0.0, 0.0, 3.0]]
# model (method, degree) -> real (method, degree); model method "lebedev" = weights scaled by 4 pi
CONC = {
    "A": {"lebedev": ("lebedev", {3: 3, 5: 5}), "maxdet": ("maxdet", {3: 1, 5: 2})},
    "B": {"lebedev": ("spherical", {3: 3, 5: 5}), "maxdet": ("maxdet", {3: 2, 5: 3})},
}
ACTIONS = ["NewAngular", "NewGrid", "NewGridFrom", "SetPoints", "SetWeights", "Edit", "Query", "GetItem",
           "NewAtom", "GetShell", "NewMol", "GetAtomic", "MolItem", "Integrate", "Drop", "Reject"]
KIND = {"Grid": "Grid", "AngularGrid": "Ang", "LocalGrid": "Loc", "AtomGrid": "Atom", "MolGrid": "Mol"}
SHARE_ROWS = ["GridP", "GridW", "SetP", "SetW", "QInfP", "QInfW", "LocC", "AtomC", "MolAim", "Stored",
              "AtLocP", "AtLocW", "AtLocC", "ItLocP", "ItLocW", "ItLocC"]


# --------------------------------------------------------------------------------------------
# cell encoding

class Cells:
    def __init__(self):
        self.wvals = []     # base values of opaque weight tokens
        self.rows = []      # opaque point rows

    def w(self, arr):
        out = []
        for v in np.asarray(arr, dtype=float).ravel().tolist():
            if not math.isfinite(v):
                out.append(BIG - 1)
            elif float(v).is_integer() and abs(v) < 50000:
                out.append(int(v))
            else:
                out.append(self._wtok(v))
        return out

    def _wtok(self, v):
        for i, u in enumerate(self.wvals):
            ratio = v / u
            if ratio > 0:
                e = int(round(math.log2(ratio)))
                if -32 <= e <= 31 and abs(ratio / 2.0 ** e - 1.0) < 1e-11:
                    return BIG + 64 * i + 32 + e
        self.wvals.append(v)
        return BIG + 64 * (len(self.wvals) - 1) + 32

    def p(self, arr):
        a = np.asarray(arr, dtype=float)
        a = a.reshape(-1, 3)
        out = []
        for row in a:
            if np.all(np.isfinite(row)) and all(float(x).is_integer() and abs(x) < 1000 for x in row):
                out.append([int(x) for x in row])
                continue
            tok = None
            if self.rows and np.all(np.isfinite(row)):
                d = np.max(np.abs(np.asarray(self.rows) - row), axis=1)
                k = int(np.argmin(d))
                if d[k] < 1e-11:
                    tok = k
            if tok is None:
                self.rows.append([float(x) for x in row])
                tok = len(self.rows) - 1
            out.append([BIG + tok])
        return out


def pat_p(v, n):
    return np.array([[k, v, 0] for k in range(n)], dtype=float).reshape(n, 3)


def pat_w(v, n):
    return np.array([100 * v + k for k in range(1, n + 1)], dtype=float)


def pat_f(v, n):
    return np.array([v + (k % 3) for k in range(1, n + 1)], dtype=float)


def pat_aim(v, n):
    return np.array([1 if v == 1 else 1 + (k % 2) for k in range(1, n + 1)], dtype=float)


# --------------------------------------------------------------------------------------------
# contents derived from the shipped files, independently of grid.angular / grid.atomgrid

def _shipped(method, degree, _memo={}):
    key = (str(extract.DATA), method, degree)
    if key not in _memo:
        if "tabs" not in _memo:
            _memo["tabs"] = extract.angular_tables()
        size = dict(_memo["tabs"][method]["deg"])[degree]      # the size the degree table advertises
        z = np.load(extract.DATA / extract.METHODS[method][1] / f"{method}_{degree}_{size}.npz")
        p = np.array(z["points"], dtype=float)
        w = np.array(z["weights"], dtype=float)
        if len(w) == 1:
            w = np.ones(len(p)) * w
        _memo[key] = (p, w)
    return _memo[key]


def build_tab(conc, cells):
    """The constant Tab of GridSystem for one concretisation (JSON for GridSystemTrace.TraceTab)."""
    r, rw = RGRID
    tab = {"nsh": len(r), "cen": [cells.p(c)[0] for c in CEN]}
    for k in ("angp", "angwraw", "angw", "atomw", "atomp", "shellp", "shellw"):
        tab[k] = {m: {} for m in conc}
    for m, (rm, degs) in conc.items():
        for d, rd in degs.items():
            P, W = _shipped(rm, rd)
            Ws = W * 4 * np.pi if rm in ("lebedev", "spherical") else W
            ds = str(d)
            tab["angp"][m][ds] = cells.p(P)
            tab["angwraw"][m][ds] = cells.w(W)
            tab["angw"][m][ds] = cells.w(Ws)
            tab["atomw"][m][ds] = cells.w(np.hstack([Ws * wi * ri ** 2 for ri, wi in zip(r, rw)]))
            tab["atomp"][m][ds] = [cells.p(np.vstack([P * ri + np.array(c) for ri in r])) for c in CEN]
            tab["shellp"][m][ds] = [cells.p(P * ri) for ri in r]
            tab["shellw"][m][ds] = [[cells.w(Ws * wi), cells.w(Ws * wi * ri ** 2)] for ri, wi in zip(r, rw)]
    return tab


def _caches():
    import grid.angular as ang
    return {"lebedev": ang.LEBEDEV_CACHE, "spherical": ang.SPHERICAL_CACHE,
            "maxdet": ang.MAX_DET_CACHE, "ahrens_beylkin": ang.AHRENS_BEYLKIN_CACHE}


# --------------------------------------------------------------------------------------------
# the driver: one behaviour on real objects, one event per call

class Stop(Exception):
    """The behaviour cannot be continued on the real objects (the abstract data of the generator allowed a
    call whose enabling condition depends on the real data)."""


class Driver:
    def __init__(self, cname, cells, variant=0):
        from grid.basegrid import OneDGrid
        self.cname, self.conc, self.cells, self.variant = cname, CONC[cname], cells, variant
        for c in _caches().values():
            c.clear()
        self.slots = [None] * MAXOBJS
        self.store = {}                 # slot -> store flag of a molecular grid
        self.prev = {}                  # (slot, part) -> cells
        self.mine = []                  # arrays made by the caller: [array, snapshot]
        self.rg = OneDGrid(self._mk(RGRID[0]), self._mk(RGRID[1]), (0, np.inf))
        self.events = []

    # -- helpers ----------------------------------------------------------------------------
    def _mk(self, data):
        a = np.array(data, dtype=float)
        self.mine.append([a, a.copy()])
        return a

    def _free(self):
        for i, o in enumerate(self.slots):
            if o is None:
                return i
        raise Stop("no free slot")

    def _obj(self, slot):
        o = self.slots[slot - 1] if 1 <= slot <= MAXOBJS else None
        if o is None:
            raise Stop(f"slot {slot} is empty")
        return o

    @staticmethod
    def kind(o):
        return KIND.get(type(o).__name__, type(o).__name__)

    @staticmethod
    def arrays(o):
        k = Driver.kind(o)
        if k == "Atom":
            return {"w": o.weights, "c": o.center}
        out = {"p": o.points, "w": o.weights}
        if k == "Loc":
            out["c"] = o.center
        if k == "Mol":
            out.update(atw=o.atweights, aim=o.aim_weights, c=o.atcoords)
        return out

    def _cells(self, part, arr):
        return self.cells.p(arr) if part in ("p", "c") else self.cells.w(arr)

    def _cache_arrays(self):
        out = []
        for c in _caches().values():
            for ent in c.values():
                out += [x for x in ent if isinstance(x, np.ndarray)]
        return out

    def _cache_clean(self):
        real = {rm: {rd: d for d, rd in degs.items()} for rm, degs in self.conc.values()}
        for rm, c in _caches().items():
            for deg, ent in c.items():
                if rm not in real or int(deg) not in real[rm]:
                    return False
                P, W = _shipped(rm, int(deg))
                if not (np.array_equal(np.asarray(ent[0]), P) and np.array_equal(np.asarray(ent[1]), W)):
                    return False
        return True

    def _project(self, ev, args=(), edit=False):
        """Fill the projection of the real state into the event."""
        live, arrs = [], []
        for i, o in enumerate(self.slots):
            if o is None:
                continue
            a = self.arrays(o)
            live.append([i + 1, self.kind(o), int(np.asarray(a["w"]).size)])
            for part, arr in a.items():
                arrs.append((i + 1, part, np.asarray(arr)))
        ev["live"] = live
        ev["alias"] = [[[a[0], a[1]], [b[0], b[1]]] for x, a in enumerate(arrs) for b in arrs[x + 1:]
                       if np.shares_memory(a[2], b[2])]
        cur = {}
        for slot, part, arr in arrs:
            cur[(slot, part)] = self._cells(part, arr)
        for i, o in enumerate(self.slots):
            if o is not None and self.kind(o) == "Atom":
                cur[(i + 1, "p")] = self.cells.p(o.points)
        ev["chg"] = [[k[0], k[1], v] for k, v in sorted(cur.items()) if self.prev.get(k) != v]
        self.prev = cur
        ev["given"] = [[s, p] for s, p, arr in arrs if s == ev.get("_new", -1) and any(np.shares_memory(arr, g) for g in args)]
        cache = self._cache_arrays()
        ev["calias"] = [[s, p] for s, p, arr in arrs if any(np.shares_memory(arr, c) for c in cache)]
        ev["cclean"] = bool(self._cache_clean())
        n = 0
        for rec in self.mine:
            if not np.array_equal(rec[0], rec[1]):
                n += 1
                rec[1] = rec[0].copy()
        ev["callerchg"] = n
        ev.pop("_new", None)

    # -- one call -----------------------------------------------------------------------------
    def step(self, a):
        from grid.angular import AngularGrid
        from grid.atomgrid import AtomGrid
        from grid.basegrid import Grid
        from grid.molgrid import MolGrid
        name = a[0]
        ev = {"a": list(a), "exc": "", "ret": 0, "val": 0}
        args = []
        new = None           # (slot, object)
        try:
            if name == "NewAngular":
                rm, degs = self.conc[a[1]]
                new = (self._free(), AngularGrid(degree=degs[a[2]], method=rm, cache=bool(a[3])))
            elif name == "NewGrid":
                P, W = self._mk(pat_p(a[1], a[3])), self._mk(pat_w(a[2], a[3]))
                args = [P, W]
                new = (self._free(), Grid(P, W))
            elif name == "NewGridFrom":
                src = self._obj(a[1])
                P, W = src.points, src.weights
                args = [P, W]
                new = (self._free(), Grid(P, W))
            elif name == "SetPoints":
                o = self._obj(a[1])
                P = self._mk(pat_p(a[2], int(np.asarray(o.weights).size)))
                args = [P]
                ev["_new"] = a[1]
                o.points = P
            elif name == "SetWeights":
                o = self._obj(a[1])
                W = self._mk(pat_w(a[2], int(np.asarray(o.weights).size)))
                args = [W]
                ev["_new"] = a[1]
                o.weights = W
            elif name == "Edit":
                o = self._obj(a[1])
                arr = o.points if a[2] == "p" else self.arrays(o)[a[2]]
                n = int(np.asarray(arr).shape[0])
                arr[...] = pat_p(a[3], n) if a[2] == "p" else pat_w(a[3], n)
            elif name == "Query":
                o = self._obj(a[1])
                if a[3] != INF and any(len(c) != 3 for c in self.cells.p(o.points)):
                    raise Stop("finite radius on points that are not integer-valued")
                if a[3] != INF and int(np.asarray(o.weights).size) == 0:
                    raise Stop("finite radius on an empty grid (raises in the library; undocumented, left out)")
                c = self._mk(a[2])
                args = [c]
                lg = o.get_localgrid(c, np.inf if a[3] == INF else math.sqrt(a[3] / 2.0))
                ev["a"] = list(a[:4]) + [[int(i) for i in np.asarray(lg.indices).tolist()]]
                new = (self._free(), lg)
            elif name == "GetItem":
                o = self._obj(a[1])
                sel = a[2]
                new = (self._free(), o[int(sel[1])] if sel[0] == "int" else o[int(sel[1]):int(sel[2])])
            elif name == "NewAtom":
                rm, degs = self.conc[a[1]]
                c = self._mk(CEN[a[3] - 1])
                args = [c]
                new = (self._free(), AtomGrid(self.rg, degrees=[degs[a[2]]], center=c, method=rm))
            elif name == "GetShell":
                o = self._obj(a[1])
                new = (self._free(), o.get_shell_grid(a[2] - 1, r_sq=bool(a[3])))
            elif name == "NewMol":
                a1, a2 = self._obj(a[1]), self._obj(a[2])
                aim = self._mk(pat_aim(a[3], int(a1.size + a2.size)))
                args = [aim]
                atnums = self._mk([1, 8]).astype(int)
                # the weights are passed as an array or (every other behaviour) through a callback returning it
                how = aim if (self.variant + len(self.events)) % 2 == 0 else (lambda *_: aim)
                slot = self._free()
                new = (slot, MolGrid(atnums, [a1, a2], how, store=bool(a[4])))
                self.store[slot] = bool(a[4])
            elif name in ("GetAtomic", "MolItem"):
                o = self._obj(a[1])
                res = o.get_atomic_grid(a[2] - 1) if name == "GetAtomic" else o[a[2] - 1]
                if name == "GetAtomic" and self.store.get(a[1] - 1, False):
                    ev["ret"] = next((i + 1 for i, x in enumerate(self.slots) if x is res), 0)
                else:
                    new = (self._free(), res)
            elif name == "Integrate":
                o = self._obj(a[1])
                val = float(o.integrate(pat_f(a[2], int(np.asarray(o.weights).size))))
                ev["val"] = int(val) if (math.isfinite(val) and val.is_integer() and abs(val) < 2 ** 30) else BIG
            elif name == "Drop":
                self._obj(a[1])
                self.slots[a[1] - 1] = None
                self.store.pop(a[1] - 1, None)
            elif name == "Reject":
                o = self._obj(a[1])
                n = int(np.asarray(o.weights).size)
                if a[2] == "bad-weights":
                    o.weights = np.zeros(n + 1)
                elif a[2] == "bad-points":
                    o.points = np.zeros((n + 1, 3))
                elif a[2] == "neg-radius":
                    o.get_localgrid(np.zeros(3), -1.0)
                else:
                    o.get_localgrid(np.zeros(7), 1.0)
            else:
                raise tlc.MachineryError(f"unknown action {a}")
        except Stop:
            raise
        except tlc.MachineryError:
            raise
        except Exception as ex:  # noqa: BLE001 - the library failed: an observation, judged by the specification
            ev["exc"] = type(ex).__name__
            new = None
            if name == "Query" and len(ev["a"]) == 4:
                ev["a"] = list(a[:4]) + [[]]
        if new is not None:
            self.slots[new[0]] = new[1]
            ev["_new"] = new[0] + 1
        try:
            self._project(ev, args)
        except Exception as ex:  # noqa: BLE001 - an object that cannot even be read
            ev.update(exc=ev["exc"] or ("state-unreadable:" + type(ex).__name__), live=[], alias=[], chg=[], given=[],
                      calias=[], cclean=True, callerchg=0)
            ev.pop("_new", None)
        self.events.append(ev)
        return ev

    def run(self, beh):
        with warnings.catch_warnings():
            warnings.simplefilter("ignore")
            for a in beh:
                try:
                    ev = self.step(a)
                except Stop:
                    break
                if ev["exc"] and a[0] != "Reject":
                    break
        return self.events


# --------------------------------------------------------------------------------------------
# TLC runs

def _cfg(wd, name, base, **repl):
    """A configuration derived from a static one by replacing `KEY = value` / `KEY <- value` lines."""
    txt = (tlc.SPEC / base).read_text().splitlines()
    out = []
    drop = repl.pop("_drop", ())
    for line in txt:
        s = line.strip()
        key = s.split()[0] if s else ""
        if key in repl and ("=" in s or "<-" in s):
            op = "<-" if "<-" in s else "="
            out.append(f"  {key} {op} {repl[key]}")
        elif any(s == d for d in drop):
            continue
        else:
            out.append(line)
    out += repl.pop("_add", [])
    p = wd / name
    p.write_text("\n".join(out) + "\n")
    return p


def _mc_jobs(tier):
    """(name, cfg replacements, expectation) of the exhaustive runs."""
    small = dict(Vals="MC_Vals1", QCen="MC_QCen1", Radii="MC_Radii2", Sels="MC_Sels1", AimVals="MC_AimVals1", NCen="1")
    jobs = [("MC_empty_c3", dict(MaxDepth=3, Scenario=0), "ok")]
    for sc in (1, 2, 3):
        jobs.append((f"MC_scenario{sc}_c3" + ("s" if tier == "quick" else ""), dict(MaxDepth=3, Scenario=sc, **(small if tier == "quick" else {})), "ok"))
    if tier != "quick":
        jobs.append(("MC_empty_c4s", dict(MaxDepth=4, Scenario=0, **small), "ok"))
        for sc in (1, 2, 3):
            jobs.append((f"MC_scenario{sc}_c4s", dict(MaxDepth=4, Scenario=sc, **small), "ok"))
    inv = ["INVARIANT " + x for x in ("FreshIsShipped", "CacheClean", "NoAliasCacheUser", "TreeFresh", "QueryCorrect", "ItemCorrect",
                                      "OwnershipDiscipline", "FreshIsFresh", "IntegralCorrect", "MolWeightsAtBirth", "CoverInv")]
    prop = ["PROPERTY " + x for x in ("CacheMonotone", "CallerFrame", "NoSpookyAction", "EditReachesAliases", "RejectIsAtomic")]
    keep = lambda *names: tuple(x for x in inv + prop if x.split()[1] not in names)  # noqa: E731
    jobs += [
        ("MC_asShipped", dict(MaxDepth=3, Scenario=0, Aliasing='"asShipped"', _drop=keep("FreshIsShipped", "CacheClean", "NoAliasCacheUser"), **small),
         {"FreshIsShipped", "CacheClean", "NoAliasCacheUser"}),
        ("MC_noDiscipline", dict(MaxDepth=2, Scenario=4, Discipline="FALSE", _drop=keep("TreeFresh"), **small), {"TreeFresh"}),
        ("MC_witnessCross", dict(MaxDepth=3, Scenario=1, _drop=keep(), _add=["INVARIANT WitnessCrossEdit"], **small), {"WitnessCrossEdit"}),
    ]
    if tier == "quick":
        return jobs
    jobs += [
        ("MC_witnessStore", dict(MaxDepth=2, Scenario=2, _drop=keep(), _add=["INVARIANT WitnessStoreVisible"], **small), {"WitnessStoreVisible"}),
        ("MC_witnessRebuild", dict(MaxDepth=3, Scenario=0, _drop=keep(), _add=["INVARIANT WitnessEditThenRebuild"], **small), {"WitnessEditThenRebuild"}),
    ]
    return jobs


def _run_mc(wd, job, workers):
    name, repl, expect = job
    sub = wd / name
    sub.mkdir(parents=True, exist_ok=True)
    cfg = _cfg(sub, name + ".cfg", "MC_GridSystem.cfg", **dict(repl))
    res = tlc.run_tlc("MC_GridSystem", cfg, sub, workers=workers, timeout=1500).require_ok(name)
    return name, expect, res


def _model_runs(wd, tier):
    """Run the exhaustive / refutation / witness instances (two at a time, 3 workers each)."""
    jobs = _mc_jobs(tier)
    with cf.ThreadPoolExecutor(max_workers=2) as ex:
        futs = [ex.submit(_run_mc, wd, j, 3) for j in jobs]
        return [f.result() for f in futs]


def _fold_model_runs(rep, out):
    union = set()
    for name, expect, res in out:
        rep.tlc(res, name)
        if expect == "ok":
            if res.status == "violation":
                rep.violation(f"model:{name}:{','.join(res.violated)}", f"the specification itself violates {res.violated} ({name})", tlc.last_state(res))
            seen = {t[1] for t in tlc.tagged(res.stdout, "COVER")}
            union |= seen
            rep.set(f"actions_covered_{name}", sorted(seen))
        else:
            if res.status != "violation" or not (set(res.violated) & expect):
                raise tlc.MachineryError(f"vacuity: {name} must violate one of {sorted(expect)} but TLC reports {res.status} {res.violated}")
            rep.set(f"{name}_refuted_or_reached", sorted(set(res.violated) & expect))
    missing = [a for a in ACTIONS if a not in union]
    if missing:
        raise tlc.MachineryError(f"vacuity: actions never taken in any exhaustive run: {missing}")


def _gen_one(wd, k, num, maxlen, seed):
    sub = wd / f"gen{k}"
    sub.mkdir(parents=True, exist_ok=True)
    cfg = _cfg(sub, "Gen_GridSystem.cfg", "Gen_GridSystem.cfg", MaxLen=maxlen)
    res = tlc.run_tlc("GridSystemGen", cfg, sub, workers=1, timeout=1500, simulate=f"num={num}", depth=12 * maxlen, seed=seed)
    return res.require_ok(f"Gen{k}")


_BEH_MEMO: dict = {}


def _behaviours(rep, wd, tier):
    key = (tier, rep.seed)
    if key in _BEH_MEMO:
        return _BEH_MEMO[key]
    nproc, num, maxlen = (4, 45, 12) if tier == "quick" else (8, 150, 14)
    with cf.ThreadPoolExecutor(max_workers=nproc) as ex:
        ress = list(ex.map(lambda k: _gen_one(wd, k, num, maxlen, 1000 * rep.seed + k + 1), range(nproc)))
    behs = []
    for k, res in enumerate(ress):
        rep.tlc(res, f"Gen_GridSystem[{k}]")
        if res.status == "violation":
            rep.violation(f"model:gen:{','.join(res.violated)}", f"generation model violates {res.violated}", tlc.last_state(res))
        behs += [b[1] for b in tlc.tagged(res.stdout, "BEH")]
    uniq = []
    seen = set()
    for b in behs:
        s = json.dumps(b)
        if s not in seen:
            seen.add(s)
            uniq.append(b)
    if len(uniq) < nproc * num // 2:
        raise tlc.MachineryError(f"behaviour generation produced only {len(uniq)} behaviours")
    uniq.sort(key=json.dumps)
    _BEH_MEMO[key] = uniq
    return uniq


def _replay(behs, cells_by_conc, concs):
    traces, meta = [], []
    for bi, beh in enumerate(behs):
        for cname in concs:
            if len(concs) > 1 and cname == "B" and bi % 3:
                continue          # the second concretisation replays every third behaviour
            ev = Driver(cname, cells_by_conc[cname], variant=bi).run(beh)
            if ev:
                traces.append(ev)
                meta.append((cname, beh))
    return traces, meta


def _judge(rep, wd, cname, tab, traces, meta, module="GridSystemTrace", cfg="Trace_GridSystem.cfg", tag="Trace"):
    sub = wd / f"{tag}_{cname}"
    sub.mkdir(parents=True, exist_ok=True)
    with open(sub / "tab_x03.json", "w") as f:
        json.dump(tab, f)
    with open(sub / "traces_x03.json", "w") as f:
        json.dump(traces, f)
    res = tlc.run_tlc(module, cfg, sub, workers=1, timeout=3000, xmx="10g").require_ok(f"{tag}_{cname}")
    acc = {t[1] for t in tlc.tagged(res.stdout, "ACCEPT")}
    rej = tlc.tagged(res.stdout, "REJECT")
    return res, acc, rej


def _coverage(traces):
    """Anti-vacuity counts over the replayed events."""
    cnt = {a: 0 for a in ACTIONS}
    rows = {r: 0 for r in SHARE_ROWS + ["QFin", "Item", "AtomPtsTemp"]}
    cross = stored = 0
    for tr in traces:
        kinds = {}
        storeflag = {}
        for e in tr:
            a = e["a"]
            if e["exc"] and a[0] != "Reject":
                continue
            cnt[a[0]] += 1
            pre = dict(kinds)
            kinds = {s: k for s, k, _ in e["live"]}
            if a[0] in ("NewGrid", "NewGridFrom"):
                rows["GridP"] += 1
                rows["GridW"] += 1
            elif a[0] == "SetPoints":
                rows["SetP"] += 1
            elif a[0] == "SetWeights":
                rows["SetW"] += 1
            elif a[0] == "Query":
                rows["LocC"] += 1
                if a[3] == INF:
                    rows["QInfW"] += 1
                    rows["QInfP" if pre.get(a[1]) != "Atom" else "AtomPtsTemp"] += 1
                else:
                    rows["QFin"] += 1
            elif a[0] == "GetItem":
                rows["Item"] += 1
            elif a[0] == "NewAtom":
                rows["AtomC"] += 1
            elif a[0] == "NewMol":
                rows["MolAim"] += 1
                new = [s for s in kinds if s not in pre]
                if new:
                    storeflag[new[0]] = bool(a[4])
            elif a[0] == "GetAtomic":
                if storeflag.get(a[1]):
                    rows["Stored"] += 1
                    stored += 1
                else:
                    for r in ("AtLocP", "AtLocW", "AtLocC"):
                        rows[r] += 1
            elif a[0] == "MolItem":
                for r in ("ItLocP", "ItLocW", "ItLocC"):
                    rows[r] += 1
            elif a[0] == "Edit":
                hit = {(s, kinds.get(s)) for s, _, _ in e["chg"]}
                if len({k for _, k in hit}) > 1:
                    cross += 1
                if pre.get(a[1]) == "Atom" and a[2] == "p":
                    rows["AtomPtsTemp"] += 1
            elif a[0] == "Drop":
                storeflag.pop(a[1], None)
    return cnt, rows, cross, stored


def run(tier: str) -> int:
    rep = Report(PROP, tier, "model_checking")
    wd = tlc.scratch(f"{PROP}-{tier}" + ("-selftest" if os.environ.get("VERIF_SELFTEST") else ""))
    selftest = bool(os.environ.get("VERIF_SELFTEST"))
    behs = _behaviours(rep, wd, tier)
    pool = cf.ThreadPoolExecutor(max_workers=1)
    # the exhaustive runs do not depend on the implementation: not repeated for every mutant of the selftest;
    # they run (6 workers) while the behaviours are replayed and judged (2 processes)
    mc = None if selftest else pool.submit(_model_runs, wd, tier)
    rep.set("tlc_behaviours_generated", len(behs))
    concs = ["A"] if tier == "quick" else ["A", "B"]
    cells = {c: Cells() for c in concs}
    tabs = {c: build_tab(CONC[c], cells[c]) for c in concs}
    traces, meta = _replay(behs, cells, concs)
    nacc = 0
    chunks = []
    for cname in concs:
        idx = [i for i, mt in enumerate(meta) if mt[0] == cname]
        chunks += [(cname, idx[k:k + 450]) for k in range(0, len(idx), 450)]
    with cf.ThreadPoolExecutor(max_workers=2) as jex:     # two judges next to the 6 workers of the exhaustive runs
        verdicts = list(jex.map(lambda ck: _judge(rep, wd, ck[0], tabs[ck[0]], [traces[i] for i in ck[1]], meta, tag=f"Trace{ck[1][0]}"),
                                chunks))
    for (cname, idx), (res, acc, rej) in zip(chunks, verdicts):
        tr = [traces[i] for i in idx]
        rep.tlc(res, f"Trace_GridSystem[{cname}:{idx[0]}..{idx[-1]}]")
        nacc += len(acc)
        if res.status == "violation":
            st = tlc.last_state(res)
            tid = st.get("tid", 0)
            mt = meta[idx[tid - 1]] if isinstance(tid, int) and 0 < tid <= len(idx) else ("?", [])
            rep.violation(f"spec-invariant:{','.join(res.violated)}",
                          f"specification invariant {res.violated} fails while replaying a recorded trace ({cname})",
                          {"conc": mt[0], "behaviour": mt[1]})
        for _, tid, pos, evname, clause in rej:
            cn, beh = meta[idx[tid - 1]]
            ev = tr[tid - 1][pos - 1]
            if clause.startswith("harness:"):
                raise tlc.MachineryError(f"trace {tid} event {pos} ({evname}): {clause}: {json.dumps(ev)[:600]} behaviour {beh}")
            hist = ";".join(e["a"][0] for e in tr[tid - 1][:pos - 1][-4:])
            brief = {k: v for k, v in ev.items() if k != "chg"}
            rep.violation(f"{evname}:{clause}",
                          f"call {pos} ({json.dumps(ev['a'])}) of a replayed behaviour is not what GridSystem allows: {clause}; "
                          f"preceding calls [{hist}]; concretisation {cn}; observed {json.dumps(brief)[:500]}",
                          {"conc": cn, "behaviour": beh, "position": pos})
        if res.status == "ok" and len(acc) + len(rej) != len(tr):
            raise tlc.MachineryError(f"trace validation gave {len(acc)}+{len(rej)} verdicts for {len(tr)} traces")
    for (cn, beh), ev in zip(meta, traces):
        rep.evaluated(len(ev), (cn, json.dumps(beh)))
    cnt, rows, cross, stored = _coverage(traces)
    rep.set("replayed_calls_by_action", cnt)
    rep.set("aliasing_rows_exercised", rows)
    rep.set("edits_visible_through_another_kind_of_object", cross)
    if not rep.violations and not selftest:
        missing = [a for a, n in cnt.items() if n == 0] + [r for r, n in rows.items() if n == 0]
        if missing or cross == 0:
            raise tlc.MachineryError(f"vacuity: never exercised in the replay: {missing} cross-object edits={cross}")
    rep.set("traces_validated_against_impl", len(traces))
    rep.set("traces_accepted", nacc)
    for i in (0, len(traces) // 2, len(traces) - 1):
        if traces:
            rep.sample({"conc": meta[i][0], "behaviour": meta[i][1],
                        "events": [{k: v for k, v in e.items() if k != "chg"} for e in traces[i][:3]]})
    if mc is not None:
        _fold_model_runs(rep, mc.result())
    pool.shutdown()
    if tier == "thorough" and not selftest and not rep.violations:
        # every "shares" row of the aliasing table, flipped in the specification, must be contradicted by the recorded traces
        ia = [i for i, mt in enumerate(meta) if mt[0] == "A"]
        flips = _table_flips(rep, wd, tabs["A"], [traces[i] for i in ia])
        rep.set("aliasing_rows_flipped_traces_rejected", flips)
        dead = [r for r, n in flips.items() if n == 0]
        if dead:
            raise tlc.MachineryError(f"vacuity: aliasing-table rows that no recorded trace contradicts when flipped: {dead}")
    rep.set("rule", "one case = one recorded call of a replayed behaviour (full projection: live objects, aliasing matrix, changed "
                    "contents, argument arrays kept, cache, caller arrays), judged by TLC against Do(state, action) of GridSystem; "
                    "distinct = distinct (concretisation, behaviour)")
    rep.set("exhaustive", False)
    rep.assume("np.shares_memory decides memory overlap of the (contiguous or simply strided) arrays the library hands out")
    rep.assume("floats are identified up to 1e-11 relative (and powers of two) when mapped to tokens; integer-valued floats are exact")
    rep.assume("cKDTree.query_ball_point is exact for radii that no lattice distance attains (R = 2r^2 odd)")
    return rep.finish()


def replay(path: str) -> int:
    with open(path) as f:
        v = json.load(f)
    c = v.get("case") or {}
    if "behaviour" not in c or c.get("conc") not in CONC:
        return run("quick")
    rep = Report(PROP, "quick", "model_checking")
    wd = tlc.scratch(f"{PROP}-replay")
    cname = c["conc"]
    cells = Cells()
    tab = build_tab(CONC[cname], cells)
    beh = c["behaviour"]
    ev = Driver(cname, cells).run(beh)
    res, acc, rej = _judge(rep, wd, cname, tab, [ev], [(cname, beh)])
    rep.tlc(res, "Trace_GridSystem[replay]")
    rep.evaluated(len(ev), "replay")
    rep.evaluated(0, "replay2")
    for _, tid, pos, evname, clause in rej:
        rep.violation(f"{evname}:{clause}", f"call {pos} of the replayed behaviour: {clause}", {"conc": cname, "behaviour": beh, "position": pos})
    if res.status == "violation":
        rep.violation(f"spec-invariant:{','.join(res.violated)}", "specification invariant fails on the replayed trace", {"conc": cname, "behaviour": beh})
    rep.set("traces_validated_against_impl", 1)
    rep.sample({"conc": cname, "behaviour": beh})
    return rep.finish()


# --------------------------------------------------------------------------------------------
# anti-vacuity of the aliasing table: every row that says "shares" is flipped to "copies" in the
# specification; the judge must then REJECT at least one trace recorded from the real code

def _flip_one(wd, row, tab, traces):
    sub = wd / f"Flip_{row}"
    sub.mkdir(parents=True, exist_ok=True)
    (sub / "X03Flip.tla").write_text(
        "---- MODULE X03Flip ----\nEXTENDS GridSystemTrace\n"
        f"FlipShares == [ShippedShares EXCEPT !.{row} = FALSE]\n====\n")
    inv = tuple(line.strip() for line in (tlc.SPEC / "Trace_GridSystem.cfg").read_text().splitlines()
                if line.startswith(("INVARIANT", "PROPERTY")))
    cfg = _cfg(sub, "Flip.cfg", "Trace_GridSystem.cfg", Shares="FlipShares", _drop=inv)
    with open(sub / "tab_x03.json", "w") as f:
        json.dump(tab, f)
    with open(sub / "traces_x03.json", "w") as f:
        json.dump(traces, f)
    res = tlc.run_tlc("X03Flip", cfg, sub, workers=1, timeout=1500, xmx="6g").require_ok(f"Flip_{row}")
    rej = [r for r in tlc.tagged(res.stdout, "REJECT") if not str(r[4]).startswith("harness:")]
    return row, res, rej


def _table_flips(rep, wd, tab, traces, nmax=160):
    """Returns {row: number of traces rejected under the flipped table}."""
    use = traces[::max(1, len(traces) // nmax)][:nmax]      # (the behaviours are sorted: take a strided sample)
    out = {}
    with cf.ThreadPoolExecutor(max_workers=6) as ex:
        for row, res, rej in ex.map(lambda r: _flip_one(wd, r, tab, use), SHARE_ROWS):
            out[row] = len(rej)
            if rep is not None:
                rep.tlc(res, f"Flip_{row}")
    return out


# --------------------------------------------------------------------------------------------
# selftest: in-process mutants of the library (never touches /repo), and the table flips

def selftest(tier: str = "quick") -> int:
    import copy

    import grid.angular as ang
    import grid.atomgrid as ag
    import grid.basegrid as bg
    import grid.molgrid as mg

    from ..evidence import patched, run_mutants

    def inf_copies():   # a defensive copy: the local grid of the whole grid no longer shares the parent's arrays
        orig = bg.Grid.get_localgrid

        def gl(self, center, radius):
            lg = orig(self, center, radius)
            if radius == np.inf:
                return bg.LocalGrid(lg.points.copy(), lg.weights.copy(), lg.center, lg.indices)
            return lg
        return patched(bg.Grid, "get_localgrid", gl)

    def init_copies_weights():   # Grid.__init__ copies the weights it is given
        orig = bg.Grid.__init__

        def init(self, points, weights):
            orig(self, points, weights.copy())
        return patched(bg.Grid, "__init__", init)

    def set_then_validate():   # state written before validation: a rejected assignment leaves damage
        def setter(self, value):
            old = self._weights
            self._weights = value
            if value.shape != old.shape:
                raise ValueError("The shape of the new weights should match the shape of the old weights.")
        return patched(bg.Grid, "weights", property(bg.Grid.weights.fget, setter))

    def atomic_local_copies():   # get_atomic_grid(store=False) hands out copies instead of views
        orig = mg.MolGrid.get_atomic_grid

        def gag(self, index):
            r = orig(self, index)
            if self._atgrids is None:
                return bg.LocalGrid(r.points.copy(), r.weights.copy(), r.center)
            return r
        return patched(mg.MolGrid, "get_atomic_grid", gag)

    def stored_atoms_copied():   # store=True keeps copies of the atomic grids
        orig = mg.MolGrid.__init__

        def init(self, atnums, atgrids, aim_weights, store=False):
            orig(self, atnums, atgrids, aim_weights, store=store)
            if store:
                self._atgrids = [copy.copy(a) for a in atgrids]
        return patched(mg.MolGrid, "__init__", init)

    def cache_handed_out():   # the defect repaired by c8137f6: the instance's points are the cached array
        orig = ang.AngularGrid.__init__

        def init(self, degree=50, *, size=None, cache=True, method="lebedev"):
            orig(self, degree, size=size, cache=cache, method=method)
            cd = {"lebedev": ang.LEBEDEV_CACHE, "spherical": ang.SPHERICAL_CACHE, "maxdet": ang.MAX_DET_CACHE,
                  "ahrens_beylkin": ang.AHRENS_BEYLKIN_CACHE}[method.lower()]
            if self._degree in cd:
                self._points = cd[self._degree][0]
        return patched(ang.AngularGrid, "__init__", init)

    def center_copied():   # AtomGrid copies the centre it is given
        orig = ag.AtomGrid.__init__

        def init(self, rgrid, degrees=[50], *, sizes=None, center=None, rotate=0, method="lebedev"):  # noqa: B006
            orig(self, rgrid, degrees, sizes=sizes, center=center, rotate=rotate, method=method)
            self._center = self._center.copy()
        return patched(ag.AtomGrid, "__init__", init)

    def mol_weights_recomputed():   # MolGrid.weights recomputed on every access from atweights and aim_weights
        return patched(mg.MolGrid, "weights", property(lambda self: self._atweights * self._aim_weights, bg.Grid.weights.fset))

    def getitem_views():   # the np.array(...) copies of Grid.__getitem__ dropped
        def gi(self, index):
            if isinstance(index, (int, np.integer)):
                return self.__class__(np.array([self.points[index]]), np.array([self.weights[index]]))
            return self.__class__(self.points[index], self.weights[index])
        return patched(bg.Grid, "__getitem__", gi)

    def aim_clipped_in_place():   # MolGrid "sanitises" the aim weights it is given, in place
        orig = mg.MolGrid.__init__

        def init(self, atnums, atgrids, aim_weights, store=False):
            orig(self, atnums, atgrids, aim_weights, store=store)
            np.clip(self._aim_weights, 0.0, 1.5, out=self._aim_weights)
        return patched(mg.MolGrid, "__init__", init)

    def stale_tree():   # the defect repaired by 599c742: the neighbour tree survives a points assignment
        def setter(self, value):
            if value.shape != self._points.shape:
                raise ValueError("The shape of the new points should match the shape of the old points.")
            self._points = value
        return patched(bg.Grid, "points", property(bg.Grid.points.fget, setter))

    def atom_points_memoised():   # AtomGrid.points computed once and remembered
        def pts(self):
            if getattr(self, "_cpts", None) is None:
                self._cpts = self._points + self._center
            return self._cpts
        return patched(ag.AtomGrid, "points", property(pts))

    muts = [("localgrid-inf-copies", inf_copies), ("grid-init-copies-weights", init_copies_weights),
            ("weights-set-before-validation", set_then_validate), ("atomic-localgrid-copies", atomic_local_copies),
            ("stored-atoms-copied", stored_atoms_copied), ("angular-cache-handed-out", cache_handed_out),
            ("atomgrid-center-copied", center_copied), ("molgrid-weights-recomputed", mol_weights_recomputed),
            ("getitem-slice-views", getitem_views), ("aim-weights-clipped-in-place", aim_clipped_in_place),
            ("stale-tree", stale_tree), ("atomgrid-points-memoised", atom_points_memoised)]
    rc = run_mutants(PROP, run, muts, tier)
    # the aliasing table itself: every "shares" row flipped must be contradicted by the real code
    wd = tlc.scratch(f"{PROP}-flips")
    rep = Report(PROP, tier, "model_checking")
    behs = _behaviours(rep, wd, tier)
    cells = {"A": Cells()}
    tab = build_tab(CONC["A"], cells["A"])
    traces, _ = _replay(behs, cells, ["A"])
    flips = _table_flips(None, wd, tab, traces)
    dead = [r for r, n in flips.items() if n == 0]
    print(f"selftest {PROP} aliasing-table rows flipped: " + ", ".join(f"{r}:{n}" for r, n in flips.items()))
    print(f"selftest {PROP}: {len(flips) - len(dead)}/{len(flips)} flipped rows contradicted by recorded traces; not contradicted: {dead}")
    return 1 if (rc or dead) else 0
