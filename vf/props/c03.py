"""C03 - radial transforms are analytically self-consistent.

Flow (DESIGN.md section 5, C03; spec/RTransform.tla + spec/ExprX.tla):
 1. TLC checks RTransform.tla (Spec): for every evaluable instance (class, integer exponent) x
    rational parameter set x rational interior point, exactly: G(F(x)) = x,
    D(G)(F(x)) D(F)(x) = 1, the 2nd/3rd order inverse-function identities between D^n(G) and
    D^n(F), sign of D(F) = direction derived from the images of the reference end points, strict
    monotonicity between consecutive lattice points, interior -> interior, reference end points
    -> codomain end points (extended arithmetic with +-inf).  32-bit overflow is detected before
    it happens and leaves the identity "undecided" (never wrong); TLC prints every exact value
    it computed (VAL / END) and writes all derived trees (JsonSerialize).
 2. The harness (a) reproduces every exact value TLC printed from the emitted trees (binds the
    JSON trees to what TLC checked), (b) re-checks ALL identities on the whole lattice with
    unbounded integers / 50 digits (decides what 32 bits left undecided, and the classes with
    transcendental parameters dependence: Exp, Power, symbolic exponents), and
 3. replays the implementation: all 8 methods + domain/codomain of the 11 classes and of
    InverseRTransform(tf), trim_inf on/off, array / NumPy scalar / Python float input, explicit b
    for the b-scaled classes, at the lattice points and at VERIF_SEED-drawn float points and
    float parameters (non-integer k), end points with the trim rule, monotonicity.  Expected
    values: the spec trees evaluated at the exact binary inputs (vf/expr_eval.py, 50 digits);
    step 2(a) ties that evaluator to the rationals TLC printed.

Second layer (spec/RTransformAudit.tla, EXTENDS RTransform; one TLC run checks both layers):
 4. InverseRTransform as a class of its own: the role swap is an involution (ASSUME; the harness
    replays InverseRTransform(InverseRTransform(tf)) against the trees of tf) and the wrapper's
    forward map sends ITS domain ends to ITS codomain ends (InvEndImages, derived from EndPoints;
    replayed on every lattice / random / audit parameter set, both trim settings).
 5. The audit lattice: extreme admissible parameters (negative rmin, length scales 1/1000 and
    1000, integer-valued sets, modified-Handy sizes just above 2^m - 1, exponents 1/2 .. 21/2
    through the symbolic trees) x interior points 2^-7 .. 2^-20 from the ends / far out on the
    half line.  TLC decides the identities where 32 bits suffice (AVAL records, reproduced by the
    evaluator), the harness decides all of them with unbounded integers / 150 digits and replays
    the library there (conformance() as in 3, behind the guard usable_points()).
 6. Argument forms (0-d array, integer array for the maps of [0, inf), longdouble array,
    descending array with duplicates, empty array, ONE array object handed to every method in
    turn: never changed, first method repeated bit for bit) and constructor variants (keywords,
    integer-typed parameters, exponent as float / numpy integer, trim_inf omitted = on): TLC
    emits the catalogue with its applicability (FormArg as index sequences), the harness replays.
 7. The b-protocol of LinearInfinite / Exp / Power constructed without b (the default): TLC
    explores the state machine (BCall; all call sequences of depth 2 / 3 over unsorted and scalar
    arguments), checks BFrozen / BFromFirstCall / BAdmissible / BScalePoint and emits every
    maximal behaviour; the harness replays each on the library: tf.b after every call and every
    value under the model's b.

Tolerance (vf/rtx.py): |obs - f| <= max(1e-9 |f|, 1e3 B), B = running-error bound of the spec
tree (+ the error of the intermediate value for the methods computed through the other side of
the map, + the running error of the equivalent inverse-function-theorem tree a_n / b_n).
Calibration on the pinned tree: see CALIBRATION below (CALIB=1 prints the figures of a run).
"""
from __future__ import annotations

import json
import math
import os
import random
from fractions import Fraction

import numpy as np

from .. import rtx, tlc
from ..evidence import Report
from ..rtx import EPS, FWD, INV, LIB, ev, mp

PROP = "C03"

CALIBRATION = """
thorough tier, VERIF_SEED=0 (pinned tree with the 14 fixes): 4.10e6 float observations, all
accepted (apart from the Knowles end-point finding).  99.2 % have a relative error below 1e-12
(3 orders of magnitude below the 1e-9 test, accepted without looking at B); for the other
3.3e4 (inverse maps / inverse derivatives where the forward map is flat, 1 - exp(-u) for tiny u,
values at zeros of a derivative) B was computed: largest err / max(1e-9 |f|, 1e3 B) = 3.3e-4
(quick tier, seeds 0, 1, 2: 2.8e-4, 2.0e-4, 2.4e-4), i.e. 3.5 orders of magnitude of slack.
The 16 mutants of selftest() produce relative errors >= 2.4e-3 (7 orders of magnitude above the
accepted errors of well-conditioned points); all are reported.

Second layer (audit lattice, forms, variants, b-protocol): same judge, no new tolerance.  The only
new constant is the guard RESOLVE = 1e-9 of usable_points(): an image r = F(x) is used as a
codomain point only if a double-precision evaluation of the SPECIFICATION's inverse map resolves
the distance of x from the ends to 1e-9 (running-error bound of the tree G at r <= 1e-9 * distance).
Without the guard (first attempt, pinned tree): Knowles k = 8 at x = -1 + 2^-7 gives
r - rmin = 1e-19 R, 1 - exp(-1e-19) = 0 in doubles, inverse(r) = -1 exactly and deriv_inverse
raises ZeroDivisionError - float resolution, not a closed form; and the closest accepted
observation was at err / tol = 0.077 (Handy m = 1, rmin = -2, R = 1/1000, r - rmin = 3e-8).
With the guard, thorough audit lattice (100 parameter sets, 1.1e5 observations, pinned tree):
largest err / tol = 9.7e-4 on the purely relative branch (err < 1e-12 |f|), 2.8e-4 where B was
computed - the same margin as in the first layer.  The guard drops 4 to 9 of the 14 near-end
codomain points for the steep maps (it keeps every forward-method point: D^n(F) within
[1e-60, 1e60]); check() fails as machinery if a class is left without a near-end point.
The 20 second-layer mutants of selftest() are run against the second layer only (families
"audit" / "bproto") and are all reported; the 16 first-layer ones against the first layer.
"""

_G = {}  # emission etc. for forked workers


# ---------------------------------------------------------------------------------------------
# TLC

WORKERS = 8


class Audit:
    """What RTransformAudit.tla emitted: the audit lattice, the catalogue of argument forms and
    constructor variants, the b-protocol behaviours, the end points of the inverse wrapper."""

    def __init__(self, path, stdout):
        with open(path) as f:
            d = json.load(f)
        self.inst = d["instances"]
        for i in self.inst:
            i["params"] = [rtx._env(e) for e in i["params"]]
            i["points"] = [[Fraction(q[0], q[1]) for q in pts] for pts in i["points"]]
        bp = d["bproto"]
        self.bclasses = bp["classes"]
        self.binst = bp["inst"]
        self.bparams = [rtx._env(e) for e in bp["params"]]
        self.bargs = [[Fraction(q[0], q[1]) for q in a] for a in bp["args"]]
        self.bdepth = bp["depth"]
        self.avals = {}
        for t in rtx.tagged(stdout, "AVAL"):
            _, j, p, q, fx, rest = t
            self.avals[(j, p, q)] = [fx] + list(rest)
        self.aends = {}
        for t in rtx.tagged(stdout, "AEND"):
            _, j, p, lo, hi, d_ = t
            self.aends[(j, p)] = (lo, hi, d_)
        self.iends = {}
        for t in rtx.tagged(stdout, "IEND"):
            _, j, p, c1, c2, i1, i2 = t
            self.iends[(j, p)] = (c1, c2, i1, i2)
        self.btraces = [(t[1], [(m, a, Fraction(b[0], b[1])) for m, a, b in t[2]]) for t in rtx.tagged(stdout, "BTRACE")]

    def refisdom(self, j):
        return bool(self.inst[j - 1]["refisdom"])


def model(tier: str, wd):
    cfg = "MC_RTransformAudit_thorough.cfg" if tier == "thorough" else "MC_RTransformAudit.cfg"
    res = tlc.run_tlc("RTransformAudit", cfg, wd, workers=WORKERS, timeout=1800).require_ok(cfg)
    if res.status == "violation":
        raise tlc.MachineryError(
            f"RTransform.tla / RTransformAudit.tla is not self-consistent: {res.violated} violated; last state {tlc.last_state(res)}")
    em = rtx.Emission(wd / "rtransform_trees.json")
    vals = {}
    for t in rtx.tagged(res.stdout, "VAL"):
        _, j, p, q, fx, rest = t
        vals[(j, p, q)] = [fx] + list(rest)
    ends = {}
    for t in rtx.tagged(res.stdout, "END"):
        _, j, p, lo, hi, d = t
        ends[(j, p)] = (lo, hi, d)
    em.audit = Audit(wd / "rtransform_audit.json", res.stdout)
    return res, em, vals, ends


# ---------------------------------------------------------------------------------------------
# worker: one (instance, parameter set) of the lattice, or one random parameter set

class Out:
    def __init__(self):
        self.viol = []      # (key, what, case)
        self.mach = []      # machinery problems (spec / evaluator inconsistencies)
        self.n = 0          # float observations compared
        self.keys = set()
        self.samples = []
        self.tlc_values = 0     # exact TLC values reproduced by the evaluator
        self.tlc_undecided = 0  # values TLC could not represent in 32 bits
        self.identities = 0     # identities re-checked with unbounded integers
        self.cond_used = 0
        self.max_ratio = 0.0
        self.max_ratio_budget = 0.0
        self.worst = None
        self.hot = []       # accepted observations closer than 1e-4 to their tolerance (calibration)
        self.edge_kept = 0
        self.edge_kept_r = 0
        self.edge_dropped = 0


TREE_ORDER = ("F", "d1", "d2", "d3", "g1", "g2", "g3")


def _exact_env(env, **extra):
    e = dict(env)
    e.update(extra)
    return e


def _tree_value_exact(tree, env, exact=True):
    """Exact (Fraction) when the tree is rational (lattice points), else 50-digit value; None if singular."""
    if exact and rtx.is_rational_tree(tree):
        try:
            return rtx.ev_exact(tree, env)
        except ZeroDivisionError:
            return None
    return ev(tree, env)


def _same(a, b, scale=1):
    if a is None or b is None:
        return False
    if isinstance(a, Fraction) and isinstance(b, Fraction):
        return a == b
    a = rtx._mpf(a)
    b = rtx._mpf(b)
    if mp.isinf(a) or mp.isinf(b):
        return a == b
    return abs(a - b) <= mp.mpf(10) ** -35 * max(1, abs(a), abs(b), scale)


def spec_checks(out: Out, inst, env, pts, vals, pidx, symbolic_env=None, force_mp=False):
    """(a) evaluator reproduces TLC's exact values; (b) identities with unbounded integers."""
    T = inst.trees
    e0 = dict(env if symbolic_env is None else symbolic_env)
    exact = symbolic_env is None and not force_mp
    prevF = None
    direction = None
    for q, x in enumerate(pts, start=1):
        ex = _exact_env(e0, x=x)
        fx = _tree_value_exact(T["F"], ex, exact)
        if fx is None:
            out.mach.append(f"{inst.label}: F singular at interior point x={x} env={env}")
            continue
        d = {k: _tree_value_exact(T[k], ex, exact) for k in ("d1", "d2", "d3")}
        er = _exact_env(e0, r=fx)
        g = {k: _tree_value_exact(T[k], er, exact) for k in ("G", "g1", "g2", "g3")}
        # (a)
        tv = vals.get((inst.idx, pidx, q)) if vals is not None else None
        if tv is not None:
            mine = [fx] + [d["d1"], d["d2"], d["d3"], g["g1"], g["g2"], g["g3"]][: len(tv) - 1]
            for name, t, m in zip(TREE_ORDER, tv, mine):
                tvv = rtx.dec(t)
                if tvv is None:
                    out.tlc_undecided += 1
                    continue
                out.tlc_values += 1
                if not _same(tvv, m):
                    out.mach.append(f"{inst.label} {name} at x={x} env={env}: TLC printed {tvv}, evaluator gives {m}")
        # (b)
        if None in d.values() or None in g.values():
            out.mach.append(f"{inst.label}: derived tree singular at interior point x={x} env={env}")
            continue
        d1, d2, d3 = d["d1"], d["d2"], d["d3"]
        checks = (
            ("G(F(x)) = x", g["G"], x),
            ("D(G)(F(x)) D(F)(x) = 1", g["g1"] * d1, 1),
            ("D2(G) = -D2(F)/D(F)^3", g["g2"], -d2 / d1 ** 3),
            ("D3(G) = (3 D2(F)^2 - D(F) D3(F))/D(F)^5", g["g3"], (3 * d2 ** 2 - d1 * d3) / d1 ** 5),
        )
        for name, lhs, rhs in checks:
            out.identities += 1
            if not _same(lhs, rhs):
                out.mach.append(f"spec identity {name} fails for {inst.label} at x={x} env={env}: {lhs} vs {rhs}")
        s = 1 if d1 > 0 else -1 if d1 < 0 else 0
        if direction is None:
            direction = s
        out.identities += 1
        if s == 0 or s != direction:
            out.mach.append(f"spec: sign of D(F) changes for {inst.label} at x={x} env={env}")
        if prevF is not None:
            out.identities += 1
            if not ((fx - prevF) * direction > 0):
                out.mach.append(f"spec: F not strictly monotone for {inst.label} before x={x} env={env}")
        prevF = fx
    return direction


def _cmp(out: Out, inst, key_base, what, obs, tree, tenv, var, case, route=None):
    """Compare one float observation with a spec tree."""
    j = rtx.judge(obs, tree, tenv, var, route)
    if j is None:
        out.mach.append(f"{key_base}: spec tree singular for {case}")
        return
    ok, fexp, err, tol, ratio = j
    out.n += 1
    if ok:
        if ratio > 1e-4 and len(out.hot) < 200:
            out.hot.append((ratio, what))
        if ratio > out.max_ratio:
            out.max_ratio = ratio
            out.worst = {"what": what, "observed": float(obs), "expected": fexp, "err": err, "tol": tol}
        if err > 1e-3 * rtx.RTOL * abs(fexp):
            out.cond_used += 1
            out.max_ratio_budget = max(out.max_ratio_budget, ratio)
        return
    kind = "nan" if isinstance(obs, float) and math.isnan(obs) else "value"
    c = dict(case)
    c.update(observed=float(obs), expected=fexp, abs_err=err, tolerance=tol)
    out.viol.append((f"{key_base}:{kind}", f"{what}: observed {float(obs)!r}, specification {fexp!r} (|err| {err:.3g} > tol {tol:.3g})", c))


def _as1d(res, n):
    try:
        a = np.asarray(res, dtype=float)
    except Exception:  # noqa: BLE001
        return None
    if a.shape == (n,):
        return a
    return None


def _scalar(res):
    try:
        a = np.asarray(res, dtype=float).reshape(-1)
    except Exception:  # noqa: BLE001
        return np.zeros(0)
    return a


def conformance(out: Out, inst, fenv, expo, xs, tier, tag, direction, endinfo=None, scalars=True, rkeep=None):
    """Replay the library on one parameter set.  fenv: floats; xs: ascending float interior points.
    rkeep (audit lattice): mask of the points whose image may be used as a codomain point."""
    from grid.rtransform import InverseRTransform
    T = inst.trees
    names_p = [n for n in inst.pnames if n in fenv]
    tenv_p = rtx.tree_env(fenv)
    if inst.ename and not inst.ip:
        tenv_p[inst.ename] = rtx._mpf(expo)
        names_p = names_p + [inst.ename]
    lbl = LIB[inst.cls]
    esfx = f":{inst.ename}={expo}" if inst.ename and float(expo).is_integer() else (f":{inst.ename}=non-integer" if inst.ename else "")
    base_case = {"class": lbl, "params": fenv, "exponent": expo, "tag": tag}

    # images r_j = F(x_j) rounded to floats: the interior points of the codomain used for the
    # inverse-direction methods
    fx = [ev(T["F"], dict(tenv_p, x=rtx._mpf(x))) for x in xs]
    if any(v is None for v in fx):
        out.mach.append(f"{lbl}: F singular at an interior point, env={fenv}")
        return
    rs = np.array([float(v) for v in fx])
    xs = np.asarray(xs, dtype=float)
    rs_all = rs
    xs_r = xs
    if rkeep is not None:
        rk = np.asarray(rkeep, dtype=bool)
        xs_r, rs = xs[rk], rs[rk]
    chunk = rtx.hyper_chunk(fenv["b"]) if inst.cls == "Hyperbolic" else max(len(xs), 1)

    def chunks(a):
        return [a[i:i + chunk] for i in range(0, len(a), chunk)]

    trims = (True, False) if inst.trims else (None,)
    for trim in trims:
        tf, exc = rtx.call(rtx.make_tf, inst, fenv, expo, trim)
        if exc is not None:
            out.viol.append((f"{lbl}{esfx}:constructor:exception", f"constructor raised {type(exc).__name__}: {exc} for admissible parameters {fenv}", base_case))
            return
        inv, exc = rtx.call(InverseRTransform, tf)
        if exc is not None:
            out.viol.append((f"InverseRTransform({lbl}):constructor:exception", f"{type(exc).__name__}: {exc}", base_case))
            inv = None
        # roles: (object, key prefix, trees, decl, points for x-methods, points for r-methods, x-var values)
        roles = [(tf, lbl, T, inst.decl, xs, rs)]
        if inv is not None:
            roles.append((inv, f"InverseRTransform({lbl})", inst.inv_trees, inst.inv_decl, rs, xs_r))
        for obj, pre, trees, decl, px, pr in roles:
            case0 = dict(base_case, trim_inf=trim, object=pre)
            # domain / codomain
            for attr in ("domain", "codomain"):
                val, exc = rtx.call(getattr, obj, attr)
                want = [ev(t, tenv_p) for t in decl["dom" if attr == "domain" else "cod"]]
                out.n += 1
                out.keys.add((pre + esfx, attr, tag))
                good = False
                if exc is None:
                    try:
                        good = len(val) == 2 and all(rtx.judge_value(float(v), w)[0] for v, w in zip(val, want))
                    except Exception:  # noqa: BLE001
                        good = False
                if not good:
                    out.viol.append((f"{pre}.{attr}:value", f"{attr} is {val!r} (exception {exc!r}), specification {[float(w) for w in want]}", case0))
            for group, var, pts in ((FWD, "x", px), (INV, "r", pr)):
                for meth, tname in group:
                    tree = trees[tname]
                    fn, exc = rtx.call(getattr, obj, meth)
                    if exc is not None:
                        out.viol.append((f"{pre}.{meth}:missing", f"{exc}", case0))
                        continue
                    keyb = f"{pre}.{meth}{esfx}"
                    # methods computed through the other side of the map: derivatives of the inverse
                    # (x = inverse(r) first), and every derivative of the InverseRTransform wrapper
                    route = None
                    if var == "r" and meth != "inverse":
                        alt = trees["a" + tname[-1]]         # D^n(G) from D^n(F), a tree in x, at x = G(r)
                        route = ("via", trees["G"], alt, "x") if obj is tf else ("roundtrip", trees["G"], trees["F"], alt, "x")
                    elif var == "x" and meth != "transform" and obj is not tf:
                        route = ("via", trees["F"], trees["b" + tname[-1]], "r")
                    # array input
                    got = []
                    bad = False
                    for part in chunks(pts):
                        res, exc = rtx.call(fn, part.copy())
                        if exc is not None:
                            out.viol.append((f"{keyb}:array:exception", f"{meth}(array of {len(part)} interior points) raised {type(exc).__name__}: {exc}", dict(case0, method=meth, points=part)))
                            bad = True
                            break
                        a = _as1d(res, len(part))
                        if a is None:
                            out.viol.append((f"{keyb}:array:shape", f"{meth}(array of {len(part)}) returned shape {np.shape(res)}", dict(case0, method=meth, points=part)))
                            bad = True
                            break
                        got.extend(a.tolist())
                    if not bad:
                        for i, (p, o) in enumerate(zip(pts, got)):
                            out.keys.add((pre + esfx, meth, tag, i))
                            _cmp(out, inst, keyb, f"{pre}.{meth}({var}={p!r}) [array], params {fenv}, exponent {expo}, trim_inf={trim}",
                                 o, tree, dict(tenv_p, **{var: rtx._mpf(p)}), var,
                                 dict(case0, method=meth, mode="array", point=float(p)), route)
                    # NumPy scalar input (and Python float where the class documents it)
                    if scalars:
                        modes = [("numpy-scalar", np.float64)]
                        if inst.cls in ("LinearFinite", "Identity"):
                            modes.append(("python-float", float))
                        for mname, conv in modes:
                            for p in pts:
                                res, exc = rtx.call(fn, conv(p))
                                if exc is not None:
                                    out.viol.append((f"{keyb}:{mname}:exception", f"{meth}({mname} {p!r}) raised {type(exc).__name__}: {exc}", dict(case0, method=meth, mode=mname, point=float(p))))
                                    break
                                a = _scalar(res)
                                if a.size != 1:
                                    out.viol.append((f"{keyb}:{mname}:shape", f"{meth}({mname}) returned {a.size} values", dict(case0, method=meth, mode=mname, point=float(p))))
                                    break
                                _cmp(out, inst, keyb, f"{pre}.{meth}({var}={p!r}) [{mname}], params {fenv}, exponent {expo}, trim_inf={trim}",
                                     float(a[0]), tree, dict(tenv_p, **{var: rtx._mpf(p)}), var,
                                     dict(case0, method=meth, mode=mname, point=float(p)), route)
        # monotone in the direction the specification derives
        if direction in (1, -1) and len(xs) > 1 and chunk >= len(xs):
            res, exc = rtx.call(tf.transform, xs.copy())
            if exc is None:
                a = _as1d(res, len(xs))
                out.n += 1
                if a is not None and rkeep is not None:
                    # audit lattice: strictly monotone where the images are resolvable floats,
                    # never decreasing (in the derived direction) anywhere
                    if not (np.all(np.diff(a[rk]) * direction > 0) and np.all(np.diff(a) * direction >= 0)):
                        out.viol.append((f"{lbl}.transform{esfx}:not-monotone", f"transform is not {'increasing' if direction > 0 else 'decreasing'} on {xs.tolist()} (strictly on {xs[rk].tolist()}): {a.tolist()}", dict(base_case, trim_inf=trim)))
                elif a is not None and not np.all(np.diff(a) * direction > 0):
                    out.viol.append((f"{lbl}.transform{esfx}:not-monotone", f"transform is not strictly {'increasing' if direction > 0 else 'decreasing'} on {xs.tolist()}: {a.tolist()}", dict(base_case, trim_inf=trim)))
        # reference end points -> codomain end points, infinity trimmed
        if endinfo is not None:
            _endpoints(out, inst, tf, lbl, esfx, fenv, tenv_p, expo, trim, endinfo, base_case)
            if inv is not None and endinfo[1] in (1, -1) and _G.get("em") is not None and _G["em"].audit.refisdom(inst.idx):
                _inv_endpoints(out, inst, inv, lbl, esfx, tenv_p, endinfo[1], base_case, trim)
    if len(out.samples) < 2:
        out.samples.append({"class": lbl, "exponent": expo, "params": fenv, "points": xs[:3].tolist(), "codomain_points": rs_all[:3].tolist(), "tag": tag})


def _endpoints(out, inst, tf, lbl, esfx, fenv, tenv_p, expo, trim, endinfo, base_case):
    trim_value, direction = endinfo
    refs = [ev(t, tenv_p) for t in inst.decl["ref"]]
    cods = [ev(t, tenv_p) for t in inst.decl["cod"]]
    want = cods if direction > 0 else cods[::-1]
    for which, (p, w) in enumerate(zip(refs, want)):
        pf = float(p)
        if inst.cls == "Hyperbolic" and which == 1:
            # the pole 1/b is a reference point only where 1 - b*(1/b) is exactly zero in floats
            if not (fenv["b"] * pf == 1.0):
                continue
        wf = float(w)
        if math.isinf(wf) and inst.trims and trim:
            wf = math.copysign(trim_value, wf)
        for mname, arg in (("numpy-scalar", np.float64(pf)), ("array", np.array([pf]))):
            res, exc = rtx.call(tf.transform, arg)
            out.n += 1
            out.keys.add((lbl + esfx, "endpoint", str(base_case.get("tag")), which, mname))
            case = dict(base_case, trim_inf=trim, end_point=pf, mode=mname)
            if exc is not None:
                out.viol.append((f"{lbl}.transform{esfx}:endpoint:exception", f"transform({pf!r}) raised {type(exc).__name__}: {exc}", case))
                continue
            a = _scalar(res)
            ok = a.size == 1 and rtx.judge_value(float(a[0]), rtx._mpf(wf))[0]
            if not ok:
                out.viol.append((f"{lbl}.transform{esfx}:endpoint:value",
                                 f"reference end point {pf!r} must go to the codomain end {wf!r} (trim_inf={trim}); transform returned {a.tolist()} for params {fenv}, exponent {expo}", dict(case, observed=a.tolist(), expected=wf)))


# ---------------------------------------------------------------------------------------------
# second layer (spec/RTransformAudit.tla): inverse wrapper, argument forms, constructor variants,
# audit lattice, b-protocol

def _route(is_tf, var, meth, trees, tname):
    """How the library reaches a method (for the error budget): see conformance()."""
    if var == "r" and meth != "inverse":
        alt = trees["a" + tname[-1]]
        return ("via", trees["G"], alt, "x") if is_tf else ("roundtrip", trees["G"], trees["F"], alt, "x")
    if var == "x" and meth != "transform" and not is_tf:
        return ("via", trees["F"], trees["b" + tname[-1]], "r")
    return None


class Expect:
    """Spec-tree values at the points of one parameter set, evaluated once."""

    def __init__(self, tenv_p):
        self.tenv_p = tenv_p
        self.c = {}

    def env(self, var, p):
        return dict(self.tenv_p, **{var: rtx._mpf(p)})

    def get(self, tree, var, p):
        k = (id(tree), var, float(p))
        if k not in self.c:
            self.c[k] = ev(tree, self.env(var, p))
        return self.c[k]


def _cmpx(out: Out, keyb, what, obs, ex: Expect, tree, var, p, route, case):
    """_cmp with a cached expected value."""
    exp = ex.get(tree, var, p)
    if exp is None:
        out.mach.append(f"{keyb}: spec tree singular for {case}")
        return
    tenv = ex.env(var, p)
    ok, fexp, err, tol, ratio = rtx.judge_value(obs, exp, lambda: rtx.error_budget(tree, tenv, var, route))
    out.n += 1
    if ok:
        if ratio > 1e-4 and len(out.hot) < 200:
            out.hot.append((ratio, what))
        if ratio > out.max_ratio:
            out.max_ratio = ratio
            out.worst = {"what": what, "observed": float(obs), "expected": fexp, "err": err, "tol": tol}
        if err > 1e-3 * rtx.RTOL * abs(fexp):
            out.cond_used += 1
            out.max_ratio_budget = max(out.max_ratio_budget, ratio)
        return
    kind = "nan" if isinstance(obs, float) and math.isnan(obs) else "value"
    c = dict(case)
    c.update(observed=float(obs), expected=fexp, abs_err=err, tolerance=tol, layer="audit")
    c.pop("point", None)
    out.viol.append((f"{keyb}:{kind}", f"{what}: observed {float(obs)!r}, specification {fexp!r} (|err| {err:.3g} > tol {tol:.3g})", c))


def _inv_endpoints(out, inst, inv, lbl, esfx, tenv_p, direction, base_case, trim):
    """InverseRTransform(tf) is a transform class of its own: its forward map (G) sends its domain
    ends (the codomain ends of tf) to its codomain ends.  Expected images: RTransformAudit!InvEndImages
    (the reference end points of tf in the order given by the direction)."""
    cods = [ev(t, tenv_p) for t in inst.decl["cod"]]
    refs = [ev(t, tenv_p) for t in inst.decl["ref"]]
    want = refs if direction > 0 else refs[::-1]
    pre = f"InverseRTransform({lbl})"
    for which, (c, w) in enumerate(zip(cods, want)):
        cf, wf = float(c), float(w)
        for mname, arg in (("numpy-scalar", np.float64(cf)), ("array", np.array([cf]))):
            res, exc = rtx.call(inv.transform, arg)
            out.n += 1
            out.keys.add((pre + esfx, "endpoint", str(base_case.get("tag")), which, mname))
            case = dict(base_case, trim_inf=trim, object=pre, end_point=cf, mode=mname, layer="audit")
            keyb = f"{pre}.transform{esfx}:endpoint(r={cf!r})"
            if exc is not None:
                out.viol.append((f"{keyb}:exception", f"transform({cf!r}) raised {type(exc).__name__}: {exc}", case))
                continue
            a = _scalar(res)
            ok = a.size == 1 and rtx.judge_value(float(a[0]), rtx._mpf(wf))[0]
            if not ok:
                kind = "nan" if a.size == 1 and math.isnan(float(a[0])) else "value"
                out.viol.append((f"{keyb}:{kind}",
                                 f"the domain end {cf!r} of {pre} must go to its codomain end {wf!r}; transform returned {a.tolist()} "
                                 f"for params {base_case.get('params')}, exponent {base_case.get('exponent')}", dict(case, observed=a.tolist(), expected=wf)))


def usable_points(inst, tenv_p, xs):
    """Guard of the audit lattice (points 2^-7 .. 2^-20 from an end, extreme scales).  Two masks:
    keepx - the forward methods are judged at x: F(x) is finite and D(F), D2(F), D3(F) there are
            inside [1e-60, 1e60];
    keepr - the image r = F(x), rounded to a float, may serve as a codomain point (everything that
            goes through inverse(r)): r is strictly inside the codomain, the derivatives of G there
            are inside [1e-60, 1e60] (the inverse-function formulas take fifth powers), the exact
            pre-image of the rounded r is x up to 1e-3 of its distance from the ends, and a
            double-precision evaluation of the specification's own G resolves that distance
            (running-error bound of G at r <= RESOLVE * distance).
    Everything else would test float overflow and the resolution of r next to rmin (1 - exp(-u)
    for u below 1e-16 is 0 in any straightforward implementation), not the closed forms."""
    T = inst.trees
    lo, hi = (ev(t, tenv_p) for t in inst.decl["use"])
    clo, chi = (float(ev(t, tenv_p)) for t in inst.decl["cod"])
    small, big = mp.mpf("1e-60"), mp.mpf("1e60")
    keepx, keepr = [], []

    def inrange(trees_env):
        for k, ee in trees_env:
            v = ev(T[k], ee)
            if v is None or (v != 0 and not (small < abs(v) < big)):
                return False
        return True

    for x in xs:
        xm = rtx._mpf(x)
        e = dict(tenv_p, x=xm)
        fx = ev(T["F"], e)
        okx = fx is not None and not mp.isinf(fx) and inrange((("d1", e), ("d2", e), ("d3", e)))
        okr = False
        if okx:
            r = float(fx)
            okr = clo < r < chi and not math.isinf(r)
        if okr:
            er = dict(tenv_p, r=rtx._mpf(r))
            back = ev(T["G"], er)
            dist = xm - lo if mp.isinf(hi) else min(xm - lo, hi - xm)
            okr = back is not None and abs(back - xm) <= mp.mpf("1e-3") * dist and inrange((("g1", er), ("g2", er), ("g3", er)))
            if okr:
                re_ = rtx.running_error(T["G"], er)
                okr = re_ is not None and re_[1] <= RESOLVE * dist
        keepx.append(bool(okx))
        keepr.append(bool(okr))
    return keepx, keepr


RESOLVE = 1e-9      # see CALIBRATION (audit lattice)


def _objects(inst, fenv, expo):
    from grid.rtransform import InverseRTransform
    tf = rtx.make_tf(inst, fenv, expo, True if inst.trims else None)
    return tf, InverseRTransform(tf)


def forms_pass(out: Out, inst, fenv, expo, tenv_p, esfx, xs, rs, keepx, keepr, forms, tag):
    """RTransformAudit!Forms: the value of a method at a point does not depend on the form in which
    the point set is handed over.  xs / rs: the whole lattice (floats) and its images; keep: guard."""
    lbl = LIB[inst.cls]
    tf, inv = _objects(inst, fenv, expo)
    ex = Expect(tenv_p)
    chunk = rtx.hyper_chunk(fenv["b"]) if inst.cls == "Hyperbolic" else 10 ** 9
    base = {"class": lbl, "params": fenv, "exponent": expo, "tag": tag, "layer": "audit"}
    for obj, pre, trees, px, pr, is_tf in ((tf, lbl, inst.trees, xs, rs, True),
                                            (inv, f"InverseRTransform({lbl})", inst.inv_trees, rs, xs, False)):
        for group, var, pts, lattice_side in ((FWD, "x", px, is_tf), (INV, "r", pr, not is_tf)):
            shared = None
            for meth, tname in group:
                tree = trees[tname]
                fn = getattr(obj, meth)
                route = _route(is_tf, var, meth, trees, tname)
                # only the forward methods of the transform itself never go through inverse(r)
                keep = keepx if (is_tf and var == "x") else keepr
                for f in forms:
                    if not f["applies"]:
                        continue
                    form = f["form"]
                    idx = [i - 1 for i in f["arg"] if keep[i - 1]][:chunk]
                    keyb = f"{pre}.{meth}{esfx}:form={form}"
                    case = dict(base, object=pre, method=meth, form=form)
                    out.keys.add((pre + esfx, meth, tag, form))
                    if form == "empty":
                        res, exc = rtx.call(fn, np.array([], dtype=float))
                        out.n += 1
                        if exc is not None:
                            out.viol.append((f"{keyb}:exception", f"{meth}(empty array) raised {type(exc).__name__}: {exc}", case))
                        elif np.shape(res) != (0,):
                            out.viol.append((f"{keyb}:shape", f"{meth}(empty array) returned shape {np.shape(res)}", case))
                        continue
                    if not idx:
                        continue
                    if form == "zero-d":
                        for i in idx:
                            res, exc = rtx.call(fn, np.array(float(pts[i])))
                            if exc is not None:
                                out.viol.append((f"{keyb}:exception", f"{meth}(0-d array {pts[i]!r}) raised {type(exc).__name__}: {exc}", case))
                                break
                            a = _scalar(res)
                            if a.size != 1:
                                out.viol.append((f"{keyb}:shape", f"{meth}(0-d array) returned {a.size} values", case))
                                break
                            _cmpx(out, keyb, f"{pre}.{meth}({var}={pts[i]!r}) [0-d array], params {fenv}, exponent {expo}",
                                  float(a[0]), ex, tree, var, pts[i], route, case)
                        continue
                    if form == "int-array":
                        if not lattice_side:
                            continue        # images of integer points are not integers
                        arg = np.array([int(pts[i]) for i in idx], dtype=np.int64)
                    elif form == "longdouble":
                        arg = np.array([pts[i] for i in idx], dtype=np.longdouble)
                    elif form == "reversed-dup":
                        arg = np.array([pts[i] for i in idx], dtype=float)
                    elif form == "shared-object":
                        if shared is None:
                            shared = (np.array([pts[i] for i in idx], dtype=float), [pts[i] for i in idx], None)
                        arg = shared[0]
                    else:
                        out.mach.append(f"unknown form {form!r} in the audit catalogue")
                        continue
                    res, exc = rtx.call(fn, arg)
                    if exc is not None:
                        out.viol.append((f"{keyb}:exception", f"{meth}({form} of {len(idx)} points, dtype {arg.dtype}) raised {type(exc).__name__}: {exc}", case))
                        continue
                    a = _as1d(res, len(idx))
                    if a is None:
                        out.viol.append((f"{keyb}:shape", f"{meth}({form} of {len(idx)} points) returned shape {np.shape(res)}", case))
                        continue
                    for i, o in zip(idx, a.tolist()):
                        _cmpx(out, keyb, f"{pre}.{meth}({var}={pts[i]!r}) [{form}], params {fenv}, exponent {expo}",
                              o, ex, tree, var, pts[i], route, case)
                    if form == "shared-object":
                        # the same array object goes to every method of the group: it must come back unchanged
                        out.n += 1
                        if not np.array_equal(arg, np.array(shared[1], dtype=float)):
                            out.viol.append((f"{keyb}:mutated", f"{meth} changed its argument array in place: {shared[1]} -> {arg.tolist()}", case))
                            shared = None
                            continue
                        if meth == group[0][0]:
                            shared = (shared[0], shared[1], a.copy())
            # ... and the first method again after the others: same values, bit for bit
            if shared is not None and shared[2] is not None:
                meth = group[0][0]
                res, exc = rtx.call(getattr(obj, meth), shared[0])
                out.n += 1
                a = None if exc is not None else _as1d(res, len(shared[1]))
                if a is None or not np.array_equal(a, shared[2], equal_nan=True):
                    out.viol.append((f"{pre}.{meth}{esfx}:form=shared-object:repeat",
                                     f"{meth} called again with the same array after the other methods returned {None if a is None else a.tolist()} "
                                     f"(exception {exc!r}), first call {shared[2].tolist()}", dict(base, object=pre, method=meth, form="shared-object")))


KWNAMES = {"Becke": ("rmin", "R"), "MultiExp": ("rmin", "R"), "LinearFinite": ("rmin", "rmax"),
           "LinearInfinite": ("rmin", "rmax", "b"), "Exp": ("rmin", "rmax", "b"), "Power": ("rmin", "rmax", "b"),
           "Hyperbolic": ("a", "b"), "Knowles": ("rmin", "R"), "Handy": ("rmin", "R"), "HandyMod": ("rmin", "rmax")}


def variants_pass(out: Out, inst, fenv, expo, tenv_p, esfx, xs, rs, keepx, keepr, variants, direction, trim_value, tag):
    """RTransformAudit!Variants: the same transform reached through another constructor call."""
    import grid.rtransform as rt
    from grid.rtransform import InverseRTransform
    lbl = LIB[inst.cls]
    C = getattr(rt, lbl)
    ex = Expect(tenv_p)
    chunk = rtx.hyper_chunk(fenv["b"]) if inst.cls == "Hyperbolic" else 10 ** 9
    idx_x = [i for i in range(len(xs)) if keepx[i]][:chunk]
    idx_r = [i for i in range(len(xs)) if keepr[i]][:chunk]
    base = {"class": lbl, "params": fenv, "exponent": expo, "tag": tag, "layer": "audit"}
    trim = True if inst.trims else None
    for v in variants:
        if not v["applies"]:
            continue
        name = v["variant"]
        trees, is_tf, pre = inst.trees, True, lbl
        if name == "keywords":
            kw = {n: fenv[n] for n in KWNAMES[inst.cls]}
            if inst.ename:
                kw[inst.ename] = expo
            if inst.trims:
                kw["trim_inf"] = True
            obj, exc = rtx.call(lambda: C(**kw))
        elif name == "int-params":
            obj, exc = rtx.call(rtx.make_tf, inst, {k: int(x) for k, x in fenv.items()}, expo, trim)
        elif name == "exponent-float":
            obj, exc = rtx.call(rtx.make_tf, inst, fenv, float(expo), trim)
        elif name == "exponent-npint":
            obj, exc = rtx.call(rtx.make_tf, inst, fenv, np.int64(expo), trim)
        elif name == "trim-default":
            obj, exc = rtx.call(rtx.make_tf, inst, fenv, expo, None)
        elif name == "double-inverse":
            obj, exc = rtx.call(lambda: InverseRTransform(InverseRTransform(rtx.make_tf(inst, fenv, expo, trim))))
            is_tf, pre = False, f"InverseRTransform(InverseRTransform({lbl}))"
        else:
            out.mach.append(f"unknown constructor variant {name!r} in the audit catalogue")
            continue
        case = dict(base, variant=name, object=pre)
        keyv = f"{pre}{esfx}:variant={name}"
        out.keys.add((pre + esfx, "variant", tag, name))
        if exc is not None:
            out.viol.append((f"{keyv}:constructor:exception", f"constructor variant {name} raised {type(exc).__name__}: {exc} for admissible parameters {fenv}, exponent {expo!r}", case))
            continue
        if name == "trim-default":
            # omitted trim_inf means trimming ON (the documented default): infinite end point images are 1e16
            out.n += 1
            if getattr(obj, "trim_inf", None) is not True:
                out.viol.append((f"{keyv}:flag", f"trim_inf of a default-constructed {lbl} is {getattr(obj, 'trim_inf', None)!r}", case))
            _endpoints(out, inst, obj, lbl, esfx + ":variant=trim-default", fenv, tenv_p, expo, True, (trim_value, direction), dict(base, variant=name))
            continue
        if name == "double-inverse":
            for attr in ("domain", "codomain"):
                val, exc = rtx.call(getattr, obj, attr)
                want = [ev(t, tenv_p) for t in inst.decl["dom" if attr == "domain" else "cod"]]
                out.n += 1
                good = exc is None
                if good:
                    try:
                        good = len(val) == 2 and all(rtx.judge_value(float(a), w)[0] for a, w in zip(val, want))
                    except Exception:  # noqa: BLE001
                        good = False
                if not good:
                    out.viol.append((f"{keyv}.{attr}:value", f"{attr} is {val!r} (exception {exc!r}), specification {[float(w) for w in want]}", case))
        for group, var, pts in ((FWD, "x", xs), (INV, "r", rs)):
            for meth, tname in group:
                tree = trees[tname]
                keyb = f"{keyv}.{meth}"
                idx = idx_x if (var == "x" and name != "double-inverse") else idx_r
                if not idx:
                    continue
                res, exc = rtx.call(getattr(obj, meth), np.array([pts[i] for i in idx], dtype=float))
                if exc is not None:
                    out.viol.append((f"{keyb}:exception", f"{meth}(array of {len(idx)} interior points) raised {type(exc).__name__}: {exc}", dict(case, method=meth)))
                    continue
                a = _as1d(res, len(idx))
                if a is None:
                    out.viol.append((f"{keyb}:shape", f"{meth}(array of {len(idx)}) returned shape {np.shape(res)}", dict(case, method=meth)))
                    continue
                if name == "double-inverse":
                    # everything but transform / inverse goes through both maps first
                    if var == "x":
                        route = None if meth == "transform" else ("roundtrip", inst.trees["F"], inst.inv_trees["F"], inst.trees["b" + tname[-1]], "r")
                    else:
                        route = None if meth == "inverse" else ("roundtrip", inst.trees["G"], inst.trees["F"], inst.trees["a" + tname[-1]], "x")
                else:
                    route = _route(True, var, meth, trees, tname)
                for i, o in zip(idx, a.tolist()):
                    _cmpx(out, keyb, f"{pre}.{meth}({var}={pts[i]!r}) [variant {name}], params {fenv}, exponent {expo!r}",
                          o, ex, tree, var, pts[i], route, dict(case, method=meth))


def bproto_replay(out: Out, em, cidx, hist, explicit_none):
    """Replay one behaviour of the b-protocol machine (RTransformAudit!BCall) on the library:
    after every call tf.b is the model's b, every value is the tree value under that b."""
    import grid.rtransform as rt
    aud = em.audit
    inst = em.instances[aud.binst[cidx - 1] - 1]
    lbl = LIB[inst.cls]
    fenv = rtx.float_env(aud.bparams[cidx - 1])
    C = getattr(rt, lbl)
    tf, exc = rtx.call(lambda: C(fenv["rmin"], fenv["rmax"], b=None) if explicit_none else C(fenv["rmin"], fenv["rmax"]))
    base = {"class": lbl, "params": fenv, "layer": "audit", "behaviour": [(m, a) for m, a, _ in hist]}
    if exc is not None:
        out.viol.append((f"{lbl}:b-protocol:constructor:exception", f"{lbl}(rmin, rmax) without b raised {type(exc).__name__}: {exc}", base))
        return
    cache = _G.setdefault("bcache", {})
    path = []
    for meth, a, bq in hist:
        path.append(f"{meth}[{a}]")
        keyb = f"{lbl}:b-protocol:{'>'.join(path)}"
        xsq = aud.bargs[a - 1]
        env = dict(fenv, b=float(bq))
        tenv_p = rtx.tree_env(env)
        inverse_side = meth.endswith("inverse")
        tname = dict(FWD + INV)[meth]
        tree = inst.trees[tname]
        var = "r" if inverse_side else "x"
        pts = []
        for x in xsq:
            xf = float(x)
            if inverse_side:
                k = (cidx, bq, "F", xf)
                if k not in cache:
                    cache[k] = float(ev(inst.trees["F"], dict(tenv_p, x=rtx._mpf(xf))))
                xf = cache[k]
            pts.append(xf)
        arg = np.float64(pts[0]) if len(pts) == 1 else np.array(pts, dtype=float)
        res, exc = rtx.call(getattr(tf, meth), arg)
        case = dict(base, method=meth, argument=pts, model_b=float(bq))
        out.keys.add((lbl, "b-protocol", tuple(path)))
        if exc is not None:
            out.viol.append((f"{keyb}:exception", f"{meth}({pts}) in the behaviour {path} raised {type(exc).__name__}: {exc}", case))
            return
        a_ = _scalar(res)
        if a_.size != len(pts):
            out.viol.append((f"{keyb}:shape", f"{meth}({pts}) returned {a_.size} values", case))
            return
        out.n += 1
        bobs = getattr(tf, "b", None)
        if bobs is None or float(bobs) != float(bq):
            out.viol.append((f"{keyb}:b", f"after {path} on {lbl}(rmin={fenv['rmin']}, rmax={fenv['rmax']}) constructed without b, tf.b is {bobs!r}; "
                                          f"the protocol fixes b = {float(bq)} (largest point of the first transformed argument) for good", case))
        route = _route(True, var, meth, inst.trees, tname)
        for p, o in zip(pts, a_.tolist()):
            k = (cidx, bq, tname, p)
            if k not in cache:
                cache[k] = ev(tree, dict(tenv_p, **{var: rtx._mpf(p)}))
            exp = cache[k]
            if exp is None:
                out.mach.append(f"{keyb}: spec tree singular at {p}")
                continue
            tenv = dict(tenv_p, **{var: rtx._mpf(p)})
            ok, fexp, err, tol, ratio = rtx.judge_value(o, exp, lambda: rtx.error_budget(tree, tenv, var, route))
            out.n += 1
            if ok:
                out.max_ratio = max(out.max_ratio, ratio)
            else:
                out.viol.append((f"{keyb}:value", f"{meth}({var}={p!r}) in the behaviour {path}: observed {o!r}, specification {fexp!r} under b = {float(bq)} "
                                                  f"(|err| {err:.3g} > tol {tol:.3g})", dict(case, observed=o, expected=fexp)))


# ---------------------------------------------------------------------------------------------
# jobs

def job_lattice(arg):
    j, p = arg
    em, vals, ends, tier = _G["em"], _G["vals"], _G["ends"], _G["tier"]
    inst = em.instances[j - 1]
    out = Out()
    env = inst.params[p - 1]
    pts = inst.points[p - 1]
    direction = spec_checks(out, inst, env, pts, vals, p)
    lo, hi, d = ends.get((j, p), (None, None, 0))
    if d not in (1, -1) or d != direction:
        out.mach.append(f"{inst.label}: direction from TLC ({d}) and from the sign of D(F) ({direction}) differ, env={env}")
    fenv = rtx.float_env(env)
    xs = [float(x) for x in pts]
    conformance(out, inst, fenv, expo_of(inst, fenv), xs, tier, f"lattice:{p}", d, endinfo=(em.trim, d))
    return out


def expo_of(inst, fenv):
    return inst.ip if inst.ename else None


RANGES = {  # sampling boxes for float parameters (admissibility is decided by the spec's adm trees)
    "rmin": (0.0, 2.0), "R": (0.1, 10.0), "size": (0.5, 150.0), "a": (0.1, 10.0),
}


def draw_env(rng, inst):
    """A random admissible float parameter set (+ exponent) for an instance, or None."""
    c = inst.cls
    e = {}
    if "rmin" in inst.pnames:
        e["rmin"] = rng.choice([0.0, round(rng.uniform(0.01, 2.0), 3), rng.uniform(0.001, 2.0)])
        if c in ("Exp", "Power") and e["rmin"] == 0.0:
            e["rmin"] = rng.uniform(0.001, 2.0)
    if "R" in inst.pnames:
        e["R"] = rng.uniform(0.1, 10.0)
    if "rmax" in inst.pnames:
        e["rmax"] = e["rmin"] + math.exp(rng.uniform(math.log(0.5), math.log(150.0)))
    if c == "Hyperbolic":
        e["a"] = rng.uniform(0.1, 10.0)
        e["b"] = math.exp(rng.uniform(math.log(0.002), math.log(0.9)))
    elif "b" in inst.pnames:
        e["b"] = math.exp(rng.uniform(math.log(0.5), math.log(60.0)))
    expo = None
    if inst.ename:
        if inst.ip:
            expo = inst.ip
        else:
            # symbolic exponent: a non-integer value (k > 0; m >= 1)
            expo = rng.uniform(0.3, 6.0) if inst.ename == "k" else rng.uniform(1.0, 6.0)
            e[inst.ename] = expo
    # 5 % away from the admissibility bound of the modified Handy map
    margin = 0.05 * (e.get("rmax", 1.0) - e.get("rmin", 0.0)) if c == "HandyMod" else 0.0
    if not rtx.admissible(inst, e, margin):
        return None
    fenv = {k: v for k, v in e.items() if k != inst.ename}
    return fenv, expo


def draw_points(rng, inst, fenv, n):
    """Interior float points, a fixed relative distance (5 %) away from singular ends."""
    lo, hi = (ev(t, rtx.tree_env(fenv)) for t in inst.decl["use"])
    if mp.isinf(hi):
        scale = fenv.get("b", 10.0)
        pts = [rng.uniform(0.02 * scale, 2.0 * scale) for _ in range(n)]
    else:
        lo, hi = float(lo), float(hi)
        w = hi - lo
        pts = [rng.uniform(lo + 0.025 * w, hi - 0.025 * w) for _ in range(n)]
    return sorted(set(pts))


def job_random(arg):
    j, seed, npts = arg
    em, tier = _G["em"], _G["tier"]
    inst = em.instances[j - 1]
    out = Out()
    rng = random.Random(seed)
    for _ in range(50):
        d = draw_env(rng, inst)
        if d is not None:
            break
    else:
        return out
    fenv, expo = d
    if inst.cls == "Hyperbolic":
        npts = min(npts, rtx.hyper_chunk(fenv["b"]))
    xs = draw_points(rng, inst, fenv, npts)
    # spec identities in 50 digits at these float points as well (symbolic exponents included)
    senv = rtx.tree_env(fenv)
    if inst.ename and not inst.ip:
        senv[inst.ename] = rtx._mpf(expo)
    direction = spec_checks(out, inst, None, [rtx._mpf(x) for x in xs], None, 0, symbolic_env=senv)
    conformance(out, inst, fenv, expo, xs, tier, f"random:{seed}", direction, endinfo=(em.trim, direction), scalars=(seed % 4 == 0))
    return out


def job_audit(arg):
    """One parameter set of the audit lattice (RTransformAudit!AuditParams / AuditPoints)."""
    j, p = arg
    em, tier = _G["em"], _G["tier"]
    aud = em.audit
    inst = em.instances[j - 1]
    ai = aud.inst[j - 1]
    out = Out()
    env = ai["params"][p - 1]
    pts = ai["points"][p - 1]
    symbolic = bool(inst.ename) and not inst.ip
    # identities with unbounded integers / 150 digits (points 2^-20 from an end lose 30 digits and more)
    with mp.workdps(150):
        direction = spec_checks(out, inst, env, pts, aud.avals if ai["evaluable"] else None, p, force_mp=symbolic)
    if ai["evaluable"]:
        lo, hi, d = aud.aends.get((j, p), (None, None, 0))
        if d not in (1, -1) or d != direction:
            out.mach.append(f"{inst.label}: audit lattice: direction from TLC ({d}) and from the sign of D(F) ({direction}) differ, env={env}")
    if direction not in (1, -1):
        out.mach.append(f"{inst.label}: audit lattice: no direction for env={env}")
        return out
    expo = float(env[inst.ename]) if symbolic else (inst.ip if inst.ename else None)
    if symbolic and float(expo).is_integer():
        expo = int(expo)        # an integer exponent through the symbolic tree
    fenv = {k: float(v) for k, v in env.items() if not (symbolic and k == inst.ename)}
    tenv_p = rtx.tree_env(fenv)
    if symbolic:
        tenv_p[inst.ename] = rtx._mpf(expo)
    xs = [float(x) for x in pts]
    keepx, keepr = usable_points(inst, tenv_p, xs)
    out.edge_kept = sum(1 for x, k in zip(pts, keepx) if k and _is_edge(inst, env, x))
    out.edge_kept_r = sum(1 for x, k in zip(pts, keepr) if k and _is_edge(inst, env, x))
    out.edge_dropped = sum(1 for x, k in zip(pts, keepr) if not k)
    kept = [x for x, k in zip(xs, keepx) if k]
    tag = f"audit:{p}"
    if kept:
        conformance(out, inst, fenv, expo, kept, tier, tag, direction, endinfo=(em.trim, direction), scalars=(p == 1),
                    rkeep=[r for r, k in zip(keepr, keepx) if k])
    rs = []
    for x, k in zip(xs, keepx):
        v = ev(inst.trees["F"], dict(tenv_p, x=rtx._mpf(x))) if k else None
        rs.append(float(v) if v is not None else float("nan"))
    lbl = LIB[inst.cls]
    esfx = f":{inst.ename}={expo}" if inst.ename and float(expo).is_integer() else (f":{inst.ename}=non-integer" if inst.ename else "")
    try:
        forms_pass(out, inst, fenv, expo, tenv_p, esfx, xs, rs, keepx, keepr, ai["forms"][p - 1], tag)
        variants_pass(out, inst, fenv, expo, tenv_p, esfx, xs, rs, keepx, keepr, ai["variants"][p - 1], direction, em.trim, tag)
    except tlc.MachineryError:
        raise
    except Exception as e:  # noqa: BLE001 - a constructor that works in conformance() but not here
        out.viol.append((f"{lbl}{esfx}:audit:exception", f"{type(e).__name__}: {e} for admissible parameters {fenv}", {"class": lbl, "params": fenv, "exponent": expo, "layer": "audit"}))
    return out


def _is_edge(inst, env, x):
    """x is one of the points near an end of the domain of use (distance <= 2^-7 of its width) or far out."""
    if inst.cls == "Hyperbolic":
        t = x * env["b"]
        return t >= Fraction(127, 128) or t <= Fraction(1, 1024)
    if inst.decl["dom"][0].get("op") == "c" and str(inst.decl["dom"][0].get("n")) == "0":
        return x >= 1000 or x <= Fraction(1, 1024)
    return abs(x) >= Fraction(127, 128)


def job_bproto(arg):
    lo, hi = arg
    em = _G["em"]
    out = Out()
    for n, (cidx, hist) in enumerate(em.audit.btraces[lo:hi], start=lo):
        bproto_replay(out, em, cidx, hist, explicit_none=(n % 2 == 1))
    if lo == 0 and em.audit.btraces:
        cidx, hist = em.audit.btraces[0]
        out.samples.append({"b-protocol": em.audit.bclasses[cidx - 1], "behaviour": [[m, a, float(b)] for m, a, b in hist]})
    return out


# ---------------------------------------------------------------------------------------------

ALL_FAMILIES = ("lattice", "random", "audit", "bproto")


def check(rep: Report, tier: str, modelled, families=ALL_FAMILIES) -> None:
    """families: which job families run (selftest runs a mutant against the layer it is aimed at)."""
    res, em, vals, ends = modelled
    _G.update(em=em, vals=vals, ends=ends, tier=tier)
    jobs = [(i.idx, p) for i in em.instances for p in range(1, len(i.params) + 1)]
    nrand = 8 if tier == "quick" else 150
    npts = 5 if tier == "quick" else 12
    rjobs = []
    for i in em.instances:
        for s in range(nrand):
            rjobs.append((i.idx, rep.seed * 1000003 + i.idx * 10007 + s, npts))
    aud = em.audit
    ajobs = [(j, p) for j, ai in enumerate(aud.inst, start=1) for p in range(1, len(ai["params"]) + 1)]
    nb = len(aud.btraces)
    step = max(1, (nb + 4 * WORKERS - 1) // (4 * WORKERS))
    bjobs = [(i, min(i + step, nb)) for i in range(0, nb, step)]
    _G.pop("bcache", None)
    import multiprocessing as mpc
    outs = []
    with mpc.get_context("fork").Pool(WORKERS) as pool:
        r1 = pool.map_async(job_lattice, jobs if "lattice" in families else [], chunksize=1)
        r2 = pool.map_async(job_random, rjobs if "random" in families else [], chunksize=4)
        r3 = pool.map_async(job_audit, ajobs if "audit" in families else [], chunksize=1)
        r4 = pool.map_async(job_bproto, bjobs if "bproto" in families else [], chunksize=1)
        outs += r1.get() + r2.get()
        aouts = r3.get()
        bouts = r4.get()
        outs += aouts + bouts
    mach = [m for o in outs for m in o.mach]
    if mach:
        raise tlc.MachineryError("specification / evaluator inconsistency (not a verdict about the library):\n" + "\n".join(mach[:20]))
    # non-vacuity of the model, from what TLC printed
    dirs = {d for (_, _, d) in ends.values()}
    if dirs != {1, -1}:
        raise tlc.MachineryError(f"vacuity: directions met by TLC = {dirs}")
    if not any(lo and lo[0] in ("pinf",) or hi and hi[0] in ("pinf",) for lo, hi, _ in ends.values()):
        raise tlc.MachineryError("vacuity: no infinite end-point image met by TLC")
    decided = {}
    for (j, p, q), tv in vals.items():
        for name, t in zip(TREE_ORDER, tv):
            if t != []:
                decided[(j, name)] = decided.get((j, name), 0) + 1
    for i in em.instances:
        if i.params and decided.get((i.idx, "F"), 0) == 0:
            raise tlc.MachineryError(f"vacuity: TLC decided no value of F for {i.label}")
    # non-vacuity of the second layer
    if nb == 0 or {c for c, _ in aud.btraces} != set(range(1, len(aud.bclasses) + 1)):
        raise tlc.MachineryError("vacuity: TLC emitted no b-protocol behaviour for some b-scaled class")
    if not any(any(m.endswith("inverse") for m, _, _ in h) for _, h in aud.btraces):
        raise tlc.MachineryError("vacuity: no b-protocol behaviour calls an inverse-direction method")
    if not any(len({a for _, a, _ in h}) > 1 for _, h in aud.btraces):
        raise tlc.MachineryError("vacuity: no b-protocol behaviour changes the argument after b is fixed")
    if not aud.iends or not any(t[1] == ["pinf"] for t in aud.iends.values()):
        raise tlc.MachineryError("vacuity: no inverse-wrapper end point at infinity met by TLC")
    edge_by_cls = {}
    for (j, p), o in zip(ajobs, aouts):
        c = em.instances[j - 1].cls
        edge_by_cls[c] = edge_by_cls.get(c, 0) + o.edge_kept
    if "audit" in families and any(edge_by_cls.get(c, 0) == 0 for c in LIB):
        raise tlc.MachineryError(f"vacuity: no point near an end of the domain survived the guard for some class: {edge_by_cls}")
    adecided = sum(1 for tv in aud.avals.values() for t in tv if t != [])
    if adecided == 0:
        raise tlc.MachineryError("vacuity: TLC decided no value on the audit lattice")
    keys = set()
    for o in outs:
        for v in o.viol:
            rep.violation(*v)
        keys |= o.keys
        for s in o.samples:
            rep.sample(s)
    n = sum(o.n for o in outs)
    rep.evaluated(n, None)
    rep._nontrivial |= keys
    rep.set("tlc_exact_values_reproduced_by_evaluator", sum(o.tlc_values for o in outs))
    rep.set("tlc_values_undecided_32bit", sum(o.tlc_undecided for o in outs))
    rep.set("identities_rechecked_unbounded", sum(o.identities for o in outs))
    rep.set("tlc_decided_per_tree", {f"{em.instances[j - 1].label}:{t}": c for (j, t), c in sorted(decided.items())})
    rep.set("audit_lattice_parameter_sets", len(ajobs))
    rep.set("audit_lattice_tlc_values_decided", adecided)
    rep.set("audit_edge_points_replayed_per_class", edge_by_cls)
    rep.set("audit_points_dropped_by_guard", sum(o.edge_dropped for o in aouts))
    rep.set("b_protocol_behaviours_replayed", nb)
    rep.set("inverse_wrapper_end_point_blocks", len(aud.iends))
    rep.set("lattice_parameter_sets", len(jobs))
    rep.set("random_parameter_sets", len(rjobs))
    rep.set("float_observations", n)
    rep.set("conditioning_term_computed", sum(o.cond_used for o in outs))
    rep.set("max_err_over_tolerance_accepted", max([o.max_ratio for o in outs] + [0.0]))
    rep.set("max_err_over_tolerance_where_budget_computed", max([o.max_ratio_budget for o in outs] + [0.0]))
    worst = sorted((o for o in outs if o.worst), key=lambda o: -o.max_ratio)[:3]
    rep.set("closest_accepted_observations", [dict(o.worst, ratio=o.max_ratio) for o in worst])
    rep.set("traces_validated_against_impl", n)
    rep.set("rule", "one case = one float observation of a library method (8 methods, domain, codomain, end points of the "
                    "transform and of its inverse wrapper, monotonicity; transform object, its InverseRTransform wrapper or "
                    "the wrapper of the wrapper; array / NumPy scalar / Python float / 0-d / integer / longdouble / "
                    "descending / empty / shared array; constructor variants; trim_inf on/off/omitted; b given or fixed by "
                    "the b-protocol) compared with the value of the tree TLC derived; distinct = distinct "
                    "(object, method, parameter set, point index or form or variant or behaviour)")


def run(tier: str) -> int:
    rep = Report(PROP, tier, "model_checking")
    wd = tlc.scratch(f"{PROP}-{tier}")
    modelled = model(tier, wd)
    rep.tlc(modelled[0], "MC_RTransformAudit" + ("_thorough" if tier == "thorough" else ""))
    check(rep, tier, modelled)
    rep.set("exhaustive", False)
    rep.assume("vf/expr_eval.py (generic tree evaluator, 50-digit mpmath) is the trusted numeric component; it is "
               "cross-checked against every exact value TLC printed in this run")
    rep.assume("Expr!D implements the textbook differentiation rules; its output is validated in TLC by the "
               "inverse-function identities of order 1-3 between D^n(F) and D^n(G)")
    if os.environ.get("CALIB"):
        print("calibration:", {k: rep.cov.get(k) for k in ("float_observations", "conditioning_term_computed", "max_err_over_tolerance_accepted", "max_err_over_tolerance_where_budget_computed")})
    return rep.finish()


# ---------------------------------------------------------------------------------------------

def replay(path: str) -> int:
    with open(path) as f:
        v = json.load(f)
    c = v.get("case") or {}
    wd = tlc.scratch(f"{PROP}-replay")
    _, em, _, _ = model("quick", wd)
    cls = next(k for k, n in LIB.items() if n == c.get("class"))
    expo = c.get("exponent")
    ip = int(expo) if expo is not None and float(expo).is_integer() else 0
    try:
        inst = em.by(cls, ip if cls in ("Knowles", "Handy", "HandyMod") else 0)
    except KeyError:
        inst = em.by(cls, 0)       # an integer exponent beyond the instantiated ones: symbolic tree
    out = Out()
    xs = [c["point"]] if "point" in c else ([c["end_point"]] if "end_point" in c else [])
    if not xs or c.get("object", "").startswith("Inverse") or "end_point" in c or c.get("layer") == "audit":
        print("replay: re-running the quick tier")
        return run("quick")
    fenv = {k: float(x) for k, x in c["params"].items()}
    if c.get("method", "").endswith("inverse"):
        # the recorded point is a codomain point: bring it back with the spec's inverse map
        te = rtx.tree_env(fenv, r=xs[0])
        if inst.ename and not inst.ip:
            te[inst.ename] = rtx._mpf(expo)
        xs = [float(ev(inst.trees["G"], te))]
    conformance(out, inst, fenv, expo, xs, "quick", "replay", 0)
    for k, what, _ in out.viol:
        print("replay:", k, what)
    return 1 if out.viol else 0


MUTANTS = {}


MUTANT_FAMILIES = {}


def _mutant(name, families=("lattice", "random")):
    """families: the job families the mutant is run against in selftest - the first layer (lattice
    and random parameter sets, as before) or the second one (audit lattice / b-protocol)."""
    def deco(f):
        MUTANTS[name] = f
        MUTANT_FAMILIES[name] = tuple(families)
        return f
    return deco


@_mutant("HandyMod.deriv3: first term (the one that vanishes for m = 1, 2) dropped")
def _m1(rt):
    def bad(self, x):
        two_m = 2 ** self._m
        size_r = self._rmax - self._rmin
        m = self._m
        return (-(m * two_m * size_r * (two_m - size_r - 1) * (1 + x) ** (m - 3)
                  * (2 ** (m + 2) * (m - 1) * (m + 1) * (two_m - 1 - size_r) * (two_m - size_r) * (1 + x) ** m
                     + (m + 2) * (m + 1) * (two_m - size_r) ** 2 * (x + 1) ** (2 * m)))
                / (two_m * (1 - two_m + size_r) + (two_m - size_r) * (1 + x) ** m) ** 4)
    rt.HandyModRTransform.deriv3 = bad


@_mutant("Knowles.deriv3: (k+4) -> (k+3) in the middle coefficient (vanishes for k = 1)")
def _m2(rt):
    def bad(self, x):
        qi = 1 + x
        k = self._k
        return (self._R * k * (qi ** (k - 3)) * (4 ** k * (k - 2) * (k - 1) + 2 ** k * (k - 1) * (k + 3) * (qi ** k) + 2 * qi ** (2 * k))
                / (2 ** k - qi ** k) ** 3)
    rt.KnowlesRTransform.deriv3 = bad


@_mutant("BaseTransform.deriv3_inverse: 3 d2^2 -> 2 d2^2")
def _m3(rt):
    def bad(self, r):
        x = self.inverse(r)
        d1, d2, d3 = self.deriv(x), self.deriv2(x), self.deriv3(x)
        return (2 * d2 ** 2 - d1 * d3) / d1 ** 5
    rt.BaseTransform.deriv3_inverse = bad


@_mutant("_convert_inf: sign lost for scalars (np.sign dropped)")
def _m4(rt):
    from numbers import Number

    def bad(self, array, replace_inf=1e16):
        if isinstance(array, Number):
            return -replace_inf if np.isinf(array) else array
        new_v = array.copy()
        new_v[new_v == np.inf] = replace_inf
        new_v[new_v == -np.inf] = -replace_inf
        return new_v
    rt.BaseTransform._convert_inf = bad


@_mutant("InverseRTransform: domain/codomain not swapped")
def _m5(rt):
    orig = rt.InverseRTransform.__init__

    def bad(self, transform):
        orig(self, transform)
        self._domain, self._codomain = transform.domain, transform.codomain
    rt.InverseRTransform.__init__ = bad


@_mutant("LinearFinite.deriv scalar branch returns the full width (missing /2)")
def _m6(rt):
    from numbers import Number
    orig = rt.LinearFiniteRTransform.deriv

    def bad(self, x):
        if isinstance(x, Number):
            return self._rmax - self._rmin
        return orig(self, x)
    rt.LinearFiniteRTransform.deriv = bad


@_mutant("Power.inverse: exponent 1/power -> 1/(power) with log(b) instead of log(b+1)")
def _m7(rt):
    def bad(self, r):
        self.set_maximum_parameter_b(r)
        power = (np.log(self._rmax) - np.log(self._rmin)) / np.log(self.b)
        return np.power(r / self._rmin, 1.0 / power) - 1
    rt.PowerRTransform.inverse = bad


@_mutant("Handy.deriv2: (m + x) -> (m - x)")
def _m8(rt):
    def bad(self, x):
        dr = 4 * self._m * self._R * (self._m - x) * (1 + x) ** (self._m - 2) / (1 - x) ** (self._m + 2)
        return self._convert_inf(dr) if self.trim_inf else dr
    rt.HandyRTransform.deriv2 = bad


@_mutant("MultiExp.inverse: missing -1")
def _m9(rt):
    def bad(self, r):
        return 2 * np.exp(-(r - self._rmin) / self._R)
    rt.MultiExpRTransform.inverse = bad


@_mutant("Hyperbolic.deriv3: 6 a b^2 -> 6 a b")
def _m10(rt):
    def bad(self, x):
        x = 1.0 / (1 - self._b * x)
        return 6.0 * self._a * self._b * x ** 4
    rt.HyperbolicRTransform.deriv3 = bad


@_mutant("Becke.transform: trim applied only when trim_inf is False (flag inverted)")
def _m11(rt):
    def bad(self, x):
        with np.errstate(all="ignore"):
            rf = self._R * (1 + x) / (1 - x) + self._rmin
        if not self.trim_inf:
            rf = self._convert_inf(rf)
        return rf
    rt.BeckeRTransform.transform = bad


@_mutant("Becke.deriv2 as printed in its docstring: 4R/(1 - x^3)")
def _m12(rt):
    def bad(self, x):
        return 4 * self._R / (1 - x ** 3)
    rt.BeckeRTransform.deriv2 = bad


@_mutant("LinearInfinite.inverse divides by rmax instead of rmax - rmin (invisible when rmin = 0)")
def _m13(rt):
    def bad(self, r):
        self.set_maximum_parameter_b(r)
        return (r - self._rmin) / (self._rmax / self.b)
    rt.LinearInfiniteRTransform.inverse = bad


@_mutant("Exp.deriv2: one factor alpha missing (returns deriv)")
def _m14(rt):
    def bad(self, x):
        return self.deriv(x)
    rt.ExpRTransform.deriv2 = bad


@_mutant("HandyMod.inverse: (size - 2^m + 1) -> (size - 2^m - 1)")
def _m15(rt):
    def bad(self, r):
        two_m = 2 ** self._m
        size_r = self._rmax - self._rmin
        tmp_r = (r - self._rmin) * (size_r - two_m - 1) / ((r - self._rmin) * (size_r - two_m) + size_r)
        return 2 * tmp_r ** (1 / self._m) - 1
    rt.HandyModRTransform.inverse = bad


@_mutant("InverseRTransform.deriv2: d1^3 -> d1^2")
def _m16(rt):
    def bad(self, r):
        r = self._tfm.inverse(r)
        return -self._tfm.deriv2(r) / self._d1(r) ** 2
    rt.InverseRTransform.deriv2 = bad


# ---- mutants of the second layer (RTransformAudit.tla) ------------------------------------------

@_mutant("b-protocol: b taken from the LAST point of the first argument instead of the largest", families=("bproto",))
def _m17(rt):
    def bad(self, x):
        if self.b is None:
            self._b = np.asarray(x).reshape(-1)[-1]
    for c in (rt.LinearInfiniteRTransform, rt.ExpRTransform, rt.PowerRTransform):
        c.set_maximum_parameter_b = bad


@_mutant("b-protocol: Power re-infers b at every call when it was not given to the constructor", families=("bproto",))
def _m18(rt):
    orig = rt.PowerRTransform.__init__

    def init(self, rmin, rmax, b=None):
        orig(self, rmin, rmax, b)
        self._b_given = b is not None

    def bad(self, x):
        if not self._b_given:
            self._b = np.max(x)
    rt.PowerRTransform.__init__ = init
    rt.PowerRTransform.set_maximum_parameter_b = bad


@_mutant("b-protocol: Exp.inverse forgets the fixed b (sets it from its own argument)", families=("bproto",))
def _m19(rt):
    def bad(self, r):
        b = np.max(r)
        alpha = np.log(self._rmax / self._rmin) / b
        return np.log(r / self._rmin) / alpha
    rt.ExpRTransform.inverse = bad


@_mutant("inverse wrapper end point: HandyMod.inverse clips its radicand away from 0 (wrong only at r = rmin)", families=("audit",))
def _m20(rt):
    def bad(self, r):
        two_m = 2 ** self._m
        size_r = self._rmax - self._rmin
        tmp_r = (r - self._rmin) * (size_r - two_m + 1) / ((r - self._rmin) * (size_r - two_m) + size_r)
        return 2 * np.maximum(tmp_r, 1e-300) ** (1 / self._m) - 1 + (tmp_r <= 1e-300) * 1e-3
    rt.HandyModRTransform.inverse = bad


@_mutant("inverse wrapper end point: Knowles.inverse is nan at r = inf (inf - inf in the exponent)", families=("audit",))
def _m21(rt):
    orig = rt.KnowlesRTransform.inverse

    def bad(self, r):
        return np.where(np.isinf(r), np.nan, orig(self, r)) if isinstance(r, np.ndarray) else (np.float64("nan") if np.isinf(r) else orig(self, r))
    rt.KnowlesRTransform.inverse = bad


@_mutant("double wrapper: InverseRTransform unwraps a wrapped wrapper to its base transform", families=("audit",))
def _m22(rt):
    orig = rt.InverseRTransform.__init__

    def init(self, transform):
        orig(self, transform)
        if isinstance(transform, rt.InverseRTransform):
            self._tfm = transform._tfm
    rt.InverseRTransform.__init__ = init


@_mutant("argument form: Hyperbolic.deriv works in place on the array it is given", families=("audit",))
def _m23(rt):
    def bad(self, x):
        if self._b * (x.size - 1) >= 1.0:
            raise ValueError("b*(npoint-1) must be smaller than one.")
        if isinstance(x, np.ndarray) and x.ndim == 1:
            x *= -self._b
            x += 1
            np.reciprocal(x, out=x)
        else:
            x = 1.0 / (1 - self._b * x)
        return self._a * x * x
    rt.HyperbolicRTransform.deriv = bad


@_mutant("argument form: LinearFinite.deriv2 sizes its result with len(x) (no len of a 0-d array)", families=("audit",))
def _m24(rt):
    from numbers import Number

    def bad(self, x):
        return np.array(0) if isinstance(x, Number) else np.zeros(len(x))
    rt.LinearFiniteRTransform.deriv2 = bad


@_mutant("argument form: LinearInfinite.transform keeps the dtype of an integer argument", families=("audit",))
def _m25(rt):
    def bad(self, x):
        self.set_maximum_parameter_b(x)
        alpha = (self._rmax - self._rmin) / self.b
        res = alpha * x + self._rmin
        return res.astype(x.dtype) if isinstance(x, np.ndarray) else res
    rt.LinearInfiniteRTransform.transform = bad


@_mutant("argument form: Exp.transform sorts its argument", families=("audit",))
def _m26(rt):
    def bad(self, x):
        self.set_maximum_parameter_b(x)
        alpha = np.log(self._rmax / self._rmin) / self.b
        return self._rmin * np.exp(np.sort(x) * alpha)
    rt.ExpRTransform.transform = bad


@_mutant("argument form: Knowles.transform accepts float64 arrays only", families=("audit",))
def _m27(rt):
    orig = rt.KnowlesRTransform.transform

    def bad(self, x):
        if isinstance(x, np.ndarray) and x.dtype != np.float64:
            raise TypeError("x must be a float64 array")
        return orig(self, x)
    rt.KnowlesRTransform.transform = bad


@_mutant("argument form: LinearFinite.inverse rejects an empty array", families=("audit",))
def _m28(rt):
    orig = rt.LinearFiniteRTransform.inverse

    def bad(self, r):
        if np.size(r) == 0:
            raise ValueError("empty array")
        return orig(self, r)
    rt.LinearFiniteRTransform.inverse = bad


@_mutant("constructor variant: MultiExp trims only when asked to (default trim_inf=False)", families=("audit",))
def _m29(rt):
    orig = rt.MultiExpRTransform.__init__

    def init(self, rmin, R, trim_inf=False):
        orig(self, rmin, R, trim_inf)
    rt.MultiExpRTransform.__init__ = init


@_mutant("constructor variant: LinearFinite.transform halves the width with // for integer parameters", families=("audit",))
def _m30(rt):
    def bad(self, x):
        w = self._rmax - self._rmin
        half = w // 2 if isinstance(w, int) else w / 2
        return (1 + x) * half + self._rmin
    rt.LinearFiniteRTransform.transform = bad


@_mutant("constructor variant: Knowles rejects an exponent that is not a Python int / float", families=("audit",))
def _m31(rt):
    orig = rt.KnowlesRTransform.__init__

    def init(self, rmin, R, k, trim_inf=True):
        if not isinstance(k, (int, float)):
            raise TypeError("k must be a number")
        orig(self, rmin, R, k, trim_inf)
    rt.KnowlesRTransform.__init__ = init


@_mutant("constructor variant: Handy takes its exponent under another keyword (m renamed)", families=("audit",))
def _m32(rt):
    orig = rt.HandyRTransform.__init__

    def init(self, rmin, R, power, trim_inf=True):
        orig(self, rmin, R, power, trim_inf)
    rt.HandyRTransform.__init__ = init


@_mutant("audit lattice: MultiExp.transform clamps the argument of its logarithm at 1e-4", families=("audit",))
def _m33(rt):
    def bad(self, x):
        rf = -self._R * np.log(np.where((x + 1) / 2 > 0, np.maximum((x + 1) / 2, 1e-4), (x + 1) / 2)) + self._rmin
        return self._convert_inf(rf) if self.trim_inf else rf
    rt.MultiExpRTransform.transform = bad


@_mutant("audit lattice: LinearInfinite refuses a negative rmin", families=("audit",))
def _m34(rt):
    orig = rt.LinearInfiniteRTransform.__init__

    def init(self, rmin, rmax, b=None):
        if rmin < 0:
            raise ValueError("rmin must not be negative")
        orig(self, rmin, rmax, b)
    rt.LinearInfiniteRTransform.__init__ = init


@_mutant("audit lattice: Handy.deriv2 trims every value above 1e12 (finite values are not infinity)", families=("audit",))
def _m35(rt):
    def bad(self, x):
        dr = 4 * self._m * self._R * (self._m + x) * (1 + x) ** (self._m - 2) / (1 - x) ** (self._m + 2)
        if self.trim_inf:
            dr = np.minimum(dr, 1e12)
        return dr
    rt.HandyRTransform.deriv2 = bad


@_mutant("audit lattice: Knowles.deriv3 wrong for k > 6 only (coefficient switched above the tested exponents)", families=("audit",))
def _m36(rt):
    orig = rt.KnowlesRTransform.deriv3

    def bad(self, x):
        return orig(self, x) * (1.01 if self._k > 6 else 1.0)
    rt.KnowlesRTransform.deriv3 = bad


def selftest(tier: str) -> int:
    """Apply each mutant in-process (never touches /repo) and require a violation."""
    import grid.rtransform as rt
    wd = tlc.scratch(f"{PROP}-selftest")
    modelled = model("quick", wd)
    classes = [getattr(rt, c) for c in dir(rt) if isinstance(getattr(rt, c), type) and getattr(rt, c).__module__ == rt.__name__]
    saved = {c: dict(vars(c)) for c in classes}
    killed, missed = [], []
    only = os.environ.get("C03_MUTANTS")
    for name, patch in MUTANTS.items():
        if only and not any(name.startswith(o) for o in only.split("|")):
            continue
        patch(rt)
        try:
            rep = Report(PROP, "quick", "model_checking")
            check(rep, "quick", modelled, families=MUTANT_FAMILIES[name])
            new = [v for v in rep.violations if rep._match_known(v["key"]) is None]
        finally:
            for c, d in saved.items():
                for k, v in d.items():
                    if vars(c).get(k) is not v:
                        setattr(c, k, v)
        (killed if new else missed).append(name)
        print(f"selftest mutant {'KILLED' if new else 'MISSED'} [{'+'.join(MUTANT_FAMILIES[name])}]: {name}"
              + (f"  [{len(new)} violations, e.g. {new[0]['key']}]" if new else ""), flush=True)
    print(f"selftest: {len(killed)}/{len(killed) + len(missed)} mutants killed")
    return 0 if not missed else 1
