"""C03 - radial transforms are analytically self-consistent.

Flow (DESIGN.md section 5, C03; spec/RTransform.tla + spec/ExprX.tla):
 1. TLC checks RTransform.tla (Spec): for every evaluable instance (class, integer exponent) x
    rational parameter set x rational interior point, exactly: G(F(x)) = x,
    D(G)(F(x)) D(F)(x) = 1, the 2nd/3rd order inverse-function identities between D^n(G) and
    D^n(F), sign of D(F) = direction derived from the images of the reference end points, strict
    monotonicity between consecutive lattice points, interior -> interior, reference end points
    -> codomain end points (extended arithmetic with +-inf).  32-bit overflow is detected before
    it happens and leaves the identity "undecided" (never wrong); TLC prints every exact value
    it computed (VAL / END) and writes all derived trees (JsonSerialize).
 2. The harness (a) reproduces every exact value TLC printed from the emitted trees (binds the
    JSON trees to what TLC checked), (b) re-checks ALL identities on the whole lattice with
    unbounded integers / 50 digits (decides what 32 bits left undecided, and the classes with
    transcendental parameters dependence: Exp, Power, symbolic exponents), and
 3. replays the implementation: all 8 methods + domain/codomain of the 11 classes and of
    InverseRTransform(tf), trim_inf on/off, array / NumPy scalar / Python float input, explicit b
    for the b-scaled classes, at the lattice points and at VERIF_SEED-drawn float points and
    float parameters (non-integer k), end points with the trim rule, monotonicity.  Expected
    values: the spec trees evaluated at the exact binary inputs (vf/expr_eval.py, 50 digits);
    step 2(a) ties that evaluator to the rationals TLC printed.

Tolerance (vf/rtx.py): |obs - f| <= max(1e-9 |f|, 1e3 B), B = running-error bound of the spec
tree (+ the error of the intermediate value for the methods computed through the other side of
the map, + the running error of the equivalent inverse-function-theorem tree a_n / b_n).
Calibration on the pinned tree: see CALIBRATION below (CALIB=1 prints the figures of a run).
"""
from __future__ import annotations

import json
import math
import os
import random
from fractions import Fraction

import numpy as np

from .. import rtx, tlc
from ..evidence import Report
from ..rtx import EPS, FWD, INV, LIB, ev, mp

PROP = "C03"

CALIBRATION = """
thorough tier, VERIF_SEED=0 (pinned tree with the 14 fixes): 4.10e6 float observations, all
accepted (apart from the Knowles end-point finding).  99.2 % have a relative error below 1e-12
(3 orders of magnitude below the 1e-9 test, accepted without looking at B); for the other
3.3e4 (inverse maps / inverse derivatives where the forward map is flat, 1 - exp(-u) for tiny u,
values at zeros of a derivative) B was computed: largest err / max(1e-9 |f|, 1e3 B) = 3.3e-4
(quick tier, seeds 0, 1, 2: 2.8e-4, 2.0e-4, 2.4e-4), i.e. 3.5 orders of magnitude of slack.
The 16 mutants of selftest() produce relative errors >= 2.4e-3 (7 orders of magnitude above the
accepted errors of well-conditioned points); all are reported.
"""

_G = {}  # emission etc. for forked workers


# ---------------------------------------------------------------------------------------------
# TLC

def model(tier: str, wd):
    cfg = "MC_RTransform_thorough.cfg" if tier == "thorough" else "MC_RTransform.cfg"
    res = tlc.run_tlc("RTransform", cfg, wd, workers=16, timeout=1500).require_ok(cfg)
    if res.status == "violation":
        raise tlc.MachineryError(
            f"RTransform.tla is not self-consistent: invariant(s) {res.violated} violated; last state {tlc.last_state(res)}")
    em = rtx.Emission(wd / "rtransform_trees.json")
    vals = {}
    for t in rtx.tagged(res.stdout, "VAL"):
        _, j, p, q, fx, rest = t
        vals[(j, p, q)] = [fx] + list(rest)
    ends = {}
    for t in rtx.tagged(res.stdout, "END"):
        _, j, p, lo, hi, d = t
        ends[(j, p)] = (lo, hi, d)
    return res, em, vals, ends


# ---------------------------------------------------------------------------------------------
# worker: one (instance, parameter set) of the lattice, or one random parameter set

class Out:
    def __init__(self):
        self.viol = []      # (key, what, case)
        self.mach = []      # machinery problems (spec / evaluator inconsistencies)
        self.n = 0          # float observations compared
        self.keys = set()
        self.samples = []
        self.tlc_values = 0     # exact TLC values reproduced by the evaluator
        self.tlc_undecided = 0  # values TLC could not represent in 32 bits
        self.identities = 0     # identities re-checked with unbounded integers
        self.cond_used = 0
        self.max_ratio = 0.0
        self.max_ratio_budget = 0.0
        self.worst = None


TREE_ORDER = ("F", "d1", "d2", "d3", "g1", "g2", "g3")


def _exact_env(env, **extra):
    e = dict(env)
    e.update(extra)
    return e


def _tree_value_exact(tree, env, exact=True):
    """Exact (Fraction) when the tree is rational (lattice points), else 50-digit value; None if singular."""
    if exact and rtx.is_rational_tree(tree):
        try:
            return rtx.ev_exact(tree, env)
        except ZeroDivisionError:
            return None
    return ev(tree, env)


def _same(a, b, scale=1):
    if a is None or b is None:
        return False
    if isinstance(a, Fraction) and isinstance(b, Fraction):
        return a == b
    a = rtx._mpf(a)
    b = rtx._mpf(b)
    if mp.isinf(a) or mp.isinf(b):
        return a == b
    return abs(a - b) <= mp.mpf(10) ** -35 * max(1, abs(a), abs(b), scale)


def spec_checks(out: Out, inst, env, pts, vals, pidx, symbolic_env=None):
    """(a) evaluator reproduces TLC's exact values; (b) identities with unbounded integers."""
    T = inst.trees
    e0 = dict(env if symbolic_env is None else symbolic_env)
    exact = symbolic_env is None
    prevF = None
    direction = None
    for q, x in enumerate(pts, start=1):
        ex = _exact_env(e0, x=x)
        fx = _tree_value_exact(T["F"], ex, exact)
        if fx is None:
            out.mach.append(f"{inst.label}: F singular at interior point x={x} env={env}")
            continue
        d = {k: _tree_value_exact(T[k], ex, exact) for k in ("d1", "d2", "d3")}
        er = _exact_env(e0, r=fx)
        g = {k: _tree_value_exact(T[k], er, exact) for k in ("G", "g1", "g2", "g3")}
        # (a)
        tv = vals.get((inst.idx, pidx, q)) if vals is not None else None
        if tv is not None:
            mine = [fx] + [d["d1"], d["d2"], d["d3"], g["g1"], g["g2"], g["g3"]][: len(tv) - 1]
            for name, t, m in zip(TREE_ORDER, tv, mine):
                tvv = rtx.dec(t)
                if tvv is None:
                    out.tlc_undecided += 1
                    continue
                out.tlc_values += 1
                if not _same(tvv, m):
                    out.mach.append(f"{inst.label} {name} at x={x} env={env}: TLC printed {tvv}, evaluator gives {m}")
        # (b)
        if None in d.values() or None in g.values():
            out.mach.append(f"{inst.label}: derived tree singular at interior point x={x} env={env}")
            continue
        d1, d2, d3 = d["d1"], d["d2"], d["d3"]
        checks = (
            ("G(F(x)) = x", g["G"], x),
            ("D(G)(F(x)) D(F)(x) = 1", g["g1"] * d1, 1),
            ("D2(G) = -D2(F)/D(F)^3", g["g2"], -d2 / d1 ** 3),
            ("D3(G) = (3 D2(F)^2 - D(F) D3(F))/D(F)^5", g["g3"], (3 * d2 ** 2 - d1 * d3) / d1 ** 5),
        )
        for name, lhs, rhs in checks:
            out.identities += 1
            if not _same(lhs, rhs):
                out.mach.append(f"spec identity {name} fails for {inst.label} at x={x} env={env}: {lhs} vs {rhs}")
        s = 1 if d1 > 0 else -1 if d1 < 0 else 0
        if direction is None:
            direction = s
        out.identities += 1
        if s == 0 or s != direction:
            out.mach.append(f"spec: sign of D(F) changes for {inst.label} at x={x} env={env}")
        if prevF is not None:
            out.identities += 1
            if not ((fx - prevF) * direction > 0):
                out.mach.append(f"spec: F not strictly monotone for {inst.label} before x={x} env={env}")
        prevF = fx
    return direction


def _cmp(out: Out, inst, key_base, what, obs, tree, tenv, var, case, route=None):
    """Compare one float observation with a spec tree."""
    j = rtx.judge(obs, tree, tenv, var, route)
    if j is None:
        out.mach.append(f"{key_base}: spec tree singular for {case}")
        return
    ok, fexp, err, tol, ratio = j
    out.n += 1
    if ok:
        if ratio > out.max_ratio:
            out.max_ratio = ratio
            out.worst = {"what": what, "observed": float(obs), "expected": fexp, "err": err, "tol": tol}
        if err > 1e-3 * rtx.RTOL * abs(fexp):
            out.cond_used += 1
            out.max_ratio_budget = max(out.max_ratio_budget, ratio)
        return
    kind = "nan" if isinstance(obs, float) and math.isnan(obs) else "value"
    c = dict(case)
    c.update(observed=float(obs), expected=fexp, abs_err=err, tolerance=tol)
    out.viol.append((f"{key_base}:{kind}", f"{what}: observed {float(obs)!r}, specification {fexp!r} (|err| {err:.3g} > tol {tol:.3g})", c))


def _as1d(res, n):
    try:
        a = np.asarray(res, dtype=float)
    except Exception:  # noqa: BLE001
        return None
    if a.shape == (n,):
        return a
    return None


def _scalar(res):
    try:
        a = np.asarray(res, dtype=float).reshape(-1)
    except Exception:  # noqa: BLE001
        return np.zeros(0)
    return a


def conformance(out: Out, inst, fenv, expo, xs, tier, tag, direction, endinfo=None, scalars=True):
    """Replay the library on one parameter set.  fenv: floats; xs: ascending float interior points."""
    from grid.rtransform import InverseRTransform
    T = inst.trees
    names_p = [n for n in inst.pnames if n in fenv]
    tenv_p = rtx.tree_env(fenv)
    if inst.ename and not inst.ip:
        tenv_p[inst.ename] = rtx._mpf(expo)
        names_p = names_p + [inst.ename]
    lbl = LIB[inst.cls]
    esfx = f":{inst.ename}={expo}" if inst.ename and float(expo).is_integer() else (f":{inst.ename}=non-integer" if inst.ename else "")
    base_case = {"class": lbl, "params": fenv, "exponent": expo, "tag": tag}

    # images r_j = F(x_j) rounded to floats: the interior points of the codomain used for the
    # inverse-direction methods
    fx = [ev(T["F"], dict(tenv_p, x=rtx._mpf(x))) for x in xs]
    if any(v is None for v in fx):
        out.mach.append(f"{lbl}: F singular at an interior point, env={fenv}")
        return
    rs = np.array([float(v) for v in fx])
    xs = np.asarray(xs, dtype=float)
    chunk = rtx.hyper_chunk(fenv["b"]) if inst.cls == "Hyperbolic" else len(xs)

    def chunks(a):
        return [a[i:i + chunk] for i in range(0, len(a), chunk)]

    trims = (True, False) if inst.trims else (None,)
    for trim in trims:
        tf, exc = rtx.call(rtx.make_tf, inst, fenv, expo, trim)
        if exc is not None:
            out.viol.append((f"{lbl}{esfx}:constructor:exception", f"constructor raised {type(exc).__name__}: {exc} for admissible parameters {fenv}", base_case))
            return
        inv, exc = rtx.call(InverseRTransform, tf)
        if exc is not None:
            out.viol.append((f"InverseRTransform({lbl}):constructor:exception", f"{type(exc).__name__}: {exc}", base_case))
            inv = None
        # roles: (object, key prefix, trees, decl, points for x-methods, points for r-methods, x-var values)
        roles = [(tf, lbl, T, inst.decl, xs, rs)]
        if inv is not None:
            roles.append((inv, f"InverseRTransform({lbl})", inst.inv_trees, inst.inv_decl, rs, xs))
        for obj, pre, trees, decl, px, pr in roles:
            case0 = dict(base_case, trim_inf=trim, object=pre)
            # domain / codomain
            for attr in ("domain", "codomain"):
                val, exc = rtx.call(getattr, obj, attr)
                want = [ev(t, tenv_p) for t in decl["dom" if attr == "domain" else "cod"]]
                out.n += 1
                out.keys.add((pre + esfx, attr, tag))
                good = False
                if exc is None:
                    try:
                        good = len(val) == 2 and all(rtx.judge_value(float(v), w)[0] for v, w in zip(val, want))
                    except Exception:  # noqa: BLE001
                        good = False
                if not good:
                    out.viol.append((f"{pre}.{attr}:value", f"{attr} is {val!r} (exception {exc!r}), specification {[float(w) for w in want]}", case0))
            for group, var, pts in ((FWD, "x", px), (INV, "r", pr)):
                for meth, tname in group:
                    tree = trees[tname]
                    fn, exc = rtx.call(getattr, obj, meth)
                    if exc is not None:
                        out.viol.append((f"{pre}.{meth}:missing", f"{exc}", case0))
                        continue
                    keyb = f"{pre}.{meth}{esfx}"
                    # methods computed through the other side of the map: derivatives of the inverse
                    # (x = inverse(r) first), and every derivative of the InverseRTransform wrapper
                    route = None
                    if var == "r" and meth != "inverse":
                        alt = trees["a" + tname[-1]]         # D^n(G) from D^n(F), a tree in x, at x = G(r)
                        route = ("via", trees["G"], alt, "x") if obj is tf else ("roundtrip", trees["G"], trees["F"], alt, "x")
                    elif var == "x" and meth != "transform" and obj is not tf:
                        route = ("via", trees["F"], trees["b" + tname[-1]], "r")
                    # array input
                    got = []
                    bad = False
                    for part in chunks(pts):
                        res, exc = rtx.call(fn, part.copy())
                        if exc is not None:
                            out.viol.append((f"{keyb}:array:exception", f"{meth}(array of {len(part)} interior points) raised {type(exc).__name__}: {exc}", dict(case0, method=meth, points=part)))
                            bad = True
                            break
                        a = _as1d(res, len(part))
                        if a is None:
                            out.viol.append((f"{keyb}:array:shape", f"{meth}(array of {len(part)}) returned shape {np.shape(res)}", dict(case0, method=meth, points=part)))
                            bad = True
                            break
                        got.extend(a.tolist())
                    if not bad:
                        for i, (p, o) in enumerate(zip(pts, got)):
                            out.keys.add((pre + esfx, meth, tag, i))
                            _cmp(out, inst, keyb, f"{pre}.{meth}({var}={p!r}) [array], params {fenv}, exponent {expo}, trim_inf={trim}",
                                 o, tree, dict(tenv_p, **{var: rtx._mpf(p)}), var,
                                 dict(case0, method=meth, mode="array", point=float(p)), route)
                    # NumPy scalar input (and Python float where the class documents it)
                    if scalars:
                        modes = [("numpy-scalar", np.float64)]
                        if inst.cls in ("LinearFinite", "Identity"):
                            modes.append(("python-float", float))
                        for mname, conv in modes:
                            for p in pts:
                                res, exc = rtx.call(fn, conv(p))
                                if exc is not None:
                                    out.viol.append((f"{keyb}:{mname}:exception", f"{meth}({mname} {p!r}) raised {type(exc).__name__}: {exc}", dict(case0, method=meth, mode=mname, point=float(p))))
                                    break
                                a = _scalar(res)
                                if a.size != 1:
                                    out.viol.append((f"{keyb}:{mname}:shape", f"{meth}({mname}) returned {a.size} values", dict(case0, method=meth, mode=mname, point=float(p))))
                                    break
                                _cmp(out, inst, keyb, f"{pre}.{meth}({var}={p!r}) [{mname}], params {fenv}, exponent {expo}, trim_inf={trim}",
                                     float(a[0]), tree, dict(tenv_p, **{var: rtx._mpf(p)}), var,
                                     dict(case0, method=meth, mode=mname, point=float(p)), route)
        # monotone in the direction the specification derives
        if direction in (1, -1) and len(xs) > 1 and chunk >= len(xs):
            res, exc = rtx.call(tf.transform, xs.copy())
            if exc is None:
                a = _as1d(res, len(xs))
                out.n += 1
                if a is not None and not np.all(np.diff(a) * direction > 0):
                    out.viol.append((f"{lbl}.transform{esfx}:not-monotone", f"transform is not strictly {'increasing' if direction > 0 else 'decreasing'} on {xs.tolist()}: {a.tolist()}", dict(base_case, trim_inf=trim)))
        # reference end points -> codomain end points, infinity trimmed
        if endinfo is not None:
            _endpoints(out, inst, tf, lbl, esfx, fenv, tenv_p, expo, trim, endinfo, base_case)
    if len(out.samples) < 2:
        out.samples.append({"class": lbl, "exponent": expo, "params": fenv, "points": xs[:3].tolist(), "codomain_points": rs[:3].tolist(), "tag": tag})


def _endpoints(out, inst, tf, lbl, esfx, fenv, tenv_p, expo, trim, endinfo, base_case):
    trim_value, direction = endinfo
    refs = [ev(t, tenv_p) for t in inst.decl["ref"]]
    cods = [ev(t, tenv_p) for t in inst.decl["cod"]]
    want = cods if direction > 0 else cods[::-1]
    for which, (p, w) in enumerate(zip(refs, want)):
        pf = float(p)
        if inst.cls == "Hyperbolic" and which == 1:
            # the pole 1/b is a reference point only where 1 - b*(1/b) is exactly zero in floats
            if not (fenv["b"] * pf == 1.0):
                continue
        wf = float(w)
        if math.isinf(wf) and inst.trims and trim:
            wf = math.copysign(trim_value, wf)
        for mname, arg in (("numpy-scalar", np.float64(pf)), ("array", np.array([pf]))):
            res, exc = rtx.call(tf.transform, arg)
            out.n += 1
            out.keys.add((lbl + esfx, "endpoint", str(base_case.get("tag")), which, mname))
            case = dict(base_case, trim_inf=trim, end_point=pf, mode=mname)
            if exc is not None:
                out.viol.append((f"{lbl}.transform{esfx}:endpoint:exception", f"transform({pf!r}) raised {type(exc).__name__}: {exc}", case))
                continue
            a = _scalar(res)
            ok = a.size == 1 and rtx.judge_value(float(a[0]), rtx._mpf(wf))[0]
            if not ok:
                out.viol.append((f"{lbl}.transform{esfx}:endpoint:value",
                                 f"reference end point {pf!r} must go to the codomain end {wf!r} (trim_inf={trim}); transform returned {a.tolist()} for params {fenv}, exponent {expo}", dict(case, observed=a.tolist(), expected=wf)))


# ---------------------------------------------------------------------------------------------
# jobs

def job_lattice(arg):
    j, p = arg
    em, vals, ends, tier = _G["em"], _G["vals"], _G["ends"], _G["tier"]
    inst = em.instances[j - 1]
    out = Out()
    env = inst.params[p - 1]
    pts = inst.points[p - 1]
    direction = spec_checks(out, inst, env, pts, vals, p)
    lo, hi, d = ends.get((j, p), (None, None, 0))
    if d not in (1, -1) or d != direction:
        out.mach.append(f"{inst.label}: direction from TLC ({d}) and from the sign of D(F) ({direction}) differ, env={env}")
    fenv = rtx.float_env(env)
    xs = [float(x) for x in pts]
    conformance(out, inst, fenv, expo_of(inst, fenv), xs, tier, f"lattice:{p}", d, endinfo=(em.trim, d))
    return out


def expo_of(inst, fenv):
    return inst.ip if inst.ename else None


RANGES = {  # sampling boxes for float parameters (admissibility is decided by the spec's adm trees)
    "rmin": (0.0, 2.0), "R": (0.1, 10.0), "size": (0.5, 150.0), "a": (0.1, 10.0),
}


def draw_env(rng, inst):
    """A random admissible float parameter set (+ exponent) for an instance, or None."""
    c = inst.cls
    e = {}
    if "rmin" in inst.pnames:
        e["rmin"] = rng.choice([0.0, round(rng.uniform(0.01, 2.0), 3), rng.uniform(0.001, 2.0)])
        if c in ("Exp", "Power") and e["rmin"] == 0.0:
            e["rmin"] = rng.uniform(0.001, 2.0)
    if "R" in inst.pnames:
        e["R"] = rng.uniform(0.1, 10.0)
    if "rmax" in inst.pnames:
        e["rmax"] = e["rmin"] + math.exp(rng.uniform(math.log(0.5), math.log(150.0)))
    if c == "Hyperbolic":
        e["a"] = rng.uniform(0.1, 10.0)
        e["b"] = math.exp(rng.uniform(math.log(0.002), math.log(0.9)))
    elif "b" in inst.pnames:
        e["b"] = math.exp(rng.uniform(math.log(0.5), math.log(60.0)))
    expo = None
    if inst.ename:
        if inst.ip:
            expo = inst.ip
        else:
            # symbolic exponent: a non-integer value (k > 0; m >= 1)
            expo = rng.uniform(0.3, 6.0) if inst.ename == "k" else rng.uniform(1.0, 6.0)
            e[inst.ename] = expo
    # 5 % away from the admissibility bound of the modified Handy map
    margin = 0.05 * (e.get("rmax", 1.0) - e.get("rmin", 0.0)) if c == "HandyMod" else 0.0
    if not rtx.admissible(inst, e, margin):
        return None
    fenv = {k: v for k, v in e.items() if k != inst.ename}
    return fenv, expo


def draw_points(rng, inst, fenv, n):
    """Interior float points, a fixed relative distance (5 %) away from singular ends."""
    lo, hi = (ev(t, rtx.tree_env(fenv)) for t in inst.decl["use"])
    if mp.isinf(hi):
        scale = fenv.get("b", 10.0)
        pts = [rng.uniform(0.02 * scale, 2.0 * scale) for _ in range(n)]
    else:
        lo, hi = float(lo), float(hi)
        w = hi - lo
        pts = [rng.uniform(lo + 0.025 * w, hi - 0.025 * w) for _ in range(n)]
    return sorted(set(pts))


def job_random(arg):
    j, seed, npts = arg
    em, tier = _G["em"], _G["tier"]
    inst = em.instances[j - 1]
    out = Out()
    rng = random.Random(seed)
    for _ in range(50):
        d = draw_env(rng, inst)
        if d is not None:
            break
    else:
        return out
    fenv, expo = d
    if inst.cls == "Hyperbolic":
        npts = min(npts, rtx.hyper_chunk(fenv["b"]))
    xs = draw_points(rng, inst, fenv, npts)
    # spec identities in 50 digits at these float points as well (symbolic exponents included)
    senv = rtx.tree_env(fenv)
    if inst.ename and not inst.ip:
        senv[inst.ename] = rtx._mpf(expo)
    direction = spec_checks(out, inst, None, [rtx._mpf(x) for x in xs], None, 0, symbolic_env=senv)
    conformance(out, inst, fenv, expo, xs, tier, f"random:{seed}", direction, endinfo=(em.trim, direction), scalars=(seed % 4 == 0))
    return out


# ---------------------------------------------------------------------------------------------

def check(rep: Report, tier: str, modelled) -> None:
    res, em, vals, ends = modelled
    _G.update(em=em, vals=vals, ends=ends, tier=tier)
    jobs = [(i.idx, p) for i in em.instances for p in range(1, len(i.params) + 1)]
    nrand = 8 if tier == "quick" else 150
    npts = 5 if tier == "quick" else 12
    rjobs = []
    for i in em.instances:
        for s in range(nrand):
            rjobs.append((i.idx, rep.seed * 1000003 + i.idx * 10007 + s, npts))
    import multiprocessing as mpc
    outs = []
    with mpc.get_context("fork").Pool(16) as pool:
        outs += pool.map(job_lattice, jobs, chunksize=1)
        outs += pool.map(job_random, rjobs, chunksize=4)
    mach = [m for o in outs for m in o.mach]
    if mach:
        raise tlc.MachineryError("specification / evaluator inconsistency (not a verdict about the library):\n" + "\n".join(mach[:20]))
    # non-vacuity of the model, from what TLC printed
    dirs = {d for (_, _, d) in ends.values()}
    if dirs != {1, -1}:
        raise tlc.MachineryError(f"vacuity: directions met by TLC = {dirs}")
    if not any(lo and lo[0] in ("pinf",) or hi and hi[0] in ("pinf",) for lo, hi, _ in ends.values()):
        raise tlc.MachineryError("vacuity: no infinite end-point image met by TLC")
    decided = {}
    for (j, p, q), tv in vals.items():
        for name, t in zip(TREE_ORDER, tv):
            if t != []:
                decided[(j, name)] = decided.get((j, name), 0) + 1
    for i in em.instances:
        if i.params and decided.get((i.idx, "F"), 0) == 0:
            raise tlc.MachineryError(f"vacuity: TLC decided no value of F for {i.label}")
    keys = set()
    for o in outs:
        for v in o.viol:
            rep.violation(*v)
        keys |= o.keys
        for s in o.samples:
            rep.sample(s)
    n = sum(o.n for o in outs)
    rep.evaluated(n, None)
    rep._nontrivial |= keys
    rep.set("tlc_exact_values_reproduced_by_evaluator", sum(o.tlc_values for o in outs))
    rep.set("tlc_values_undecided_32bit", sum(o.tlc_undecided for o in outs))
    rep.set("identities_rechecked_unbounded", sum(o.identities for o in outs))
    rep.set("tlc_decided_per_tree", {f"{em.instances[j - 1].label}:{t}": c for (j, t), c in sorted(decided.items())})
    rep.set("lattice_parameter_sets", len(jobs))
    rep.set("random_parameter_sets", len(rjobs))
    rep.set("float_observations", n)
    rep.set("conditioning_term_computed", sum(o.cond_used for o in outs))
    rep.set("max_err_over_tolerance_accepted", max([o.max_ratio for o in outs] + [0.0]))
    rep.set("max_err_over_tolerance_where_budget_computed", max([o.max_ratio_budget for o in outs] + [0.0]))
    worst = sorted((o for o in outs if o.worst), key=lambda o: -o.max_ratio)[:3]
    rep.set("closest_accepted_observations", [dict(o.worst, ratio=o.max_ratio) for o in worst])
    rep.set("traces_validated_against_impl", n)
    rep.set("rule", "one case = one float observation of a library method (8 methods, domain, codomain, end points, "
                    "monotonicity; transform object or its InverseRTransform wrapper; array / NumPy scalar / Python float; "
                    "trim_inf on/off) compared with the value of the tree TLC derived; distinct = distinct "
                    "(object, method, parameter set, point index)")


def run(tier: str) -> int:
    rep = Report(PROP, tier, "model_checking")
    wd = tlc.scratch(f"{PROP}-{tier}")
    modelled = model(tier, wd)
    rep.tlc(modelled[0], "MC_RTransform" + ("_thorough" if tier == "thorough" else ""))
    check(rep, tier, modelled)
    rep.set("exhaustive", False)
    rep.assume("vf/expr_eval.py (generic tree evaluator, 50-digit mpmath) is the trusted numeric component; it is "
               "cross-checked against every exact value TLC printed in this run")
    rep.assume("Expr!D implements the textbook differentiation rules; its output is validated in TLC by the "
               "inverse-function identities of order 1-3 between D^n(F) and D^n(G)")
    if os.environ.get("CALIB"):
        print("calibration:", {k: rep.cov.get(k) for k in ("float_observations", "conditioning_term_computed", "max_err_over_tolerance_accepted", "max_err_over_tolerance_where_budget_computed")})
    return rep.finish()


# ---------------------------------------------------------------------------------------------

def replay(path: str) -> int:
    with open(path) as f:
        v = json.load(f)
    c = v.get("case") or {}
    wd = tlc.scratch(f"{PROP}-replay")
    _, em, _, _ = model("quick", wd)
    cls = next(k for k, n in LIB.items() if n == c.get("class"))
    expo = c.get("exponent")
    ip = int(expo) if expo is not None and float(expo).is_integer() else 0
    inst = em.by(cls, ip if cls in ("Knowles", "Handy", "HandyMod") else 0)
    out = Out()
    xs = [c["point"]] if "point" in c else ([c["end_point"]] if "end_point" in c else [])
    if not xs or c.get("object", "").startswith("Inverse") or "end_point" in c:
        print("replay: re-running the quick tier")
        return run("quick")
    fenv = {k: float(x) for k, x in c["params"].items()}
    if c.get("method", "").endswith("inverse"):
        # the recorded point is a codomain point: bring it back with the spec's inverse map
        te = rtx.tree_env(fenv, r=xs[0])
        if inst.ename and not inst.ip:
            te[inst.ename] = rtx._mpf(expo)
        xs = [float(ev(inst.trees["G"], te))]
    conformance(out, inst, fenv, expo, xs, "quick", "replay", 0)
    for k, what, _ in out.viol:
        print("replay:", k, what)
    return 1 if out.viol else 0


MUTANTS = {}


def _mutant(name):
    def deco(f):
        MUTANTS[name] = f
        return f
    return deco


@_mutant("HandyMod.deriv3: first term (the one that vanishes for m = 1, 2) dropped")
def _m1(rt):
    def bad(self, x):
        two_m = 2 ** self._m
        size_r = self._rmax - self._rmin
        m = self._m
        return (-(m * two_m * size_r * (two_m - size_r - 1) * (1 + x) ** (m - 3)
                  * (2 ** (m + 2) * (m - 1) * (m + 1) * (two_m - 1 - size_r) * (two_m - size_r) * (1 + x) ** m
                     + (m + 2) * (m + 1) * (two_m - size_r) ** 2 * (x + 1) ** (2 * m)))
                / (two_m * (1 - two_m + size_r) + (two_m - size_r) * (1 + x) ** m) ** 4)
    rt.HandyModRTransform.deriv3 = bad


@_mutant("Knowles.deriv3: (k+4) -> (k+3) in the middle coefficient (vanishes for k = 1)")
def _m2(rt):
    def bad(self, x):
        qi = 1 + x
        k = self._k
        return (self._R * k * (qi ** (k - 3)) * (4 ** k * (k - 2) * (k - 1) + 2 ** k * (k - 1) * (k + 3) * (qi ** k) + 2 * qi ** (2 * k))
                / (2 ** k - qi ** k) ** 3)
    rt.KnowlesRTransform.deriv3 = bad


@_mutant("BaseTransform.deriv3_inverse: 3 d2^2 -> 2 d2^2")
def _m3(rt):
    def bad(self, r):
        x = self.inverse(r)
        d1, d2, d3 = self.deriv(x), self.deriv2(x), self.deriv3(x)
        return (2 * d2 ** 2 - d1 * d3) / d1 ** 5
    rt.BaseTransform.deriv3_inverse = bad


@_mutant("_convert_inf: sign lost for scalars (np.sign dropped)")
def _m4(rt):
    from numbers import Number

    def bad(self, array, replace_inf=1e16):
        if isinstance(array, Number):
            return -replace_inf if np.isinf(array) else array
        new_v = array.copy()
        new_v[new_v == np.inf] = replace_inf
        new_v[new_v == -np.inf] = -replace_inf
        return new_v
    rt.BaseTransform._convert_inf = bad


@_mutant("InverseRTransform: domain/codomain not swapped")
def _m5(rt):
    orig = rt.InverseRTransform.__init__

    def bad(self, transform):
        orig(self, transform)
        self._domain, self._codomain = transform.domain, transform.codomain
    rt.InverseRTransform.__init__ = bad


@_mutant("LinearFinite.deriv scalar branch returns the full width (missing /2)")
def _m6(rt):
    from numbers import Number
    orig = rt.LinearFiniteRTransform.deriv

    def bad(self, x):
        if isinstance(x, Number):
            return self._rmax - self._rmin
        return orig(self, x)
    rt.LinearFiniteRTransform.deriv = bad


@_mutant("Power.inverse: exponent 1/power -> 1/(power) with log(b) instead of log(b+1)")
def _m7(rt):
    def bad(self, r):
        self.set_maximum_parameter_b(r)
        power = (np.log(self._rmax) - np.log(self._rmin)) / np.log(self.b)
        return np.power(r / self._rmin, 1.0 / power) - 1
    rt.PowerRTransform.inverse = bad


@_mutant("Handy.deriv2: (m + x) -> (m - x)")
def _m8(rt):
    def bad(self, x):
        dr = 4 * self._m * self._R * (self._m - x) * (1 + x) ** (self._m - 2) / (1 - x) ** (self._m + 2)
        return self._convert_inf(dr) if self.trim_inf else dr
    rt.HandyRTransform.deriv2 = bad


@_mutant("MultiExp.inverse: missing -1")
def _m9(rt):
    def bad(self, r):
        return 2 * np.exp(-(r - self._rmin) / self._R)
    rt.MultiExpRTransform.inverse = bad


@_mutant("Hyperbolic.deriv3: 6 a b^2 -> 6 a b")
def _m10(rt):
    def bad(self, x):
        x = 1.0 / (1 - self._b * x)
        return 6.0 * self._a * self._b * x ** 4
    rt.HyperbolicRTransform.deriv3 = bad


@_mutant("Becke.transform: trim applied only when trim_inf is False (flag inverted)")
def _m11(rt):
    def bad(self, x):
        with np.errstate(all="ignore"):
            rf = self._R * (1 + x) / (1 - x) + self._rmin
        if not self.trim_inf:
            rf = self._convert_inf(rf)
        return rf
    rt.BeckeRTransform.transform = bad


@_mutant("Becke.deriv2 as printed in its docstring: 4R/(1 - x^3)")
def _m12(rt):
    def bad(self, x):
        return 4 * self._R / (1 - x ** 3)
    rt.BeckeRTransform.deriv2 = bad


@_mutant("LinearInfinite.inverse divides by rmax instead of rmax - rmin (invisible when rmin = 0)")
def _m13(rt):
    def bad(self, r):
        self.set_maximum_parameter_b(r)
        return (r - self._rmin) / (self._rmax / self.b)
    rt.LinearInfiniteRTransform.inverse = bad


@_mutant("Exp.deriv2: one factor alpha missing (returns deriv)")
def _m14(rt):
    def bad(self, x):
        return self.deriv(x)
    rt.ExpRTransform.deriv2 = bad


@_mutant("HandyMod.inverse: (size - 2^m + 1) -> (size - 2^m - 1)")
def _m15(rt):
    def bad(self, r):
        two_m = 2 ** self._m
        size_r = self._rmax - self._rmin
        tmp_r = (r - self._rmin) * (size_r - two_m - 1) / ((r - self._rmin) * (size_r - two_m) + size_r)
        return 2 * tmp_r ** (1 / self._m) - 1
    rt.HandyModRTransform.inverse = bad


@_mutant("InverseRTransform.deriv2: d1^3 -> d1^2")
def _m16(rt):
    def bad(self, r):
        r = self._tfm.inverse(r)
        return -self._tfm.deriv2(r) / self._d1(r) ** 2
    rt.InverseRTransform.deriv2 = bad


def selftest(tier: str) -> int:
    """Apply each mutant in-process (never touches /repo) and require a violation."""
    import grid.rtransform as rt
    wd = tlc.scratch(f"{PROP}-selftest")
    modelled = model("quick", wd)
    classes = [getattr(rt, c) for c in dir(rt) if isinstance(getattr(rt, c), type) and getattr(rt, c).__module__ == rt.__name__]
    saved = {c: dict(vars(c)) for c in classes}
    killed, missed = [], []
    for name, patch in MUTANTS.items():
        patch(rt)
        try:
            rep = Report(PROP, "quick", "model_checking")
            check(rep, "quick", modelled)
            new = [v for v in rep.violations if rep._match_known(v["key"]) is None]
        finally:
            for c, d in saved.items():
                for k, v in d.items():
                    if vars(c).get(k) is not v:
                        setattr(c, k, v)
        (killed if new else missed).append(name)
        print(f"selftest mutant {'KILLED' if new else 'MISSED'}: {name}" + (f"  [{len(new)} violations, e.g. {new[0]['key']}]" if new else ""))
    print(f"selftest: {len(killed)}/{len(MUTANTS)} mutants killed")
    return 0 if not missed else 1
