"""C19 - caches and remembered parameters never change what a later call returns.

 1. TLC checks CacheSys exhaustively for all histories over small constants (2 methods, 2
    degrees, <= 3 live objects): FreshIsShipped, CacheClean, NoAliasCacheUser, CacheMonotone;
    the as-shipped aliasing variant must be refuted; a witness run shows that "edit, then build
    the same grid again" is reached.  ScaleSys (remembered scale b) is checked the same way.
 2. TLC enumerates every behaviour of length 3 of CacheSys; each is replayed on the real
    library under two concretisations (lebedev/maxdet and spherical/ahrens_beylkin), plus
    VERIF_SEED-random longer behaviours over all four methods and the Coulomb parameter table.
    After every step the harness measures, against the shipped files loaded independently,
    the content of what was built, memory sharing with cached arrays, and cache integrity.
 3. The recorded traces are judged by TLC (CacheTrace / ScaleTrace).
"""
from __future__ import annotations

import json
import os
import random
import warnings

import numpy as np

from .. import extract, tlc
from ..evidence import Report

PROP = "C19"
FOURPI = ("lebedev", "spherical")


# --------------------------------------------------------------------------------------------
def _shipped(method, degree, tabs, _memo={}):
    """Points and weights of the shipped file, loaded independently of grid.angular."""
    key = (method, degree)
    if key not in _memo:
        size = dict(tabs[method]["deg"])[degree]
        d = extract.DATA / extract.METHODS[method][1] / f"{method}_{degree}_{size}.npz"
        z = np.load(d)
        p = np.array(z["points"], dtype=float)
        w = np.array(z["weights"], dtype=float)
        if len(w) == 1:
            w = np.ones(len(p)) * w
        if method in FOURPI:
            w = w * 4 * np.pi
        _memo[key] = (p, w)
    return _memo[key]


def _caches():
    import grid.angular as ang
    return {"lebedev": ang.LEBEDEV_CACHE, "spherical": ang.SPHERICAL_CACHE,
            "maxdet": ang.MAX_DET_CACHE, "ahrens_beylkin": ang.AHRENS_BEYLKIN_CACHE}


def _okd(a, b):
    a, b = np.asarray(a, dtype=float), np.asarray(b, dtype=float)
    return "ok" if a.shape == b.shape and np.allclose(a, b, rtol=1e-12, atol=1e-13) else "dirty"


class CacheDriver:
    def __init__(self, tabs, coul_ref):
        import grid.coulomb as coul
        self.tabs = tabs
        self.coul_ref = coul_ref
        for c in _caches().values():
            c.clear()
        coul._ATOMIC_GAUSS_PARAMS_CACHE = None
        self.objs = []
        self.events = []

    # -- measurements ---------------------------------------------------------------------
    def _cache_arrays(self, m):
        if m == "coulomb":
            import grid.coulomb as coul
            tab = coul._ATOMIC_GAUSS_PARAMS_CACHE or {}
            out = []
            for v in tab.values():
                for x in (v.values() if isinstance(v, dict) else []):
                    if isinstance(x, np.ndarray):
                        out.append(x)
            return out
        out = []
        for ent in _caches()[m].values():
            out += [x for x in ent if isinstance(x, np.ndarray)]
        return out

    def _aliases(self, arr, m):
        return any(np.shares_memory(arr, c) for c in self._cache_arrays(m))

    def _clean(self):
        for m, c in _caches().items():
            for deg, ent in c.items():
                try:
                    p, w = _shipped(m, int(deg), self.tabs)
                except Exception:
                    return False
                raw_w = np.asarray(ent[1], dtype=float)
                exp_w = w / (4 * np.pi) if m in FOURPI else w
                if _okd(ent[0], p) != "ok" or _okd(raw_w, exp_w) != "ok":
                    return False
        import grid.coulomb as coul
        tab = coul._ATOMIC_GAUSS_PARAMS_CACHE
        if tab is not None:
            for sym, v in tab.items():
                for k, ref in self.coul_ref.get(sym, {}).items():
                    if k in v and _okd(v[k], ref) != "ok":
                        return False
        return True

    def _ev(self, ev, **kw):
        e = {"ev": ev, "exc": "", "clean": True}
        e.update(kw)
        return e

    # -- actions ----------------------------------------------------------------------------
    def new(self, m, d, flag, by_size=False, ignored_degree=None):
        """AngularGrid(degree=d) - or, with by_size, the same grid requested through its size, the degree
        argument (default 50, or ``ignored_degree``) being documented as ignored."""
        e = self._ev("New", m=m, d=int(d), flag=bool(flag), p="dirty", w="dirty", pa=False, wa=False, incache=False)
        try:
            with warnings.catch_warnings():
                warnings.simplefilter("ignore")
                if m == "coulomb":
                    import grid.coulomb as coul
                    a, b = coul.load_atomic_gaussian_params(int(d))
                    ref = self.coul_ref[_sym(int(d))]
                    e["p"], e["w"] = _okd(a, ref["coeffs_s"]), _okd(b, ref["alphas_s"])
                    e["pa"], e["wa"] = self._aliases(a, m), self._aliases(b, m)
                    e["incache"] = True
                    self.objs.append((m, a, b))
                else:
                    from grid.angular import AngularGrid
                    if by_size:
                        size = dict(self.tabs[m]["deg"])[int(d)]
                        if ignored_degree is None:
                            g = AngularGrid(size=size, method=m, cache=bool(flag))
                        else:
                            g = AngularGrid(degree=int(ignored_degree), size=size, method=m, cache=bool(flag))
                    else:
                        g = AngularGrid(degree=int(d), method=m, cache=bool(flag))
                    # the grid REQUESTED (a tabulated degree, or the size of one) - not whatever degree the
                    # returned object reports
                    p, w = _shipped(m, int(d), self.tabs)
                    e["p"], e["w"] = _okd(g.points, p), _okd(g.weights, w)
                    e["pa"], e["wa"] = self._aliases(g.points, m), self._aliases(g.weights, m)
                    e["incache"] = int(d) in _caches()[m]
                    self.objs.append((m, g.points, g.weights, g))
        except Exception as ex:
            e["exc"] = type(ex).__name__
        e["clean"] = self._clean()
        self.events.append(e)

    def edit(self, i, part):
        if not (1 <= i <= len(self.objs)):
            return
        e = self._ev("Edit", i=int(i), part=part)
        o = self.objs[i - 1]
        try:
            arr = o[1] if part == "p" else o[2]
            arr += 1.0          # in place, through the array the library handed out
            arr *= 1.5
        except Exception as ex:
            e["exc"] = type(ex).__name__
        e["clean"] = self._clean()
        self.events.append(e)

    def drop(self, i):
        if not (1 <= i <= len(self.objs)):
            return
        e = self._ev("Drop", i=int(i))
        del self.objs[i - 1]
        e["clean"] = self._clean()
        self.events.append(e)

    def _rgrid(self, with_zero=False):
        from grid.basegrid import OneDGrid
        r = np.array([0.0, 1.5]) if with_zero else np.array([0.5, 1.5])
        return OneDGrid(r, np.array([0.25, 0.75]), (0, np.inf))

    def atom(self, m, d, kind):
        """kind: Atom (construction), Shell (get_shell_grid), AtomOp (r = 0 regeneration paths)."""
        e = self._ev(kind, m=m, d=int(d), p="dirty", w="dirty", pa=False, wa=False)
        try:
            with warnings.catch_warnings():
                warnings.simplefilter("ignore")
                from grid.atomgrid import AtomGrid
                rg = self._rgrid(with_zero=(kind == "AtomOp"))
                ag = AtomGrid(rg, degrees=[int(d)], method=m)
                P, W = _shipped(m, int(d), self.tabs)
                n = len(W)
                if kind == "Atom":
                    exp_p = np.vstack([P * r for r in rg.points])
                    exp_w = np.hstack([W * wr * r ** 2 for r, wr in zip(rg.points, rg.weights)])
                    e["p"], e["w"] = _okd(ag.points, exp_p), _okd(ag.weights, exp_w)
                    e["pa"], e["wa"] = self._aliases(ag.points, m) or self._aliases(ag._points, m), self._aliases(ag.weights, m)
                elif kind == "Shell":
                    sg = ag.get_shell_grid(1)
                    e["p"] = _okd(sg.points, P * rg.points[1])
                    e["w"] = _okd(sg.weights, W * rg.weights[1] * rg.points[1] ** 2)
                    e["pa"], e["wa"] = self._aliases(sg.points, m), self._aliases(sg.weights, m)
                    self.objs.append((m, sg.points, sg.weights, sg))
                elif kind == "AtomRot":
                    ar = AtomGrid(rg, degrees=[int(d)], method=m, rotate=11, center=np.array([0.3, -0.1, 0.2]))
                    ok = True
                    for i, r in enumerate(rg.points):
                        sh = np.asarray(ar.points)[i * n:(i + 1) * n] - np.array([0.3, -0.1, 0.2])
                        # an orthogonal image of r * shipped points has the same Gram matrix
                        ok = ok and np.allclose(sh @ sh.T, (P * r) @ (P * r).T, rtol=0, atol=1e-11 * (1 + r * r))
                    e["p"] = "ok" if ok else "dirty"
                    e["w"] = _okd(ar.weights, np.hstack([W * wr * r ** 2 for r, wr in zip(rg.points, rg.weights)]))
                    e["pa"], e["wa"] = self._aliases(ar._points, m), self._aliases(ar.weights, m)
                elif kind == "Mol":
                    from grid.becke import BeckeWeights
                    from grid.molgrid import MolGrid
                    c1, c2 = np.array([0.0, 0.0, -0.8]), np.array([0.0, 0.3, 0.9])
                    a1 = AtomGrid(rg, degrees=[int(d)], method=m, center=c1)
                    a2 = AtomGrid(rg, degrees=[int(d)], method=m, center=c2)
                    mg = MolGrid(np.array([1, 8]), [a1, a2], BeckeWeights(), store=True)
                    exp_p = np.vstack([P * r + c for c in (c1, c2) for r in rg.points])
                    exp_w = np.hstack([W * wr * r ** 2 for _ in (0, 1) for r, wr in zip(rg.points, rg.weights)])
                    e["p"], e["w"] = _okd(mg.points, exp_p), _okd(mg.atweights, exp_w)
                    e["pa"], e["wa"] = self._aliases(mg.points, m), self._aliases(mg.atweights, m) or self._aliases(mg.weights, m)
                else:
                    v = np.cos(np.arange(2 * n) * 0.37) + 2.0
                    got = ag.integrate_angular_coordinates(v)
                    exp = np.array([np.sum(v[:n] * W), np.sum(v[n:] * W)])
                    e["w"] = _okd(got, exp)
                    sph = ag.convert_cartesian_to_spherical()
                    from grid.utils import convert_cart_to_sph
                    e["p"] = _okd(sph[:n, 1:], convert_cart_to_sph(P)[:, 1:])
                # ... and then the caller scribbles over every array this object hands out (centre, weights,
                # index table, points): nothing of that may reach a LATER construction
                for obj in [x for x in (locals().get("ag"), locals().get("ar"), locals().get("mg"), locals().get("a1")) if x is not None]:
                    for name in ("center", "weights", "indices", "points", "atcoords", "atweights", "aim_weights"):
                        try:
                            arr = getattr(obj, name)
                            if isinstance(arr, np.ndarray) and arr.flags.writeable:
                                arr += 3
                        except Exception:  # noqa: BLE001
                            pass
        except Exception as ex:
            e["exc"] = type(ex).__name__
        e["clean"] = self._clean()
        self.events.append(e)

    def run(self, beh, mmap, dmap):
        for act, a, b, c in beh:
            if act == "New":
                self.new(mmap[a], dmap[mmap[a]][b], c)
            elif act == "Edit":
                self.edit(b, a)
            elif act == "Drop":
                self.drop(b)
            else:
                self.atom(mmap[a], dmap[mmap[a]][b], act)
        return self.events


def _sym(z):
    """Element symbol of atomic number z (independent small table: the elements the harness uses)."""
    return {1: "H", 6: "C", 7: "N", 8: "O", 9: "F", 15: "P", 16: "S", 17: "Cl"}[z]


# --------------------------------------------------------------------------------------------
class ScaleDriver:
    OPS = ["transform", "deriv", "deriv2", "deriv3", "inverse", "deriv_inverse", "transform_1d_grid"]

    def __init__(self, cls, b0):
        import grid.rtransform as rt
        self.cls = getattr(rt, cls)
        self.args = (0.5, 20.0)
        self.tf = self.cls(*self.args, b=(None if b0 == 0 else float(b0)))
        self.events = [{"ev": "NewTf", "cls": cls, "b0": int(b0)}]

    @staticmethod
    def _b(tf):
        if tf.b is None:
            return 0
        b = float(tf.b)
        return int(b) if (np.isfinite(b) and b.is_integer() and 0 < b < 1e6) else -7   # -7: not a value the harness ever supplied

    def _do(self, tf, op, x):
        from grid.basegrid import OneDGrid
        if op == "transform_1d_grid":
            g = tf.transform_1d_grid(OneDGrid(x.copy(), np.ones(len(x)), (0, np.inf)))
            return np.concatenate([g.points, g.weights])
        return np.asarray(getattr(tf, op)(x.copy()))

    def call(self, op, n):
        # arguments: 0..n-1 for forward operations, radii 1..n for inverse-type operations
        x = np.arange(n, dtype=float) + (1.0 if op in ("inverse", "deriv_inverse") else 0.0)
        e = {"ev": "Call", "op": op, "xmax": int(np.max(x)) if np.isfinite(np.max(x)) else -7, "bpre": self._b(self.tf), "bpost": 0, "pure": True,
             "dep": False, "exc": ""}
        try:
            with warnings.catch_warnings():
                warnings.simplefilter("ignore")
                got = self._do(self.tf, op, x)
                bnow = self.tf.b
                e["bpost"] = self._b(self.tf)
                fresh = self.cls(*self.args, b=bnow)
                ref = self._do(fresh, op, x)
                e["pure"] = bool(np.array_equal(got, ref, equal_nan=True))
                # does this operation use the scale at all?  (two explicit scales give different results)
                r1 = self._do(self.cls(*self.args, b=3.0), op, x)
                r2 = self._do(self.cls(*self.args, b=11.0), op, x)
                e["dep"] = not bool(np.array_equal(r1, r2, equal_nan=True))
        except Exception as ex:
            e["exc"] = type(ex).__name__
        self.events.append(e)


def _scale_traces(rng, n):
    """Random call sequences on the three b-inferring transforms (integer-valued arguments, so
    every inferred scale is an integer the specification can compare)."""
    out = []
    for k in range(n):
        cls = ["LinearInfiniteRTransform", "ExpRTransform", "PowerRTransform"][k % 3]
        b0 = rng.choice([0, 0, 5, 9])
        d = ScaleDriver(cls, b0)
        ops = [o for o in ScaleDriver.OPS]
        for _ in range(rng.randint(2, 7)):
            op = rng.choice(ops)
            d.call(op, rng.choice([4, 6, 11]))
        out.append(d.events)
    return out


# --------------------------------------------------------------------------------------------
def _model_runs(rep, wd):
    r = tlc.run_tlc("CacheSys", "MC_Cache_copying.cfg", wd, workers=16, coverage=True, timeout=900).require_ok("copying")
    rep.tlc(r, "MC_Cache_copying")
    if r.status == "violation":
        rep.violation("model:design", f"the copying design violates {r.violated}", tlc.last_state(r))
    for act in ("NewAngular", "Edit", "Drop", "NewAtom", "Shell", "AtomOp", "NewAtomRot", "NewMol"):
        if act in r.coverage and r.coverage[act][1] == 0:
            raise tlc.MachineryError(f"vacuity: action {act} never taken")
    r2 = tlc.run_tlc("CacheSys", "MC_Cache_asShippedFresh.cfg", wd, workers=4).require_ok("asShipped")
    rep.set("as_shipped_variant_refuted", r2.status == "violation")
    if r2.status != "violation":
        raise tlc.MachineryError("as-shipped aliasing variant is not refuted: the model lost its teeth")
    r3 = tlc.run_tlc("CacheSys", "MC_Cache_witness.cfg", wd, workers=4).require_ok("witness")
    if r3.status != "violation":
        raise tlc.MachineryError("vacuity: witness edit-then-rebuild not reachable")
    r4 = tlc.run_tlc("ScaleSys", "MC_Scale.cfg", wd, workers=4).require_ok("scale")
    rep.tlc(r4, "MC_Scale")
    if r4.status == "violation":
        rep.violation("model:scale", f"ScaleSys violates {r4.violated}", tlc.last_state(r4))


def _validate(rep, wd, traces, meta, module, cfgname, fname, label):
    with open(wd / fname, "w") as f:
        json.dump(traces, f)
    res = tlc.run_tlc(module, cfgname, wd, workers=1, timeout=1500, xmx="12g").require_ok(module)
    rep.tlc(res, module)
    acc = tlc.tagged(res.stdout, "ACCEPT")
    rej = tlc.tagged(res.stdout, "REJECT")
    if res.status == "violation":
        rep.violation(f"{label}:spec-invariant:{','.join(res.violated)}", f"invariant {res.violated} fails on a recorded trace", tlc.last_state(res))
    for _, tid, pos, evname, clause in rej:
        ev = traces[tid - 1][pos - 1]
        mt = meta[tid - 1]
        what = ev.get("m") or (mt.get("cls") if isinstance(mt, dict) else None) or "?"
        rep.violation(f"{label}:{what}:{evname}:{clause}",
                      f"{label}: event {pos} ({evname}) of a recorded trace is not allowed by the specification: {clause}; "
                      f"trace so far {json.dumps(traces[tid - 1][:pos])[:600]}",
                      {"trace": traces[tid - 1][:pos], "meta": meta[tid - 1]})
    if res.status == "ok" and len(acc) + len(rej) != len(traces):
        raise tlc.MachineryError(f"{module}: {len(acc)}+{len(rej)} verdicts for {len(traces)} traces")
    return len(acc)


def run(tier: str) -> int:
    rep = Report(PROP, tier, "model_checking")
    rng = random.Random(rep.seed)
    wd = tlc.scratch(f"{PROP}-{tier}")
    _model_runs(rep, wd)
    tabs = extract.angular_tables()
    with open(extract.DATA / "atomic_gauss_params.json") as f:
        coul_ref = {k: {kk: np.asarray(vv, dtype=float) for kk, vv in v.items() if isinstance(vv, list)}
                    for k, v in json.load(f).items()}

    g = tlc.run_tlc("CacheGen", "Gen_Cache.cfg", wd, workers=8, timeout=900).require_ok("Gen_Cache")
    rep.tlc(g, "Gen_Cache")
    behs = sorted(b[1] for b in tlc.tagged(g.stdout, "BEH"))
    if len(behs) < 500:
        raise tlc.MachineryError(f"only {len(behs)} behaviours generated")
    rep.set("tlc_behaviours_generated", len(behs))

    def degs(m):
        ds = [d for d, s in tabs[m]["deg"] if s <= 200]
        return {3: ds[0], 5: ds[1]}
    concretisations = [
        ({"lebedev": "lebedev", "maxdet": "maxdet"}, {m: degs(m) for m in ("lebedev", "maxdet")}),
        ({"lebedev": "spherical", "maxdet": "ahrens_beylkin"}, {m: degs(m) for m in ("spherical", "ahrens_beylkin")}),
    ]
    traces, meta = [], []
    sel = behs if tier == "thorough" else rng.sample(behs, 1500)
    for bi, beh in enumerate(sel):
        for ci, (mmap, dmap) in enumerate(concretisations):
            if tier == "quick" and (bi + ci) % 2:
                continue
            ev = CacheDriver(tabs, coul_ref).run(beh, mmap, dmap)
            if ev:
                traces.append(ev)
                meta.append({"behaviour": beh, "methods": mmap})
    # random longer behaviours over all methods + the Coulomb table
    allm = ["lebedev", "spherical", "maxdet", "ahrens_beylkin"]
    small = {m: [d for d, s in tabs[m]["deg"] if s <= 200][:3] for m in allm}
    nrand = 150 if tier == "quick" else 2000
    elements = [1, 6, 8, 17]
    for _ in range(nrand):
        d = CacheDriver(tabs, coul_ref)
        beh = []
        for _ in range(rng.randint(4, 12)):
            x = rng.random()
            m = rng.choice(allm)
            if x < 0.35:
                if rng.random() < 0.15:
                    d.new("coulomb", rng.choice(elements), True)
                else:
                    r = rng.random()
                    dd = rng.choice(small[m])
                    built = [o for o in d.objs if o[0] == m and len(o) == 4]
                    if r < 0.08:
                        d.new("maxdet", 50, True)          # the default value of the (ignored) degree argument is tabulated here
                    elif r < 0.30:
                        d.new(m, dd, rng.random() < 0.6, by_size=True)
                    elif r < 0.45 and built:
                        d.new(m, dd, rng.random() < 0.6, by_size=True, ignored_degree=int(rng.choice(built)[3].degree))
                    else:
                        d.new(m, dd, rng.random() < 0.6)
            elif x < 0.6:
                if d.objs:
                    d.edit(rng.randint(1, len(d.objs)), rng.choice("pw"))
            elif x < 0.7:
                if d.objs:
                    d.drop(rng.randint(1, len(d.objs)))
            else:
                d.atom(m, rng.choice(small[m]), rng.choice(["Atom", "Shell", "AtomOp", "AtomRot", "Mol"]))
        if d.events:
            traces.append(d.events)
            meta.append({"random": True})
    for ev in traces:
        rep.evaluated(len(ev), json.dumps([(e["ev"], e.get("m"), e.get("d"), e.get("flag"), e.get("i"), e.get("part")) for e in ev]))
    useddeg = sorted({e["d"] for t in traces for e in t if "d" in e})
    (wd / "Trace_Cache.cfg").write_text(
        "SPECIFICATION TSpec\nCONSTANTS\n  Methods = {\"lebedev\", \"spherical\", \"maxdet\", \"ahrens_beylkin\", \"coulomb\"}\n"
        "  Scaled = {\"lebedev\", \"spherical\"}\n  Degrees = {" + ", ".join(map(str, useddeg)) + "}\n  MaxObjs = 1000\n"
        "  Aliasing = \"copying\"\nINVARIANT FreshIsShipped\nINVARIANT CacheClean\nINVARIANT NoAliasCacheUser\n")
    nacc = _validate(rep, wd, traces, meta, "CacheTrace", wd / "Trace_Cache.cfg", "traces_c19.json", "cache")

    st = _scale_traces(rng, 300 if tier == "quick" else 5000)
    for ev in st:
        rep.evaluated(len(ev) - 1, json.dumps([(e.get("cls"), e.get("b0"), e.get("op"), e.get("xmax")) for e in ev]))
    (wd / "Trace_Scale.cfg").write_text("SPECIFICATION TSpec\nCONSTANTS\n  Ops = {}\n  XMaxs = {}\n  BInit = {}\n")
    nacc += _validate(rep, wd, st, [e[0] for e in st], "ScaleTrace", wd / "Trace_Scale.cfg", "traces_scale.json", "scale")

    if tier == "thorough":
        # every AngularGrid construction made by the repository's angular / atomic-grid tests
        from .. import record
        record.judge_suite(rep, wd, "angular", ["src/grid/tests/test_angular.py", "src/grid/tests/test_atomgrid.py"], "angular")
    rep.set("traces_validated_against_impl", len(traces) + len(st))
    rep.set("traces_accepted", nacc)
    rep.sample({"cache_trace": traces[0]})
    rep.sample({"cache_trace_random": traces[-1][:5]})
    rep.sample({"scale_trace": st[0]})
    rep.set("rule", "one case = one recorded event of a replayed behaviour (cache machine: New/Edit/Drop/Atom/Shell/AtomOp; "
                    "scale machine: Call), judged by TLC; distinct = distinct event sequences")
    rep.assume("contents are compared with the shipped .npz/.json files loaded independently (allclose rtol 1e-12); an in-place edit adds 1 and scales by 1.5")
    return rep.finish()


def selftest(tier: str = "quick") -> int:
    from ..evidence import patched, run_mutants
    import grid.angular as ang
    import grid.atomgrid as agm
    import grid.rtransform as rt
    import grid.coulomb as coul
    from grid.basegrid import Grid

    def alias_points():  # the defect repaired by c8137f6
        orig = ang.AngularGrid.__init__

        def init(self, degree=50, *, size=None, cache=True, method="lebedev"):
            orig(self, degree, size=size, cache=cache, method=method)
            c = _caches()[method.lower()]
            if self._degree in c:
                self._points = c[self._degree][0]
        return patched(ang.AngularGrid, "__init__", init)

    def alias_weights_unscaled():
        orig = ang.AngularGrid.__init__

        def init(self, degree=50, *, size=None, cache=True, method="lebedev"):
            orig(self, degree, size=size, cache=cache, method=method)
            c = _caches()[method.lower()]
            if self._degree in c and method.lower() in ("maxdet", "ahrens_beylkin"):
                self._weights = c[self._degree][1]
        return patched(ang.AngularGrid, "__init__", init)

    def shell_scales_cache():  # get_shell_grid forgets .copy() and scales in place
        orig = agm.AtomGrid.get_shell_grid

        def gs(self, index, r_sq=True):
            c = _caches()[self.method]
            d = self.degrees[index]
            out = orig(self, index, r_sq)
            if d in c:
                c[d][0][:] = c[d][0] * 1.0000001
            return out
        return patched(agm.AtomGrid, "get_shell_grid", gs)

    def b_overwritten():  # a later call re-infers the scale
        def setb(self, x):
            self._b = np.max(x)
        return patched(rt.ExpRTransform, "set_maximum_parameter_b", setb)

    def coulomb_cached_arrays():  # loader caches ndarray objects and hands them out
        orig = coul.load_atomic_gaussian_params
        store = {}

        def load(element):
            if element not in store:
                store[element] = orig(element)
            return store[element]
        return patched(coul, "load_atomic_gaussian_params", load)

    muts = [("instance-aliases-cached-points", alias_points), ("instance-aliases-cached-weights", alias_weights_unscaled),
            ("shell-grid-scales-cache", shell_scales_cache), ("b-overwritten", b_overwritten),
            ("coulomb-loader-hands-out-cached-arrays", coulomb_cached_arrays)]
    return run_mutants(PROP, run, muts, tier)
